"""Proofs over do_source_file / backup.cpp / bout_content_matches (C12, C13, C14)."""
import os
import sys
sys.path.insert(0, os.path.join(os.path.dirname(os.path.abspath(__file__)), '..', '..', 'tools'))
from prover import Proof  # noqa: E402

ENV = ['language_flags_from_filename', 'language_name_from_flags', 'keywords_are_sorted', 'init_keywords_for_language', 'load_mem_file',
       'uncrustify_file', 'uncrustify_end', 'bout_content_matches', 'backup_copy_file', 'backup_create_md5_file', 'make_folders_c',
       'file_content_matches_c', 'fopen', 'fputc', 'ferror', 'fflush', 'fileno', 'fsync', 'fclose', 'rename', 'unlink', 'utime', 'exit']
L_dsf = [dict(fn='do_source_file', id=0, vars=['__i0'], assigns='__i0, g_tmp_write_error',
              inv='__i0 <= D8_size(CPD(bout))', decreases='D8_size(CPD(bout)) - __i0')]


def dsf_proof():
    p = Proof('do_source_file', impl='contracts/fileio/dsf.impl.cpp', spec='contracts/fileio/fileio.spec.c',
              enforce='do_source_file/do_source_file_contract', replace=['%s/%s_contract' % (f, f) for f in ENV],
              loops=L_dsf, rules={'do_source_file': [('D1', {})]}, canaries=4,
              assumed=['%s_contract (libc / unverified helper: nondeterministic success or failure over the ghost file-system typestate)' % f for f in ENV
                       if f not in ('bout_content_matches', 'backup_copy_file')],
              functions=['uncrustify.cpp:do_source_file'], expect=['do_source_file_contract.postcondition', r'rename_contract.precondition', r'backup_create_md5_file_contract.precondition', 'fopen_contract.precondition'],
              mutants=[('writes_target_directly', r'filename_tmp \+= ".uncrustify";', '', 'precondition'),
                       ('ignores_failed_backup', r'if \(backup_copy_file\(filename_in, fm.raw\) != EX_OK\)', 'if (backup_copy_file(filename_in, fm.raw) != EX_OK && false)', 'postcondition'),
                       ('rename_failure_ignored', r'if \(rename\(filename_tmp.c_str\(\), filename_out\) != 0\)', 'if (rename(filename_tmp.c_str(), filename_out) != 0 && false)', 'postcondition'),
                       ('check_opens_file', r'if \(!cpd.do_check\)\n   \{\n      if \(filename_out == nullptr\)', 'if (true)\n   {\n      if (filename_out == nullptr)', 'postcondition'),
                       ('if_changed_no_early_return', r'uncrustify_end\(\);\n         return;', 'uncrustify_end();', 'postcondition|precondition')])
    return p


L_bcm = [dict(fn='bout_content_matches', id=0, vars=['idx', 'fm', 'is_same'], assigns='idx, is_same, g_stderr_lines',
              inv='idx >= 0 && (unsigned long)idx <= V8_size(file_mem_raw(fm)) && is_same && g_stderr_lines == 0 && g_stdout_lines == 0'
                  ' && (g_J < (unsigned long)idx ==> D8_data(CPD(bout))[g_J] == V8_data(file_mem_raw(fm))[g_J])',
              decreases='V8_size(file_mem_raw(fm)) - (unsigned long)idx')]


def bcm_proof():
    return Proof('bout_content_matches', impl='contracts/fileio/bcm.impl.cpp', spec='contracts/fileio/bcm.spec.c',
                 enforce='bout_content_matches/bout_content_matches_contract', loops=L_bcm, canaries=2,
                 functions=['uncrustify.cpp:bout_content_matches'], expect=['bout_content_matches_contract.postcondition', 'loop_decreases'],
                 mutants=[('skips_last_byte', r'idx < static_cast<int>\(fm.raw.size\(\)\); idx\+\+', 'idx < static_cast<int>(fm.raw.size()) - 1; idx++', 'postcondition|loop_invariant'),
                          ('size_check_dropped', r'if \(cpd.bout->size\(\) != fm.raw.size\(\)\)', 'if (false)', 'postcondition|container'),
                          ('pass_when_fail', r'is_same = false;\n            break;', 'break;', 'postcondition|loop_invariant')])


_unc_lower = lambda e: '((%s) >= 65 && (%s) <= 90 ? (char)((%s) + 32) : (%s))' % (e, e, e, e)
L_bcf = [dict(fn='backup_copy_file', id=0, vars=['i', 'buffer', 'md5_str_in'], assigns='i, __CPROVER_object_whole(md5_str_in)',
              inv='i >= 0 && i <= g_N && i <= 32 && (0 < i ==> md5_str_in[0] == unc_lower_m(buffer[0])) && (1 < i ==> md5_str_in[1] == unc_lower_m(buffer[1])) && (2 < i ==> md5_str_in[2] == unc_lower_m(buffer[2])) && (3 < i ==> md5_str_in[3] == unc_lower_m(buffer[3])) && (4 < i ==> md5_str_in[4] == unc_lower_m(buffer[4])) && (5 < i ==> md5_str_in[5] == unc_lower_m(buffer[5])) && (6 < i ==> md5_str_in[6] == unc_lower_m(buffer[6])) && (7 < i ==> md5_str_in[7] == unc_lower_m(buffer[7])) && (8 < i ==> md5_str_in[8] == unc_lower_m(buffer[8])) && (9 < i ==> md5_str_in[9] == unc_lower_m(buffer[9])) && (10 < i ==> md5_str_in[10] == unc_lower_m(buffer[10])) && (11 < i ==> md5_str_in[11] == unc_lower_m(buffer[11])) && (12 < i ==> md5_str_in[12] == unc_lower_m(buffer[12])) && (13 < i ==> md5_str_in[13] == unc_lower_m(buffer[13])) && (14 < i ==> md5_str_in[14] == unc_lower_m(buffer[14])) && (15 < i ==> md5_str_in[15] == unc_lower_m(buffer[15])) && (16 < i ==> md5_str_in[16] == unc_lower_m(buffer[16])) && (17 < i ==> md5_str_in[17] == unc_lower_m(buffer[17])) && (18 < i ==> md5_str_in[18] == unc_lower_m(buffer[18])) && (19 < i ==> md5_str_in[19] == unc_lower_m(buffer[19])) && (20 < i ==> md5_str_in[20] == unc_lower_m(buffer[20])) && (21 < i ==> md5_str_in[21] == unc_lower_m(buffer[21])) && (22 < i ==> md5_str_in[22] == unc_lower_m(buffer[22])) && (23 < i ==> md5_str_in[23] == unc_lower_m(buffer[23])) && (24 < i ==> md5_str_in[24] == unc_lower_m(buffer[24])) && (25 < i ==> md5_str_in[25] == unc_lower_m(buffer[25])) && (26 < i ==> md5_str_in[26] == unc_lower_m(buffer[26])) && (27 < i ==> md5_str_in[27] == unc_lower_m(buffer[27])) && (28 < i ==> md5_str_in[28] == unc_lower_m(buffer[28])) && (29 < i ==> md5_str_in[29] == unc_lower_m(buffer[29])) && (30 < i ==> md5_str_in[30] == unc_lower_m(buffer[30])) && (31 < i ==> md5_str_in[31] == unc_lower_m(buffer[31])) && (i == 0 ==> md5_str_in[0] == 0)'.replace('unc_lower_m(', 'UNC_LOWER(') + ''.join(' && (%d >= i ==> md5_str_in[%d] == 0)' % (k, k) for k in range(33)), decreases='33 - i')]


def bcf_proof():
    env = ['fopen', 'fgets', 'fclose', 'fwrite', 'memcmp', 'exit']
    return Proof('backup_copy_file', impl='contracts/fileio/backup.impl.cpp', spec='contracts/fileio/backup.spec.c',
                 enforce='backup_copy_file/backup_copy_file_contract', replace=['%s/%s_contract' % (f, f) for f in env], loops=L_bcf, canaries=2,
                 assumed=['%s_contract (libc over the ghost file system)' % f for f in env] + ['MD5::Calc = an arbitrary fixed digest g_md5'],
                 functions=['backup.cpp:backup_copy_file', 'unc_ctype.cpp:unc_isxdigit', 'unc_ctype.cpp:unc_tolower'], timeout=1200, fallback_unwind=130,
                 expect=['backup_copy_file_contract.postcondition', 'loop_decreases'], drop_flags=['--conversion-check'],
                 mutants=[('md5_compare_inverted', r'if \(memcmp\(md5_str, md5_str_in, 32\) == 0\)', 'if (memcmp(md5_str, md5_str_in, 32) != 0)', 'postcondition'),
                          ('fwrite_unchecked', r'if \(  retval == 1\n         \|\| data.empty\(\)\)', 'if (true)', 'postcondition'),
                          ('backup_close_unchecked', r'if \(  fclose\(thefile\) != 0\n         && \(  retval == 1\n            \|\| data.empty\(\)\)\)', 'fclose(thefile);\n      if (false)', 'postcondition'),
                          ('compares_31_chars', r'memcmp\(md5_str, md5_str_in, 32\)', 'memcmp(md5_str, md5_str_in, 31)', 'postcondition|precondition')])


def loadmem_proof():
    return Proof('load_mem_file', impl='contracts/fileio/loadmem.impl.cpp', spec='contracts/fileio/loadmem.spec.c', harness='h_load_mem_file', plain=True, no_contract=True, canaries=3, rules={},
                 nondet_static='.*(g_stat_ok|g_open_ok|g_decode_ok|g_st_size|g_fread_result).*', drop_flags=['--conversion-check'],
                 functions=['uncrustify.cpp:load_mem_file'], expect=['postcondition: load_mem_file'],
                 assumed=['stat / fopen / fread / fclose: libc models with arbitrary outcomes (fread returns the number of complete items, possibly fewer than asked for)',
                          'decode_unicode: succeeds or not (its own contract: C09)', 'exit() does not return'],
                 note='the paths ending in exit(EX_IOERR) (short read, undecodable text) are cut at the exit model: the postconditions speak about the returning paths',
                 mutants=[('short_read_accepted', r'if \(fread\(&fm\.raw\[0\], fm\.raw\.size\(\), 1, p_file\) != 1\)', 'if (fread(&fm.raw[0], 1, fm.raw.size(), p_file) == 0)', 'postcondition'),
                          ('decode_failure_ignored', r'else if \(!decode_unicode\(fm\.raw, fm\.data, fm\.enc, fm\.bom\)\)', 'else if (!decode_unicode(fm.raw, fm.data, fm.enc, fm.bom) && false)', 'postcondition'),
                          ('stream_leaked', r'   fclose\(p_file\);\n   return\(retval\);', '   return(retval);', 'postcondition')])


def md5file_proof():
    env = ['fopen/fopen_md5_contract', 'fread/fread_contract', 'ferror/ferror_src_contract', 'fclose/fclose_md5_contract', 'c_md5_update/md5_update_contract', 'c_md5_final/md5_final_contract',
           'c_write_md5_line/write_md5_line_contract', 'exit/exit_contract']
    return Proof('backup_create_md5_file', impl='contracts/fileio/backup.impl.cpp', spec='contracts/fileio/backup.spec.c', harness='h_backup_create_md5_file',
                 enforce='backup_create_md5_file/backup_create_md5_file_contract', replace=env, canaries=2, defines=['MD5FILE_PROOF'], timeout=900,
                 loops=[dict(fn='backup_create_md5_file', id=0, vars=['len', 'buf'], assigns='len, g_src_pos, g_src_error, g_last_buf, g_last_n, g_fed, g_fed_in_order, __CPROVER_object_whole(buf)',
                             inv='g_src_pos <= g_src_len && g_fed_in_order && g_fed == g_src_pos && (%s ==> g_src_error)' % '__CPROVER_loop_entry(g_src_error)',
                             decreases='g_src_len - g_src_pos')],
                 partial_loops=True, drop_flags=['--conversion-check'],
                 assumed=['fread / fopen / fclose (libc over a ghost file of arbitrary length)', 'MD5::Update / MD5::Final: a digest of the bytes fed, in order (the MD5 implementation itself is not verified)'],
                 functions=['backup.cpp:backup_create_md5_file'], expect=['backup_create_md5_file_contract.postcondition', 'loop_decreases'],
                 mutants=[('feeds_wrong_length', r'md5.Update\(buf, len\);', 'md5.Update(buf, sizeof(buf));', 'postcondition|loop_invariant'),
                          ('read_error_ignored', r'if \(ferror\(thefile\)\)', 'if (false)', 'postcondition')])
