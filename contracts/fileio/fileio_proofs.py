"""Proofs over do_source_file / backup.cpp / bout_content_matches (C12, C13, C14)."""
import os
import sys
sys.path.insert(0, os.path.join(os.path.dirname(os.path.abspath(__file__)), '..', '..', 'tools'))
from prover import Proof  # noqa: E402

ENV = ['language_flags_from_filename', 'language_name_from_flags', 'keywords_are_sorted', 'init_keywords_for_language', 'load_mem_file',
       'uncrustify_file', 'uncrustify_end', 'bout_content_matches', 'backup_copy_file', 'backup_create_md5_file', 'make_folders_c',
       'file_content_matches_c', 'fopen', 'fputc', 'ferror', 'fclose', 'rename', 'unlink', 'utime', 'exit']
L_dsf = [dict(fn='do_source_file', id=0, vars=['__i0'], assigns='__i0, g_tmp_write_error',
              inv='__i0 <= D8_size(CPD(bout))', decreases='D8_size(CPD(bout)) - __i0')]


def dsf_proof():
    p = Proof('do_source_file', impl='contracts/fileio/dsf.impl.cpp', spec='contracts/fileio/fileio.spec.c',
              enforce='do_source_file/do_source_file_contract', replace=['%s/%s_contract' % (f, f) for f in ENV],
              loops=L_dsf, rules={'do_source_file': [('D1', {})]}, canaries=4,
              assumed=['%s_contract (libc / unverified helper: nondeterministic success or failure over the ghost file-system typestate)' % f for f in ENV
                       if f not in ('bout_content_matches', 'backup_copy_file')],
              functions=['uncrustify.cpp:do_source_file'], expect=['do_source_file_contract.postcondition', r'rename_contract.precondition', r'backup_create_md5_file_contract.precondition', 'fopen_contract.precondition'],
              mutants=[('writes_target_directly', r'filename_tmp \+= ".uncrustify";', '', 'precondition'),
                       ('ignores_failed_backup', r'if \(backup_copy_file\(filename_in, fm.raw\) != EX_OK\)', 'if (backup_copy_file(filename_in, fm.raw) != EX_OK && false)', 'postcondition'),
                       ('rename_failure_ignored', r'if \(rename\(filename_tmp.c_str\(\), filename_out\) != 0\)', 'if (rename(filename_tmp.c_str(), filename_out) != 0 && false)', 'postcondition'),
                       ('check_opens_file', r'if \(!cpd.do_check\)\n   \{\n      if \(filename_out == nullptr\)', 'if (true)\n   {\n      if (filename_out == nullptr)', 'postcondition'),
                       ('if_changed_no_early_return', r'uncrustify_end\(\);\n         return;', 'uncrustify_end();', 'postcondition|precondition')])
    return p


L_bcm = [dict(fn='bout_content_matches', id=0, vars=['idx', 'fm', 'is_same'], assigns='idx, is_same, g_stderr_lines',
              inv='idx >= 0 && (unsigned long)idx <= V8_size(file_mem_raw(fm)) && is_same && g_stderr_lines == 0 && g_stdout_lines == 0'
                  ' && (g_J < (unsigned long)idx ==> D8_data(CPD(bout))[g_J] == V8_data(file_mem_raw(fm))[g_J])',
              decreases='V8_size(file_mem_raw(fm)) - (unsigned long)idx')]


def bcm_proof():
    return Proof('bout_content_matches', impl='contracts/fileio/bcm.impl.cpp', spec='contracts/fileio/bcm.spec.c',
                 enforce='bout_content_matches/bout_content_matches_contract', loops=L_bcm, canaries=2,
                 functions=['uncrustify.cpp:bout_content_matches'], expect=['bout_content_matches_contract.postcondition', 'loop_decreases'],
                 mutants=[('skips_last_byte', r'idx < static_cast<int>\(fm.raw.size\(\)\); idx\+\+', 'idx < static_cast<int>(fm.raw.size()) - 1; idx++', 'postcondition|loop_invariant'),
                          ('size_check_dropped', r'if \(cpd.bout->size\(\) != fm.raw.size\(\)\)', 'if (false)', 'postcondition|container'),
                          ('pass_when_fail', r'is_same = false;\n            break;', 'break;', 'postcondition|loop_invariant')])
