/* load_mem_file() (src/uncrustify.cpp): 0 means the WHOLE file is in fm.raw.
 *  C13 "in-place rewriting is all-or-nothing" / C14 "the backup holds the last text uncrustify did not write": the text that is formatted, and the bytes that
 *      backup_copy_file() saves (fm.raw), must be the complete file - a short read that is taken for the file loses the unread tail when the file is replaced.
 *  C06 "refused with a diagnostic": a file that cannot be read ends in -1 (the caller reports it) or in exit(EX_IOERR), never in a half-read text. */
#include "common.h"
extern _Bool g_stat_ok, g_open_ok, g_decode_ok, g_exited; extern long g_st_size; extern size_t g_fread_result;
extern unsigned g_stat_n, g_open_n, g_fread_n, g_close_n, g_decode_n; extern size_t g_fread_bytes_wanted, g_fread_bytes_got, g_decoded_bytes; extern const void *g_fread_buf; extern const char *g_name;
int w_load_mem_file(const char *filename, struct file_mem *fm);
#define FM_RAW(fm) file_mem_raw(fm)
void h_load_mem_file(void)
{
   struct file_mem *fm = malloc(SIZEOF_file_mem);
   char name[1];
   __CPROVER_assume(fm != 0 && g_st_size >= 0 && g_st_size <= (1L << 40));
   /* the raw buffer: any capacity that holds the file (the container model needs the storage to exist; std::vector allocates it) */
   __CPROVER_assume(V8_cap(FM_RAW(fm)) >= (size_t)g_st_size && V8_cap(FM_RAW(fm)) <= (1UL << 41) && V8_size(FM_RAW(fm)) <= V8_cap(FM_RAW(fm)));
   V8_data(FM_RAW(fm)) = malloc(V8_cap(FM_RAW(fm)));
   __CPROVER_assume(V8_data(FM_RAW(fm)) != 0);
   g_name = name;
   g_stat_n = g_open_n = g_fread_n = g_close_n = g_decode_n = 0; g_exited = 0; g_fread_bytes_got = g_fread_bytes_wanted = 0;
   int r = w_load_mem_file(name, fm);
   __CPROVER_assert(r == 0 || r == -1, "postcondition: load_mem_file returns 0 or -1");
   /* success: the file was there, and either it is empty or all of its st_size bytes were read into fm.raw and decoded */
   __CPROVER_assert(r == 0 ==> (g_stat_ok && g_open_ok && V8_size(FM_RAW(fm)) == (size_t)g_st_size), "postcondition: load_mem_file success means fm.raw has the size of the file");
   __CPROVER_assert((r == 0 && g_st_size > 0) ==> (g_fread_n == 1 && g_fread_bytes_wanted == (size_t)g_st_size && g_fread_bytes_got == (size_t)g_st_size && g_fread_buf == (void *)V8_data(FM_RAW(fm))),
                    "postcondition: load_mem_file success means every byte of the file was read into fm.raw (a short read is not a file)");
   __CPROVER_assert((r == 0 && g_st_size > 0) ==> (g_decode_n == 1 && g_decode_ok && g_decoded_bytes == (size_t)g_st_size), "postcondition: load_mem_file success means the whole text was decoded");
   /* failure to stat or open: -1 and nothing read */
   __CPROVER_assert((!g_stat_ok || !g_open_ok) ==> (r == -1 && g_fread_n == 0), "postcondition: load_mem_file a file that cannot be opened is refused");
   __CPROVER_assert(r == -1 ==> (!g_stat_ok || !g_open_ok), "postcondition: load_mem_file -1 only for a file that cannot be opened");
   /* the stream is closed exactly when it was opened */
   __CPROVER_assert(g_close_n == ((g_stat_ok && g_open_ok) ? 1 : 0), "postcondition: load_mem_file closes the stream it opened");
   if (r == 0 && g_st_size > 0) { __CPROVER_assert(0, "VACUITY_CANARY load_mem_file: file read"); }
   if (r == 0 && g_st_size == 0) { __CPROVER_assert(0, "VACUITY_CANARY load_mem_file: empty file"); }
   if (r == -1) { __CPROVER_assert(0, "VACUITY_CANARY load_mem_file: refused"); }
}
