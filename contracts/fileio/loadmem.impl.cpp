// Translation unit for load_mem_file() (src/uncrustify.cpp; C13-K4, C14-K4, C06-K6): the function that brings a source file into memory -
// the bytes it returns are what gets formatted, backed up (fm.raw) and compared.  Whole function, sliced verbatim; stat / fopen / fread /
// fclose / decode_unicode / exit are ghost models with arbitrary outcomes (a short read included).  Direct verification conditions (no loop).
#include "token_enum.h"      /* from the working tree: -I <repo>/src */
#define VERIF_E_TOKEN
#include "base.h"
#include "containers.h"
#include "fs.h"
#include "unctext.h"
#include "cpd.h"
#include "logger.h"
#include "file_mem.h"
#define HAVE_UTIME_H 1
struct stat { long st_size; long st_mtime; };
extern "C" {
bool g_stat_ok, g_open_ok, g_decode_ok, g_exited; long g_st_size; size_t g_fread_result;
unsigned g_stat_n, g_open_n, g_fread_n, g_close_n, g_decode_n; size_t g_fread_bytes_wanted, g_fread_bytes_got, g_decoded_bytes; const void *g_fread_buf; const char *g_name;
FILE g_the_file;
int stat(const char *path, struct stat *st)
{
   g_stat_n++;
   VASSERT(path == g_name, "stat: the file asked for");
   if (!g_stat_ok) { return(-1); }
   st->st_size = g_st_size; st->st_mtime = nondet_int();
   return(0);
}
FILE *fopen(const char *path, const char *mode)
{
   g_open_n++;
   VASSERT(path == g_name && mode[0] == 'r', "fopen: the file asked for, for reading");
   return(g_open_ok ? &g_the_file : (FILE *)0);
}
// fread (C standard 7.21.8.1): returns the number of items completely read, which is less than nmemb on a read error or at end of file
size_t fread(void *ptr, size_t size, size_t nmemb, FILE *f)
{
   g_fread_n++;
   VASSERT(f == &g_the_file && g_close_n == 0, "fread: on the open stream");
   size_t r = g_fread_result;
   __CPROVER_assume(r <= nmemb);
   g_fread_buf = ptr; g_fread_bytes_wanted = size * nmemb; g_fread_bytes_got = size * r;
   return(r);
}
int fclose(FILE *f) { VASSERT(f == &g_the_file && g_close_n == 0, "fclose: the open stream, once"); g_close_n++; return(nondet_int()); }
void exit(int status) { g_exited = true; g_exit_status = status; __CPROVER_assume(false); }
}
static bool decode_unicode(const vector_UINT8 &in, deque_int &out, char_encoding_e &enc, bool &bom) { g_decode_n++; g_decoded_bytes = in.size(); return(g_decode_ok); }
static const char *get_char_encoding(char_encoding_e) { return(""); }
extern "C" {
//@slice src/uncrustify.cpp fn load_mem_file
int w_load_mem_file(const char *filename, file_mem *fm) { return(load_mem_file(filename, *fm)); }
}
#include "offsets_cpp.h"
