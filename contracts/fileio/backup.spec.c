/* Contracts for backup_copy_file() (src/backup.cpp), from backup.h and the statement of C14:
 * "If there isn't a FILENAME.unc-backup.md5~ or the md5 over the data doesn't match what is in it, then write the data
 *  to FILENAME.unc-backup~" -- and, conversely, never overwrite the backup when the md5 matches (the file still holds
 * what uncrustify wrote last). */
#include "common.h"
extern int errno;
struct FILE;
extern unsigned char g_md5[16];
extern char g_md5file_line[128];
extern _Bool g_md5file_exists, g_bk_opened_for_write, g_bk_closed;
extern int g_newpath_kind, g_exit_status;
extern struct FILE g_f_md5, g_f_bk;
extern const void *g_bk_ptr; extern size_t g_bk_len, g_fwrite_ret;
size_t g_bk_written;   /* ghost: number of bytes fwrite reported as completely written (size * return value) */
int g_N;          /* ghost: index of the first character of the md5 line that is not a hex digit */
_Bool g_fgets_ok; /* ghost: the md5 file could be read */
#define EX_OK 0
/* spec functions */
int is_hex(char c) { return (c >= '0' && c <= '9') || (c >= 'a' && c <= 'f') || (c >= 'A' && c <= 'F'); }
char unc_lower(char c) { return (c >= 'A' && c <= 'Z') ? (char)(c + 32) : c; }
char hexc(unsigned char b, int lo) { unsigned v = lo ? (b & 15u) : (b >> 4); return (char)(v < 10 ? '0' + v : 'a' + (v - 10)); }
/* the recorded md5 equals md5(data): 32 hex digits, case-insensitively */
#define MD5_MATCH (g_md5file_exists && g_fgets_ok && is_hex(g_md5file_line[0]) && is_hex(g_md5file_line[1]) && is_hex(g_md5file_line[2]) && is_hex(g_md5file_line[3]) && is_hex(g_md5file_line[4]) && is_hex(g_md5file_line[5]) && is_hex(g_md5file_line[6]) && is_hex(g_md5file_line[7]) && is_hex(g_md5file_line[8]) && is_hex(g_md5file_line[9]) && is_hex(g_md5file_line[10]) && is_hex(g_md5file_line[11]) && is_hex(g_md5file_line[12]) && is_hex(g_md5file_line[13]) && is_hex(g_md5file_line[14]) && is_hex(g_md5file_line[15]) && is_hex(g_md5file_line[16]) && is_hex(g_md5file_line[17]) && is_hex(g_md5file_line[18]) && is_hex(g_md5file_line[19]) && is_hex(g_md5file_line[20]) && is_hex(g_md5file_line[21]) && is_hex(g_md5file_line[22]) && is_hex(g_md5file_line[23]) && is_hex(g_md5file_line[24]) && is_hex(g_md5file_line[25]) && is_hex(g_md5file_line[26]) && is_hex(g_md5file_line[27]) && is_hex(g_md5file_line[28]) && is_hex(g_md5file_line[29]) && is_hex(g_md5file_line[30]) && is_hex(g_md5file_line[31]) && (unc_lower(g_md5file_line[0]) == hexc(g_md5[0 / 2], 0 % 2)) && (unc_lower(g_md5file_line[1]) == hexc(g_md5[1 / 2], 1 % 2)) && (unc_lower(g_md5file_line[2]) == hexc(g_md5[2 / 2], 2 % 2)) && (unc_lower(g_md5file_line[3]) == hexc(g_md5[3 / 2], 3 % 2)) && (unc_lower(g_md5file_line[4]) == hexc(g_md5[4 / 2], 4 % 2)) && (unc_lower(g_md5file_line[5]) == hexc(g_md5[5 / 2], 5 % 2)) && (unc_lower(g_md5file_line[6]) == hexc(g_md5[6 / 2], 6 % 2)) && (unc_lower(g_md5file_line[7]) == hexc(g_md5[7 / 2], 7 % 2)) && (unc_lower(g_md5file_line[8]) == hexc(g_md5[8 / 2], 8 % 2)) && (unc_lower(g_md5file_line[9]) == hexc(g_md5[9 / 2], 9 % 2)) && (unc_lower(g_md5file_line[10]) == hexc(g_md5[10 / 2], 10 % 2)) && (unc_lower(g_md5file_line[11]) == hexc(g_md5[11 / 2], 11 % 2)) && (unc_lower(g_md5file_line[12]) == hexc(g_md5[12 / 2], 12 % 2)) && (unc_lower(g_md5file_line[13]) == hexc(g_md5[13 / 2], 13 % 2)) && (unc_lower(g_md5file_line[14]) == hexc(g_md5[14 / 2], 14 % 2)) && (unc_lower(g_md5file_line[15]) == hexc(g_md5[15 / 2], 15 % 2)) && (unc_lower(g_md5file_line[16]) == hexc(g_md5[16 / 2], 16 % 2)) && (unc_lower(g_md5file_line[17]) == hexc(g_md5[17 / 2], 17 % 2)) && (unc_lower(g_md5file_line[18]) == hexc(g_md5[18 / 2], 18 % 2)) && (unc_lower(g_md5file_line[19]) == hexc(g_md5[19 / 2], 19 % 2)) && (unc_lower(g_md5file_line[20]) == hexc(g_md5[20 / 2], 20 % 2)) && (unc_lower(g_md5file_line[21]) == hexc(g_md5[21 / 2], 21 % 2)) && (unc_lower(g_md5file_line[22]) == hexc(g_md5[22 / 2], 22 % 2)) && (unc_lower(g_md5file_line[23]) == hexc(g_md5[23 / 2], 23 % 2)) && (unc_lower(g_md5file_line[24]) == hexc(g_md5[24 / 2], 24 % 2)) && (unc_lower(g_md5file_line[25]) == hexc(g_md5[25 / 2], 25 % 2)) && (unc_lower(g_md5file_line[26]) == hexc(g_md5[26 / 2], 26 % 2)) && (unc_lower(g_md5file_line[27]) == hexc(g_md5[27 / 2], 27 % 2)) && (unc_lower(g_md5file_line[28]) == hexc(g_md5[28 / 2], 28 % 2)) && (unc_lower(g_md5file_line[29]) == hexc(g_md5[29 / 2], 29 % 2)) && (unc_lower(g_md5file_line[30]) == hexc(g_md5[30 / 2], 30 % 2)) && (unc_lower(g_md5file_line[31]) == hexc(g_md5[31 / 2], 31 % 2)))

/* ---- environment (assumed libc) ---- */
struct FILE *fopen_contract(const char *path, const char *mode)
__CPROVER_requires((mode[0] == 'r' && g_newpath_kind == 1) || (mode[0] == 'w' && g_newpath_kind == 2))
__CPROVER_assigns(g_bk_opened_for_write)
__CPROVER_ensures(mode[0] == 'r' ==> (__CPROVER_return_value == (g_md5file_exists ? &g_f_md5 : (struct FILE*)0) && g_bk_opened_for_write == __CPROVER_old(g_bk_opened_for_write)))
__CPROVER_ensures(mode[0] == 'w' ==> ((__CPROVER_return_value == &g_f_bk || __CPROVER_return_value == (struct FILE*)0) && g_bk_opened_for_write))
;
char *fgets_contract(char *s, int size, struct FILE *f)
__CPROVER_requires(f == &g_f_md5 && size == 128 && __CPROVER_w_ok(s, 128))
__CPROVER_assigns(__CPROVER_object_upto(s, 128), g_fgets_ok)
__CPROVER_ensures(__CPROVER_return_value == s || __CPROVER_return_value == (char*)0)
__CPROVER_ensures(g_fgets_ok == (__CPROVER_return_value == s))
__CPROVER_ensures(__CPROVER_return_value == s ==> (s[0] == g_md5file_line[0] && s[1] == g_md5file_line[1] && s[2] == g_md5file_line[2] && s[3] == g_md5file_line[3] && s[4] == g_md5file_line[4] && s[5] == g_md5file_line[5] && s[6] == g_md5file_line[6] && s[7] == g_md5file_line[7] && s[8] == g_md5file_line[8] && s[9] == g_md5file_line[9] && s[10] == g_md5file_line[10] && s[11] == g_md5file_line[11] && s[12] == g_md5file_line[12] && s[13] == g_md5file_line[13] && s[14] == g_md5file_line[14] && s[15] == g_md5file_line[15] && s[16] == g_md5file_line[16] && s[17] == g_md5file_line[17] && s[18] == g_md5file_line[18] && s[19] == g_md5file_line[19] && s[20] == g_md5file_line[20] && s[21] == g_md5file_line[21] && s[22] == g_md5file_line[22] && s[23] == g_md5file_line[23] && s[24] == g_md5file_line[24] && s[25] == g_md5file_line[25] && s[26] == g_md5file_line[26] && s[27] == g_md5file_line[27] && s[28] == g_md5file_line[28] && s[29] == g_md5file_line[29] && s[30] == g_md5file_line[30] && s[31] == g_md5file_line[31] && s[32] == g_md5file_line[32] && s[33] == g_md5file_line[33] && s[34] == g_md5file_line[34] && s[35] == g_md5file_line[35] && s[36] == g_md5file_line[36] && s[37] == g_md5file_line[37] && s[38] == g_md5file_line[38] && s[39] == g_md5file_line[39] && s[40] == g_md5file_line[40] && s[41] == g_md5file_line[41] && s[42] == g_md5file_line[42] && s[43] == g_md5file_line[43] && s[44] == g_md5file_line[44] && s[45] == g_md5file_line[45] && s[46] == g_md5file_line[46] && s[47] == g_md5file_line[47] && s[48] == g_md5file_line[48] && s[49] == g_md5file_line[49] && s[50] == g_md5file_line[50] && s[51] == g_md5file_line[51] && s[52] == g_md5file_line[52] && s[53] == g_md5file_line[53] && s[54] == g_md5file_line[54] && s[55] == g_md5file_line[55] && s[56] == g_md5file_line[56] && s[57] == g_md5file_line[57] && s[58] == g_md5file_line[58] && s[59] == g_md5file_line[59] && s[60] == g_md5file_line[60] && s[61] == g_md5file_line[61] && s[62] == g_md5file_line[62] && s[63] == g_md5file_line[63] && s[64] == g_md5file_line[64] && s[65] == g_md5file_line[65] && s[66] == g_md5file_line[66] && s[67] == g_md5file_line[67] && s[68] == g_md5file_line[68] && s[69] == g_md5file_line[69] && s[70] == g_md5file_line[70] && s[71] == g_md5file_line[71] && s[72] == g_md5file_line[72] && s[73] == g_md5file_line[73] && s[74] == g_md5file_line[74] && s[75] == g_md5file_line[75] && s[76] == g_md5file_line[76] && s[77] == g_md5file_line[77] && s[78] == g_md5file_line[78] && s[79] == g_md5file_line[79] && s[80] == g_md5file_line[80] && s[81] == g_md5file_line[81] && s[82] == g_md5file_line[82] && s[83] == g_md5file_line[83] && s[84] == g_md5file_line[84] && s[85] == g_md5file_line[85] && s[86] == g_md5file_line[86] && s[87] == g_md5file_line[87] && s[88] == g_md5file_line[88] && s[89] == g_md5file_line[89] && s[90] == g_md5file_line[90] && s[91] == g_md5file_line[91] && s[92] == g_md5file_line[92] && s[93] == g_md5file_line[93] && s[94] == g_md5file_line[94] && s[95] == g_md5file_line[95] && s[96] == g_md5file_line[96] && s[97] == g_md5file_line[97] && s[98] == g_md5file_line[98] && s[99] == g_md5file_line[99] && s[100] == g_md5file_line[100] && s[101] == g_md5file_line[101] && s[102] == g_md5file_line[102] && s[103] == g_md5file_line[103] && s[104] == g_md5file_line[104] && s[105] == g_md5file_line[105] && s[106] == g_md5file_line[106] && s[107] == g_md5file_line[107] && s[108] == g_md5file_line[108] && s[109] == g_md5file_line[109] && s[110] == g_md5file_line[110] && s[111] == g_md5file_line[111] && s[112] == g_md5file_line[112] && s[113] == g_md5file_line[113] && s[114] == g_md5file_line[114] && s[115] == g_md5file_line[115] && s[116] == g_md5file_line[116] && s[117] == g_md5file_line[117] && s[118] == g_md5file_line[118] && s[119] == g_md5file_line[119] && s[120] == g_md5file_line[120] && s[121] == g_md5file_line[121] && s[122] == g_md5file_line[122] && s[123] == g_md5file_line[123] && s[124] == g_md5file_line[124] && s[125] == g_md5file_line[125] && s[126] == g_md5file_line[126] && s[127] == g_md5file_line[127]))
;
_Bool g_bk_closed_ok;   /* ghost: fclose of the backup file succeeded (the buffered data reached the file) */
int fclose_contract(struct FILE *f)
__CPROVER_requires(f == &g_f_md5 || f == &g_f_bk)
__CPROVER_assigns(g_bk_closed, g_bk_closed_ok)
__CPROVER_ensures(f == &g_f_bk ==> (g_bk_closed && g_bk_closed_ok == (__CPROVER_return_value == 0)))
__CPROVER_ensures(f != &g_f_bk ==> (g_bk_closed == __CPROVER_old(g_bk_closed) && g_bk_closed_ok == __CPROVER_old(g_bk_closed_ok)))
;
size_t fwrite_contract(const void *ptr, size_t size, size_t nmemb, struct FILE *f)
__CPROVER_requires(f == &g_f_bk)
__CPROVER_assigns(g_bk_ptr, g_bk_len, g_fwrite_ret, g_bk_written)
__CPROVER_ensures(g_bk_ptr == ptr && g_bk_len == size * nmemb && g_fwrite_ret == __CPROVER_return_value && __CPROVER_return_value <= nmemb)
/* C standard 7.21.8.2: the return value is the number of elements successfully written (a short count on error) */
__CPROVER_ensures(g_bk_written == size * __CPROVER_return_value)
;
int memcmp_contract(const void *a, const void *b, size_t n)
__CPROVER_requires(n == 32 && __CPROVER_r_ok(a, 32) && __CPROVER_r_ok(b, 32))
__CPROVER_assigns()
__CPROVER_ensures((__CPROVER_return_value == 0) == (((const char*)a)[0] == ((const char*)b)[0] && ((const char*)a)[1] == ((const char*)b)[1] && ((const char*)a)[2] == ((const char*)b)[2] && ((const char*)a)[3] == ((const char*)b)[3] && ((const char*)a)[4] == ((const char*)b)[4] && ((const char*)a)[5] == ((const char*)b)[5] && ((const char*)a)[6] == ((const char*)b)[6] && ((const char*)a)[7] == ((const char*)b)[7] && ((const char*)a)[8] == ((const char*)b)[8] && ((const char*)a)[9] == ((const char*)b)[9] && ((const char*)a)[10] == ((const char*)b)[10] && ((const char*)a)[11] == ((const char*)b)[11] && ((const char*)a)[12] == ((const char*)b)[12] && ((const char*)a)[13] == ((const char*)b)[13] && ((const char*)a)[14] == ((const char*)b)[14] && ((const char*)a)[15] == ((const char*)b)[15] && ((const char*)a)[16] == ((const char*)b)[16] && ((const char*)a)[17] == ((const char*)b)[17] && ((const char*)a)[18] == ((const char*)b)[18] && ((const char*)a)[19] == ((const char*)b)[19] && ((const char*)a)[20] == ((const char*)b)[20] && ((const char*)a)[21] == ((const char*)b)[21] && ((const char*)a)[22] == ((const char*)b)[22] && ((const char*)a)[23] == ((const char*)b)[23] && ((const char*)a)[24] == ((const char*)b)[24] && ((const char*)a)[25] == ((const char*)b)[25] && ((const char*)a)[26] == ((const char*)b)[26] && ((const char*)a)[27] == ((const char*)b)[27] && ((const char*)a)[28] == ((const char*)b)[28] && ((const char*)a)[29] == ((const char*)b)[29] && ((const char*)a)[30] == ((const char*)b)[30] && ((const char*)a)[31] == ((const char*)b)[31]))
;
void exit_contract(int status)
__CPROVER_requires(status != 0)
__CPROVER_assigns(g_exit_status)
__CPROVER_ensures(0)
;

int backup_copy_file_contract(const char *filename, struct vector_UINT8 *data)
__CPROVER_requires(__CPROVER_is_fresh(filename, 1) && V8_FRESH(data) && V8_size(data) < (1UL << 32))
__CPROVER_requires(!g_bk_opened_for_write && !g_bk_closed && g_md5file_line[127] == 0)
/* The first line of the md5 file, if there is one, is ARBITRARY text (a foreign, truncated or corrupted file included): g_N is the
 * index of its first character that is not a hex digit (any value up to the end of the 128-byte line buffer). */
__CPROVER_requires(g_N >= 0 && g_N <= 127 && (g_N < 32 ==> !is_hex(g_md5file_line[g_N])) && !g_fgets_ok)
__CPROVER_requires((0 < g_N ==> is_hex(g_md5file_line[0])) && (1 < g_N ==> is_hex(g_md5file_line[1])) && (2 < g_N ==> is_hex(g_md5file_line[2])) && (3 < g_N ==> is_hex(g_md5file_line[3])) && (4 < g_N ==> is_hex(g_md5file_line[4])) && (5 < g_N ==> is_hex(g_md5file_line[5])) && (6 < g_N ==> is_hex(g_md5file_line[6])) && (7 < g_N ==> is_hex(g_md5file_line[7])) && (8 < g_N ==> is_hex(g_md5file_line[8])) && (9 < g_N ==> is_hex(g_md5file_line[9])) && (10 < g_N ==> is_hex(g_md5file_line[10])) && (11 < g_N ==> is_hex(g_md5file_line[11])) && (12 < g_N ==> is_hex(g_md5file_line[12])) && (13 < g_N ==> is_hex(g_md5file_line[13])) && (14 < g_N ==> is_hex(g_md5file_line[14])) && (15 < g_N ==> is_hex(g_md5file_line[15])) && (16 < g_N ==> is_hex(g_md5file_line[16])) && (17 < g_N ==> is_hex(g_md5file_line[17])) && (18 < g_N ==> is_hex(g_md5file_line[18])) && (19 < g_N ==> is_hex(g_md5file_line[19])) && (20 < g_N ==> is_hex(g_md5file_line[20])) && (21 < g_N ==> is_hex(g_md5file_line[21])) && (22 < g_N ==> is_hex(g_md5file_line[22])) && (23 < g_N ==> is_hex(g_md5file_line[23])) && (24 < g_N ==> is_hex(g_md5file_line[24])) && (25 < g_N ==> is_hex(g_md5file_line[25])) && (26 < g_N ==> is_hex(g_md5file_line[26])) && (27 < g_N ==> is_hex(g_md5file_line[27])) && (28 < g_N ==> is_hex(g_md5file_line[28])) && (29 < g_N ==> is_hex(g_md5file_line[29])) && (30 < g_N ==> is_hex(g_md5file_line[30])) && (31 < g_N ==> is_hex(g_md5file_line[31])))
__CPROVER_assigns(g_fgets_ok, g_newpath_kind, g_bk_opened_for_write, g_bk_closed, g_bk_closed_ok, g_bk_ptr, g_bk_len, g_fwrite_ret, g_bk_written, g_exit_status, errno)
/* md5 match => EX_OK and the backup is not touched */
__CPROVER_ensures(MD5_MATCH ==> (__CPROVER_return_value == EX_OK && !g_bk_opened_for_write))
/* mismatch (or no md5 file) => a normal return means the backup now holds exactly data */
__CPROVER_ensures(!MD5_MATCH ==> g_bk_opened_for_write)
__CPROVER_ensures((__CPROVER_return_value == EX_OK && g_bk_opened_for_write) ==>
                  (g_bk_closed && g_bk_closed_ok /* stdio hands buffered data to the file when the stream is closed: a failed fclose is an incomplete backup */ && g_bk_ptr == (const void*)V8_data(data) && g_bk_len == V8_size(data) && (g_bk_written == V8_size(data) || V8_size(data) == 0)))
__CPROVER_ensures(__CPROVER_return_value == EX_OK)
;

/* ---- backup_create_md5_file (C14-K2): "the accompanying md5 file always describes the content uncrustify last left in the file" ----
 * the md5 file, when it is written, holds the digest of the WHOLE file: every byte was read and fed to the digest, in order. */
extern size_t g_src_len, g_src_pos, g_fed, g_last_n;
extern _Bool g_fed_in_order, g_src_error, g_digest_is_whole, g_md5file_written;
extern unsigned char g_written_dig[16];
extern const void *g_last_buf;
extern struct FILE g_f_src;
#ifdef MD5FILE_PROOF
struct FILE *fopen_md5_contract(const char *path, const char *mode)
__CPROVER_requires(mode[0] == 'r' || (mode[0] == 'w' && g_newpath_kind == 1))
__CPROVER_assigns()
__CPROVER_ensures(mode[0] == 'r' ==> (__CPROVER_return_value == &g_f_src || __CPROVER_return_value == (struct FILE*)0))
__CPROVER_ensures(mode[0] == 'w' ==> (__CPROVER_return_value == &g_f_md5 || __CPROVER_return_value == (struct FILE*)0))
;
/* C standard 7.21.8.1: fread returns the number of elements read, which is less than nmemb only at end of file or on a read error */
size_t fread_contract(void *ptr, size_t size, size_t nmemb, struct FILE *f)
__CPROVER_requires(f == &g_f_src && size == 1 && nmemb >= 1 && __CPROVER_w_ok(ptr, nmemb) && g_src_pos <= g_src_len)
__CPROVER_assigns(g_src_pos, g_src_error, g_last_buf, g_last_n, __CPROVER_object_upto(ptr, nmemb))
__CPROVER_ensures(__CPROVER_return_value <= nmemb && g_src_pos == __CPROVER_old(g_src_pos) + __CPROVER_return_value && g_src_pos <= g_src_len)
__CPROVER_ensures(g_last_buf == ptr && g_last_n == __CPROVER_return_value)
__CPROVER_ensures(__CPROVER_old(g_src_error) ==> g_src_error)
__CPROVER_ensures((__CPROVER_return_value < nmemb && !g_src_error) ==> g_src_pos == g_src_len)
#ifdef NO_READ_FAULT
__CPROVER_ensures(!g_src_error)
#endif
;
/* the error indicator of the stream: set exactly when a read failed */
int ferror_src_contract(struct FILE *f)
__CPROVER_requires(f == &g_f_src)
__CPROVER_assigns()
__CPROVER_ensures((__CPROVER_return_value != 0) == g_src_error)
;
void md5_update_contract(const void *data, unsigned len)
__CPROVER_assigns(g_fed, g_fed_in_order)
__CPROVER_ensures(g_fed == __CPROVER_old(g_fed) + len)
__CPROVER_ensures(g_fed_in_order == (__CPROVER_old(g_fed_in_order) && data == g_last_buf && len == g_last_n && __CPROVER_old(g_fed) + len == g_src_pos))
;
void md5_final_contract(unsigned char *digest)
__CPROVER_requires(__CPROVER_w_ok(digest, 16))
__CPROVER_assigns(g_digest_is_whole, __CPROVER_object_upto(digest, 16))
__CPROVER_ensures(g_digest_is_whole == (g_fed_in_order && g_fed == g_src_len))
/* the digest of the whole content is g_md5; the digest of anything else is arbitrary */
__CPROVER_ensures(g_digest_is_whole ==> (digest[0] == g_md5[0] && digest[1] == g_md5[1] && digest[2] == g_md5[2] && digest[3] == g_md5[3] && digest[4] == g_md5[4] && digest[5] == g_md5[5] && digest[6] == g_md5[6] && digest[7] == g_md5[7]
                                        && digest[8] == g_md5[8] && digest[9] == g_md5[9] && digest[10] == g_md5[10] && digest[11] == g_md5[11] && digest[12] == g_md5[12] && digest[13] == g_md5[13] && digest[14] == g_md5[14] && digest[15] == g_md5[15]))
;
void write_md5_line_contract(struct FILE *f, unsigned d0, unsigned d1, unsigned d2, unsigned d3, unsigned d4, unsigned d5, unsigned d6, unsigned d7,
                             unsigned d8, unsigned d9, unsigned d10, unsigned d11, unsigned d12, unsigned d13, unsigned d14, unsigned d15)
__CPROVER_requires(f == &g_f_md5)
__CPROVER_assigns(g_md5file_written, __CPROVER_object_whole(g_written_dig))
__CPROVER_ensures(g_md5file_written && g_written_dig[0] == d0 && g_written_dig[1] == d1 && g_written_dig[2] == d2 && g_written_dig[3] == d3 && g_written_dig[4] == d4 && g_written_dig[5] == d5 && g_written_dig[6] == d6 && g_written_dig[7] == d7
                  && g_written_dig[8] == d8 && g_written_dig[9] == d9 && g_written_dig[10] == d10 && g_written_dig[11] == d11 && g_written_dig[12] == d12 && g_written_dig[13] == d13 && g_written_dig[14] == d14 && g_written_dig[15] == d15)
;
int fclose_md5_contract(struct FILE *f) __CPROVER_requires(f == &g_f_src || f == &g_f_md5) __CPROVER_assigns() __CPROVER_ensures(1) ;
void backup_create_md5_file_contract(const char *filename)
__CPROVER_requires(__CPROVER_is_fresh(filename, 1) && g_src_pos == 0 && g_src_len < (1UL << 40) && !g_src_error && !g_md5file_written)
__CPROVER_assigns(g_src_pos, g_src_error, g_last_buf, g_last_n, g_fed, g_fed_in_order, g_digest_is_whole, g_md5file_written, __CPROVER_object_whole(g_written_dig), g_newpath_kind, g_exit_status, errno)
/* whatever reaches the md5 file is the digest of the whole file */
__CPROVER_ensures(g_md5file_written ==> (g_digest_is_whole && g_written_dig[0] == g_md5[0] && g_written_dig[1] == g_md5[1] && g_written_dig[2] == g_md5[2] && g_written_dig[3] == g_md5[3] && g_written_dig[4] == g_md5[4]
                                          && g_written_dig[5] == g_md5[5] && g_written_dig[6] == g_md5[6] && g_written_dig[7] == g_md5[7] && g_written_dig[8] == g_md5[8] && g_written_dig[9] == g_md5[9] && g_written_dig[10] == g_md5[10]
                                          && g_written_dig[11] == g_md5[11] && g_written_dig[12] == g_md5[12] && g_written_dig[13] == g_md5[13] && g_written_dig[14] == g_md5[14] && g_written_dig[15] == g_md5[15]))
;
#endif
