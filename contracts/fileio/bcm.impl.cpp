// Translation unit for bout_content_matches() (C12-K1), sliced verbatim from src/uncrustify.cpp.
#include "token_enum.h"      /* from the working tree: -I <repo>/src */
#define VERIF_E_TOKEN
#include "base.h"
#include "containers.h"
#include "fs.h"
#include "unctext.h"
#include "cpd.h"
#include "file_mem.h"
#include "logger.h"
using namespace std;
extern "C" {
// report channel: fprintf(stderr, "FAIL…") / fprintf(stdout, "PASS…") are recorded as counts per stream
FILE g_stderr_obj;
FILE *stderr = &g_stderr_obj;
int g_stdout_lines, g_stderr_lines;
void verif_fprintf(FILE *f) { if (f == stdout) { g_stdout_lines++; } else if (f == stderr) { g_stderr_lines++; } else { VASSERT(0, "fprintf to an unexpected stream"); } }
}
#define fprintf(stream, ...) verif_fprintf(stream)
#undef log_flush
#define log_flush(x) ((void)0)
extern "C" {
//@slice src/uncrustify.cpp fn bout_content_matches
}
#include "offsets_cpp.h"
#define CANARY(msg) __CPROVER_assert(0, "VACUITY_CANARY " msg)
extern "C" {
void h_bout_content_matches()
{
   file_mem fm;
   bool r = bout_content_matches(fm, nondet_bool(), nondet_bool());
   if (r) { CANARY("bout_content_matches true"); } else { CANARY("bout_content_matches false"); }
}
}
