// Translation unit for backup_copy_file() (C14-K1, C13-K1c), sliced verbatim from src/backup.cpp, over a ghost file
// system with two slots (the md5 file, the backup file).  MD5::Calc is an arbitrary but fixed digest (g_md5[16]);
// snprintf is modelled exactly for the two format strings used; libc calls are replaced by contracts.
#include "base.h"
#include "containers.h"
#include "sink.h"
#define EX_OK        0
#define EX_SOFTWARE 70
#define EX_IOERR    74
#define LOG_FMT(sev, ...) ((void)0)
#define UNC_BACKUP_SUFFIX        ".unc-backup~"
#define UNC_BACKUP_MD5_SUFFIX    ".unc-backup.md5~"
extern "C" {
unsigned char g_md5[16];          // ghost: md5(data) -- any 16 bytes
char g_md5file_line[128];         // ghost: first line of the md5 file, if it exists
bool g_md5file_exists;
int  g_newpath_kind;              // ghost: what newpath currently names: 1 = <file>.unc-backup.md5~, 2 = <file>.unc-backup~
FILE g_f_md5, g_f_bk;
bool g_bk_opened_for_write, g_bk_closed;
const void *g_bk_ptr; size_t g_bk_len; size_t g_fwrite_ret;
int errno;
int g_exit_status;
extern int g_N;   // defined in the contract file (ghost)
// libc, "C" locale
int isxdigit(int c) { return (c >= '0' && c <= '9') || (c >= 'a' && c <= 'f') || (c >= 'A' && c <= 'F'); }
int tolower(int c) { return (c >= 'A' && c <= 'Z') ? c + 32 : c; }
const char *strerror(int) { return ""; }
// libc strncmp, real semantics (not used on the pinned tree; part of the libc model so that code using it is decided, not refused)
int verif_strncmp(const char *a, const char *b, size_t n) { for (size_t k = 0; k < n; k++) { if (a[k] != b[k]) { return((unsigned char)a[k] < (unsigned char)b[k] ? -1 : 1); } if (a[k] == 0) { return(0); } } return(0); }
#define strncmp verif_strncmp
//@slice src/unc_ctype.cpp fn unc_fix_ctype
//@slice src/unc_ctype.cpp fn unc_tolower
//@slice src/unc_ctype.cpp fn unc_isxdigit
static char hexd(unsigned v) { return (char)(v < 10 ? '0' + v : 'a' + (v - 10)); }
// snprintf(md5_str, 34, "%02x" x16 "\n", dig[0..15])
void verif_snprintf_hex16(char *buf, size_t n, const char *fmt, unsigned d0, unsigned d1, unsigned d2, unsigned d3, unsigned d4, unsigned d5, unsigned d6, unsigned d7,
                          unsigned d8, unsigned d9, unsigned d10, unsigned d11, unsigned d12, unsigned d13, unsigned d14, unsigned d15)
{
   VASSERT(n >= 34, "snprintf: destination holds 32 hex digits, newline and NUL");
#define HX(i, d) buf[2 * (i)] = hexd(((d) >> 4) & 15); buf[2 * (i) + 1] = hexd((d) & 15);
   HX(0, d0) HX(1, d1) HX(2, d2) HX(3, d3) HX(4, d4) HX(5, d5) HX(6, d6) HX(7, d7) HX(8, d8) HX(9, d9) HX(10, d10) HX(11, d11) HX(12, d12) HX(13, d13) HX(14, d14) HX(15, d15)
   buf[32] = '\n'; buf[33] = 0;
}
// snprintf(newpath, 1024, "%s%s", filename, SUFFIX): only the identity of the composed path matters
void verif_snprintf_path(char *buf, size_t n, const char *fmt, const char *name, const char *suffix)
{
   g_newpath_kind = (suffix[11] == '.') ? 1 : 2;    // ".unc-backup.md5~" vs ".unc-backup~"
}
void MD5_Calc(const void *data, unsigned length, UINT8 *digest)
{
   digest[0] = g_md5[0]; digest[1] = g_md5[1]; digest[2] = g_md5[2]; digest[3] = g_md5[3]; digest[4] = g_md5[4]; digest[5] = g_md5[5]; digest[6] = g_md5[6]; digest[7] = g_md5[7];
   digest[8] = g_md5[8]; digest[9] = g_md5[9]; digest[10] = g_md5[10]; digest[11] = g_md5[11]; digest[12] = g_md5[12]; digest[13] = g_md5[13]; digest[14] = g_md5[14]; digest[15] = g_md5[15];
}
// ---- environment of backup_create_md5_file(): the file being digested is a ghost byte sequence of length g_src_len; fread hands
// out consecutive chunks of it (ghost cursor g_src_pos), md5.Update() must be fed exactly those chunks, in order ----
size_t g_src_len, g_src_pos;        // ghost: size of the file / read cursor
size_t g_fed;                       // ghost: number of bytes handed to MD5::Update so far (all in order <=> g_fed == cursor at each call)
bool   g_fed_in_order, g_src_error; // ghost: every Update got exactly the chunk just read; a read error happened
bool   g_digest_is_whole;           // ghost: Final() was called after the whole file had been fed
bool   g_md5file_written; unsigned char g_written_dig[16];
const void *g_last_buf; size_t g_last_n;
FILE g_f_src;
size_t fread(void *ptr, size_t size, size_t nmemb, FILE *f) { return 0; }
int ferror(FILE *f) { return 0; }                                                           // replaced by ferror_src_contract                 // replaced by fread_contract
void c_md5_update(const void *data, unsigned len) { }                                      // replaced by md5_update_contract
void c_md5_final(UINT8 *digest) { }                                                        // replaced by md5_final_contract
void c_write_md5_line(FILE *f, unsigned d0, unsigned d1, unsigned d2, unsigned d3, unsigned d4, unsigned d5, unsigned d6, unsigned d7,
                      unsigned d8, unsigned d9, unsigned d10, unsigned d11, unsigned d12, unsigned d13, unsigned d14, unsigned d15) { }   // replaced by write_md5_line_contract
const char *path_basename(const char *path) { return path; }
// replaced by contracts
FILE *fopen(const char *path, const char *mode) { return 0; }
char *fgets(char *s, int size, FILE *f) { return 0; }
int fclose(FILE *f) { return 0; }
size_t fwrite(const void *ptr, size_t size, size_t nmemb, FILE *f) { return 0; }
int memcmp(const void *a, const void *b, size_t n) { return 0; }
void exit(int status) { }
}
struct MD5
{
   static void Calc(const void *data, unsigned length, UINT8 *digest) { MD5_Calc(data, length, digest); }
   void Init() { g_fed = 0; g_fed_in_order = true; }
   void Update(const void *data, UINT32 len) { c_md5_update(data, len); }
   void Final(UINT8 digest[16]) { c_md5_final(digest); }
};
// fprintf(thefile, "%02x" x16 "  %s\n", dig[0..15], basename): the 16 digest bytes reach the md5 file
#define fprintf(f, fmt, d0, d1, d2, d3, d4, d5, d6, d7, d8, d9, d10, d11, d12, d13, d14, d15, name) c_write_md5_line(f, d0, d1, d2, d3, d4, d5, d6, d7, d8, d9, d10, d11, d12, d13, d14, d15)
#define VSN_PICK(_1, _2, _3, _4, _5, _6, _7, _8, _9, _10, _11, _12, _13, _14, _15, _16, _17, _18, _19, NAME, ...) NAME
#define snprintf(...) VSN_PICK(__VA_ARGS__, verif_snprintf_hex16, x, x, x, x, x, x, x, x, x, x, x, x, x, verif_snprintf_path, x, x, x, x)(__VA_ARGS__)
using namespace std;
extern "C" {
//@slice src/backup.cpp fn backup_copy_file
//@slice src/backup.cpp fn backup_create_md5_file
}
#include "offsets_cpp.h"
#define CANARY(msg) __CPROVER_assert(0, "VACUITY_CANARY " msg)
extern "C" {
void h_backup_create_md5_file()
{
   const char *fn;
   backup_create_md5_file(fn);
   if (g_md5file_written) { CANARY("backup_create_md5_file: md5 file written"); }
   if (g_src_pos > 8192) { CANARY("backup_create_md5_file: several chunks read"); }
}
void h_backup_copy_file()
{
   const char *fn; vector_UINT8 d;
   int r = backup_copy_file(fn, d);
   if (r == EX_OK && !g_bk_opened_for_write) { CANARY("backup_copy_file: md5 match, backup skipped"); }
   if (r == EX_OK && g_bk_opened_for_write) { CANARY("backup_copy_file: backup written"); }
}
}
