// Translation unit for do_source_file() (C12-K4, C13-K1, C14-K3): the real function, with every file-system
// call and every helper replaced by a contract over the ghost typestate of env/fs.h.
#include "token_enum.h"      /* from the working tree: -I <repo>/src */
#define VERIF_E_TOKEN
#include "base.h"
#include "containers.h"
#include "fs.h"
#include "unctext.h"
#include "cpd.h"
#include "logger.h"
using namespace std;
#include "file_mem.h"
extern "C" {
size_t forced_lang_flags;   // file-static of src/uncrustify.cpp (language given with -l)
// helpers and libc: bodies never used, every one is replaced by its contract
size_t language_flags_from_filename(const char *filename) { return nondet_size_t(); }
const char *language_name_from_flags(size_t lang) { return ""; }
bool keywords_are_sorted() { return true; }
void init_keywords_for_language() { }
int load_mem_file(const char *filename, file_mem &fm) { return nondet_int(); }
void uncrustify_file(const file_mem &fm, FILE *pfout, const char *parsed_file, const char *dump_filename, bool is_quiet, bool defer_uncrustify_end) { }
void uncrustify_end() { }
bool bout_content_matches(const file_mem &fm, bool report_status, bool is_quiet) { return nondet_bool(); }
int backup_copy_file(const char *filename, const vector_UINT8 &data) { return nondet_int(); }
void backup_create_md5_file(const char *filename) { }
void make_folders_c(const char *path) { }
bool file_content_matches_c(const char *a, const char *b) { return nondet_bool(); }
FILE *fopen(const char *path, const char *mode) { return 0; }
int fclose(FILE *f) { return nondet_int(); }
int ferror(FILE *f) { return nondet_int(); }
int fflush(FILE *f) { return nondet_int(); }
int fileno(FILE *f) { return nondet_int(); }
int fsync(int fd) { return nondet_int(); }
int rename(const char *a, const char *b) { return nondet_int(); }
int unlink(const char *a) { return nondet_int(); }
int utime(const char *a, struct utimbuf *b) { return nondet_int(); }
void exit(int status) { }
}
// std::string-taking helpers: adapters onto the C-typed functions above (a contract in C cannot name std::string)
static void make_folders(const string &filename) { make_folders_c(filename.c_str()); }
static bool file_content_matches(const string &a, const string &b) { return file_content_matches_c(a.c_str(), b.c_str()); }
static void uncrustify_file(const file_mem &fm, FILE *pfout, const char *parsed_file, const char *dump_filename, bool is_quiet) { uncrustify_file(fm, pfout, parsed_file, dump_filename, is_quiet, false); }
#define HAVE_UTIME_H 1
extern "C" {
//@slice src/uncrustify.cpp fn do_source_file
}
#include "offsets_cpp.h"
extern "C" { extern const unsigned long SIZEOF_std_string = sizeof(std::string); }
#define CANARY(msg) __CPROVER_assert(0, "VACUITY_CANARY " msg)
extern "C" {
void h_do_source_file()
{
   const char *in, *out, *pf, *df;   // unconstrained; the contract's requires clause describes them
   do_source_file(in, out, pf, df, nondet_bool(), nondet_bool(), nondet_bool());
   if (g_renamed) { CANARY("do_source_file in-place rename path"); }
   if (cpd.do_check) { CANARY("do_source_file --check path"); }
   if (cpd.if_changed && g_fs_writes == 0) { CANARY("do_source_file --if-changed unchanged path"); }
   if (g_md5_written) { CANARY("do_source_file md5 written"); }
}
}
