/* Contract for bout_content_matches() (C12-K1): true <=> the captured output equals the raw input byte for byte;
 * with report_status exactly one PASS (stdout, unless quiet) or FAIL (stderr) line, consistent with the result. */
#include "common.h"
struct FILE;
extern struct FILE g_stdout_obj, g_stderr_obj;
extern struct FILE *stdout, *stderr;
extern int g_stdout_lines, g_stderr_lines;
size_t g_J;
#define RAW(fm) file_mem_raw(fm)
_Bool bout_content_matches_contract(struct file_mem *fm, _Bool report_status, _Bool is_quiet)
__CPROVER_requires(__CPROVER_is_fresh(fm, SIZEOF_file_mem) && V8_FRESH_IN(RAW(fm)) && D8_FRESH(CPD(bout)))
/* the loop index is an int: files below 2 GiB */
__CPROVER_requires(V8_size(RAW(fm)) < (1UL << 31) && D8_size(CPD(bout)) < (1UL << 31))
__CPROVER_requires(stdout == &g_stdout_obj && stderr == &g_stderr_obj && g_stdout_lines == 0 && g_stderr_lines == 0)
__CPROVER_assigns(g_stdout_lines, g_stderr_lines)
/* true => same size and (arbitrary index) same byte */
__CPROVER_ensures(__CPROVER_return_value ==> (D8_size(CPD(bout)) == V8_size(RAW(fm)) && (g_J < V8_size(RAW(fm)) ==> D8_data(CPD(bout))[g_J] == V8_data(RAW(fm))[g_J])))
/* a differing size or a differing byte (arbitrary index) => false */
__CPROVER_ensures(D8_size(CPD(bout)) != V8_size(RAW(fm)) ==> !__CPROVER_return_value)
__CPROVER_ensures((D8_size(CPD(bout)) == V8_size(RAW(fm)) && g_J < V8_size(RAW(fm)) && D8_data(CPD(bout))[g_J] != V8_data(RAW(fm))[g_J]) ==> !__CPROVER_return_value)
/* reporting */
__CPROVER_ensures(!report_status ==> (g_stdout_lines == 0 && g_stderr_lines == 0))
__CPROVER_ensures((report_status && __CPROVER_return_value) ==> (g_stderr_lines == 0 && g_stdout_lines == (is_quiet ? 0 : 1)))
__CPROVER_ensures((report_status && !__CPROVER_return_value) ==> (g_stderr_lines == 1 && g_stdout_lines == 0))
;
