/* Contracts for do_source_file() of src/uncrustify.cpp and for its environment (C12-K4, C13-K1, C14-K3).
 *
 * The environment contracts below are ASSUMED (they are the model of libc and of the unverified helpers): every
 * call may fail; the ghost typestate records what has happened to the in-place target and its temporary file.
 * The obligations of properties C13/C14/C12 are the *preconditions* of rename(), backup_create_md5_file(), fopen()
 * and the postcondition of do_source_file(). */
#include "common.h"
struct FILE;
struct file_mem;
extern const char *g_p_in, *g_p_out;
extern _Bool g_same_in_out;
extern char g_tmp_path[1], g_other_path[1];
extern struct FILE g_file_tmp, g_file_out, g_stdout_obj;
extern struct FILE *stdout;
extern int g_fs_writes, g_exit_status;
extern _Bool g_target_opened_for_write, g_tmp_open, g_tmp_closed, g_tmp_closed_ok, g_tmp_write_error, g_backup_done_ok,
             g_target_is_final, g_renamed, g_md5_written, g_failure_seen;
#define EX_OK 0
extern const unsigned long SIZEOF_std_string;
extern size_t forced_lang_flags;
#define INPLACE g_same_in_out

/* ---------- environment (assumed) ---------- */
size_t language_flags_from_filename_contract(const char *filename) __CPROVER_requires(1) __CPROVER_assigns() __CPROVER_ensures(1) ;
const char *language_name_from_flags_contract(size_t lang) __CPROVER_requires(1) __CPROVER_assigns() __CPROVER_ensures(1) ;
_Bool keywords_are_sorted_contract(void) __CPROVER_requires(1) __CPROVER_assigns() __CPROVER_ensures(__CPROVER_return_value == 1) ;
/* C11: the per-language keyword table is rebuilt for the language of THIS file (ghost: language it was built for) */
size_t g_kw_lang;
void init_keywords_for_language_contract(void) __CPROVER_requires(1) __CPROVER_assigns(g_kw_lang) __CPROVER_ensures(g_kw_lang == CPD(lang_flags)) ;
int load_mem_file_contract(const char *filename, struct file_mem *fm)
__CPROVER_assigns(g_failure_seen)
__CPROVER_ensures(g_failure_seen == (__CPROVER_old(g_failure_seen) || __CPROVER_return_value < 0))
;
/* formatting: writes to pfout if given; may detect a write error on the stream; a formatting failure exits
 * (modelled by exit_contract being reachable from here: the run simply does not continue) */
void uncrustify_file_contract(struct file_mem *fm, struct FILE *pfout, const char *parsed_file, const char *dump_filename, _Bool is_quiet, _Bool defer)
__CPROVER_requires(pfout == (struct FILE*)0 || pfout == &g_stdout_obj || (pfout == &g_file_tmp && g_tmp_open && !g_tmp_closed) || pfout == &g_file_out)
/* C11: a file is tokenized with the keyword table of its own language, whatever table an earlier file of the invocation left behind */
__CPROVER_requires(g_kw_lang == CPD(lang_flags))
__CPROVER_assigns(g_tmp_write_error)
__CPROVER_ensures(pfout != &g_file_tmp ==> g_tmp_write_error == __CPROVER_old(g_tmp_write_error))
;
void uncrustify_end_contract(void) __CPROVER_requires(1) __CPROVER_assigns() __CPROVER_ensures(1) ;
_Bool g_matches;   /* ghost: last result of bout_content_matches */
_Bool g_no_backup; /* ghost: the no_backup argument of this call of do_source_file */
_Bool bout_content_matches_contract(struct file_mem *fm, _Bool report_status, _Bool is_quiet)
__CPROVER_assigns(g_matches)
__CPROVER_ensures(g_matches == __CPROVER_return_value)
;
/* backup: EX_OK means a backup holding the original bytes exists (proved separately on backup_copy_file) */
int backup_copy_file_contract(const char *filename, struct vector_UINT8 *data)
__CPROVER_requires(filename == g_p_in)
__CPROVER_assigns(g_fs_writes, g_backup_done_ok, g_failure_seen)
__CPROVER_ensures(g_fs_writes == __CPROVER_old(g_fs_writes) + 1)
__CPROVER_ensures(g_backup_done_ok == (__CPROVER_return_value == EX_OK))
__CPROVER_ensures(g_failure_seen == (__CPROVER_old(g_failure_seen) || __CPROVER_return_value != EX_OK))
;
/* C14-K3: the md5 must describe what uncrustify left in the file, so it may only be taken once the target is final */
void backup_create_md5_file_contract(const char *filename)
__CPROVER_requires(filename == g_p_in && INPLACE)
__CPROVER_requires(g_target_is_final)
/* C14 (one step of the protocol invariant "md5 file == md5(file)  =>  the backup holds the last text uncrustify did not write"):
 * recording the md5 declares the file's content to be uncrustify's own; that is only sound if THIS run made sure the
 * content it started from is in the backup (backup_copy_file returned EX_OK: copied, or legitimately skipped) */
__CPROVER_requires(g_backup_done_ok)
__CPROVER_assigns(g_fs_writes, g_md5_written)
__CPROVER_ensures(g_md5_written && g_fs_writes == __CPROVER_old(g_fs_writes) + 1)
;
void make_folders_c_contract(const char *path)
__CPROVER_assigns(g_fs_writes)
__CPROVER_ensures(g_fs_writes == __CPROVER_old(g_fs_writes) + 1)
;
_Bool file_content_matches_c_contract(const char *a, const char *b) __CPROVER_requires(1) __CPROVER_assigns() __CPROVER_ensures(1) ;
/* C13-K1a: in the in-place case the only file ever opened for writing is the temporary one */
struct FILE *fopen_contract(const char *path, const char *mode)
__CPROVER_requires(mode[0] == 'w')
__CPROVER_requires(INPLACE ==> path == g_tmp_path)
__CPROVER_requires(!INPLACE ==> path == g_p_out)
/* C13-K1c: unless no_backup, the backup exists before the output is produced (ghost g_need_backup set by harness) */
__CPROVER_assigns(g_fs_writes, g_tmp_open, g_failure_seen)
__CPROVER_ensures(g_fs_writes == __CPROVER_old(g_fs_writes) + 1)
__CPROVER_ensures(__CPROVER_return_value == (struct FILE*)0 || __CPROVER_return_value == (INPLACE ? &g_file_tmp : &g_file_out))
__CPROVER_ensures(g_tmp_open == (__CPROVER_old(g_tmp_open) || (INPLACE && __CPROVER_return_value != (struct FILE*)0)))
__CPROVER_ensures(g_failure_seen == (__CPROVER_old(g_failure_seen) || __CPROVER_return_value == (struct FILE*)0))
;
int fputc_contract(int c, struct FILE *f)
__CPROVER_requires(f == &g_stdout_obj || (f == &g_file_tmp && g_tmp_open && !g_tmp_closed) || f == &g_file_out)
__CPROVER_assigns(g_tmp_write_error)
;
int ferror_contract(struct FILE *f)
__CPROVER_requires(f == &g_file_tmp || f == &g_file_out)
__CPROVER_assigns()
/* a write error recorded on the stream is reported */
__CPROVER_ensures((f == &g_file_tmp && g_tmp_write_error) ==> __CPROVER_return_value != 0)
;
/* fflush / fsync (not called on the pinned tree; part of the libc model so that code using them is decided, not refused):
 * they report a failure of THIS flush only (C standard 7.21.5.2) - an earlier failed write stays recorded on the stream
 * (g_tmp_write_error) and is reported by ferror / makes the file incomplete whatever fflush returns */
int fflush_contract(struct FILE *f)
__CPROVER_requires(f == &g_file_tmp || f == &g_file_out || f == &g_stdout_obj)
__CPROVER_assigns(g_tmp_write_error)
__CPROVER_ensures(__CPROVER_old(g_tmp_write_error) ==> g_tmp_write_error)
__CPROVER_ensures((f == &g_file_tmp && __CPROVER_return_value != 0) ==> g_tmp_write_error)
;
int fileno_contract(struct FILE *f) __CPROVER_requires(1) __CPROVER_assigns() __CPROVER_ensures(1) ;
int fsync_contract(int fd)
__CPROVER_assigns(g_tmp_write_error)
__CPROVER_ensures(__CPROVER_old(g_tmp_write_error) ==> g_tmp_write_error)
__CPROVER_ensures(__CPROVER_return_value != 0 ==> g_tmp_write_error)
;
int fclose_contract(struct FILE *f)
__CPROVER_requires(f == &g_file_tmp || f == &g_file_out)
__CPROVER_assigns(g_tmp_closed, g_tmp_closed_ok, g_failure_seen)
__CPROVER_ensures(f == &g_file_tmp ==> g_tmp_closed)
/* the temporary file is complete only if no earlier write failed and the final flush in fclose succeeded
 * (a failing flush makes fclose return EOF) */
__CPROVER_ensures(f == &g_file_tmp ==> (g_tmp_closed_ok == (__CPROVER_return_value == 0 && !g_tmp_write_error)))
__CPROVER_ensures(g_failure_seen == (__CPROVER_old(g_failure_seen) || __CPROVER_return_value != 0 || (f == &g_file_tmp && g_tmp_write_error)))
;
/* C13-K1b: the temporary file replaces the target only after it was closed successfully */
int rename_contract(const char *from, const char *to)
__CPROVER_requires(from == g_tmp_path && to == g_p_out && INPLACE)
__CPROVER_requires(g_tmp_closed && g_tmp_closed_ok)
/* C13-K1c: unless backups are switched off, the original bytes are safe in the backup BEFORE the path is replaced (a failure or a kill in a later
 * backup step would otherwise leave the formatted text in the file and the original nowhere) */
__CPROVER_requires(g_no_backup || g_backup_done_ok)
__CPROVER_assigns(g_fs_writes, g_renamed, g_target_is_final, g_failure_seen)
__CPROVER_ensures(g_fs_writes == __CPROVER_old(g_fs_writes) + 1)
__CPROVER_ensures(g_renamed == (__CPROVER_return_value == 0) && g_target_is_final == (__CPROVER_old(g_target_is_final) || __CPROVER_return_value == 0))
__CPROVER_ensures(g_failure_seen == (__CPROVER_old(g_failure_seen) || __CPROVER_return_value != 0))
;
/* removing the temporary file. After a successful close this is the "no change" case: the temporary file was
 * found equal to the target, which therefore already holds the formatted bytes */
int unlink_contract(const char *path)
__CPROVER_requires(path == g_tmp_path && INPLACE && g_tmp_closed)
__CPROVER_assigns(g_fs_writes, g_target_is_final)
__CPROVER_ensures(g_fs_writes == __CPROVER_old(g_fs_writes) + 1)
__CPROVER_ensures(g_target_is_final == (__CPROVER_old(g_target_is_final) || g_tmp_closed_ok))
;
struct utimbuf;
int utime_contract(const char *path, struct utimbuf *buf)
__CPROVER_assigns(g_fs_writes)
__CPROVER_ensures(g_fs_writes == __CPROVER_old(g_fs_writes) + 1)
;
/* exit never returns; C13-K1d: an exit is always with a non-zero status here */
void exit_contract(int status)
__CPROVER_requires(status != 0)
__CPROVER_assigns(g_exit_status)
__CPROVER_ensures(0)
;

/* ---------- do_source_file ---------- */
void do_source_file_contract(const char *filename_in, const char *filename_out, const char *parsed_file, const char *dump_file,
                             _Bool no_backup, _Bool keep_mtime, _Bool is_quiet)
/* call sites (main, process_source_list): --check excludes every output option and --if-changed */
__CPROVER_requires(__CPROVER_is_fresh(filename_in, 1) && (filename_out == (const char*)0 || filename_out == filename_in || __CPROVER_is_fresh(filename_out, 1)))
__CPROVER_requires(g_p_in == filename_in && g_p_out == filename_out && (filename_out == filename_in ==> g_same_in_out) && (filename_out == (const char*)0 ==> !g_same_in_out))
__CPROVER_requires(stdout == &g_stdout_obj && !g_no_backup == !no_backup)
__CPROVER_requires(!(CPD(do_check) && CPD(if_changed)))
__CPROVER_requires((CPD(do_check) || CPD(if_changed)) ==> D8_FRESH(CPD(bout)))
__CPROVER_requires(g_fs_writes == 0 && !g_target_opened_for_write && !g_tmp_open && !g_tmp_closed && !g_tmp_closed_ok && !g_tmp_write_error
                   && !g_backup_done_ok && !g_target_is_final && !g_renamed && !g_md5_written && !g_failure_seen)
__CPROVER_assigns(CPD(lang_flags), g_kw_lang, g_fs_writes, g_target_opened_for_write, g_tmp_open, g_tmp_closed, g_tmp_closed_ok, g_tmp_write_error,
                  g_backup_done_ok, g_target_is_final, g_renamed, g_md5_written, g_failure_seen, g_exit_status, g_matches,
                  __CPROVER_object_upto(CPD(filename), SIZEOF_std_string))
/* C11-K2: with -l the language of every file is the forced one, whatever an earlier file left in cpd.lang_flags */
__CPROVER_ensures((CPD(lang_forced) && __CPROVER_old(CPD(lang_flags)) != 0) ==> CPD(lang_flags) == forced_lang_flags)
/* C12-K4: --check touches nothing; --if-changed touches nothing when nothing changed (it returns early) */
__CPROVER_ensures(CPD(do_check) ==> g_fs_writes == 0)
__CPROVER_ensures((CPD(if_changed) && g_matches) ==> g_fs_writes == 0)
/* C13-K1d: a normal return means no failure was seen */
__CPROVER_ensures(!g_failure_seen)
/* C13-K1c: in place and with backups on, the target is replaced only if the backup was made */
__CPROVER_ensures((g_renamed && !no_backup) ==> g_backup_done_ok)
/* C14: after an in-place run with backups the md5 was recorded (and, by backup_create_md5_file's precondition, of the final content) */
__CPROVER_ensures((INPLACE && !no_backup && !CPD(do_check) && g_target_is_final) ==> g_md5_written)
;
