"""Proofs over the writer kernel of src/output.cpp, shared by C03, C07, C08, C17, C02."""
import os
import sys
sys.path.insert(0, os.path.join(os.path.dirname(os.path.abspath(__file__)), '..', '..', 'tools'))
from prover import Proof  # noqa: E402

IMPL = 'contracts/shared/output.impl.cpp'
SPEC = 'contracts/shared/output.spec.c'
RULES = {'next_tab_column': [('D7', None)],
         'add_text_ascii': [('D8', [(r'\badd_text\(const char \*ascii_text\)', 'add_text_ascii(const char *ascii_text)', 'overload renamed, see shim')])],
         'add_text_unc': [('D8', [(r'\badd_text\(const UncText &text,', 'add_text_unc(const UncText &text,', 'overload renamed, see shim')])]}

WC = 'write_char/write_char_contract'
WS = 'write_string/write_string_contract'
PN = 'print_numbering/print_numbering_contract'
NTC = 'next_tab_column/next_tab_column_contract'

COL = 'CPD(column)'
E = lambda x: '__CPROVER_loop_entry(%s)' % x

L_add_spaces = [dict(
    fn='add_spaces', id=0, vars=[],
    assigns='CHS_FRAME, CPD(spaces)',
    inv='g_chs_n + CPD(spaces) == %s + %s && CPD(spaces) <= %s' % (E('g_chs_n'), E('CPD(spaces)'), E('CPD(spaces)')) +
        ' && ((g_chs_K >= %s && g_chs_K < g_chs_n) ==> g_chs_at_K == 32)' % E('g_chs_n') +
        ' && (g_chs_K < %s ==> g_chs_at_K == %s)' % (E('g_chs_n'), E('g_chs_at_K')) +
        ' && (CPD(spaces) == %s ==> g_chs_last == %s)' % (E('CPD(spaces)'), E('g_chs_last')),
    decreases='CPD(spaces)')]


def _tab_loop(idx):
    # while (cpd.column < endcol) add_char(' ');
    en, es, ec = E('g_chs_n'), E('CPD(spaces)'), E('CPD(column)')
    return dict(
        fn='add_char', id=idx, vars=['endcol'],
        assigns='CHS_FRAME, CPD(spaces), CPD(column), CPD(last_char), CPD(did_newline)',
        inv='CPD(column) >= %s && CPD(column) <= endcol' % ec +
            ' && (!CPD(output_trailspace) ==> (g_chs_n == %s && CPD(spaces) == %s + (CPD(column) - %s)))' % (en, es, ec) +
            ' && ((CPD(output_trailspace) && CPD(column) == %s) ==> (g_chs_n == %s && CPD(spaces) == %s))' % (ec, en, es) +
            ' && ((CPD(output_trailspace) && CPD(column) > %s) ==> (g_chs_n == %s + %s + (CPD(column) - %s) && CPD(spaces) == 0))' % (ec, en, es, ec) +
            ' && ((g_chs_K >= %s && g_chs_K < g_chs_n) ==> g_chs_at_K == 32)' % en +
            ' && (g_chs_K < %s ==> g_chs_at_K == %s)' % (en, E('g_chs_at_K')) +
            ' && (CPD(column) > %s ==> CPD(last_char) == 32)' % ec +
            ' && (CPD(column) == %s ==> CPD(last_char) == %s)' % (ec, E('CPD(last_char)')) +
            ' && CPD(did_newline) == %s' % E('CPD(did_newline)'),
        decreases='endcol - CPD(column)')


L_add_char = [_tab_loop(0), _tab_loop(1)]

L_add_text_unc_ign = [dict(
    fn='add_text_unc', id=0, vars=['idx', 'text', 'is_ignored', 'is_literal'],
    assigns='idx, CHS_FRAME',
    inv='idx <= UT_size(text) && is_ignored && g_chs_n == %s + idx' % E('g_chs_n') +
        ' && ((g_chs_K >= %s && g_chs_K < g_chs_n) ==> g_chs_at_K == UT_at(text, g_chs_K - %s))' % (E('g_chs_n'), E('g_chs_n')) +
        ' && (g_chs_K < %s ==> g_chs_at_K == %s)' % (E('g_chs_n'), E('g_chs_at_K')),
    decreases='UT_size(text) - idx')]

L_add_text_unc_reg = [dict(
    fn='add_text_unc', id=0, vars=['idx', 'text', 'is_ignored', 'is_literal'],
    assigns='idx, AC_FRAME, CHS_FRAME, CPD(spaces), CPD(column), CPD(last_char), CPD(did_newline)',
    inv='idx <= UT_size(text) && !is_ignored && g_ac_n == %s + idx' % E('g_ac_n') +
        ' && ((g_ac_K >= %s && g_ac_K < g_ac_n) ==> (g_ac_ch_at_K == (unsigned)UT_at(text, g_ac_K - %s) && g_ac_lit_at_K == is_literal))' % (E('g_ac_n'), E('g_ac_n')) +
        ' && (g_ac_K < %s ==> (g_ac_ch_at_K == %s && g_ac_lit_at_K == %s))' % (E('g_ac_n'), E('g_ac_ch_at_K'), E('g_ac_lit_at_K')),
    decreases='UT_size(text) - idx')]

_frame = 'AC_FRAME, CHS_FRAME, CPD(spaces), CPD(column), CPD(last_char), CPD(did_newline)'
EC, EN, ES, EA = E('CPD(column)'), E('g_chs_n'), E('CPD(spaces)'), E('g_ac_n')


def _adv_inv(tabs_expr, target, also=None):
    # common part of the invariants of the "advance with blanks/tabs" loops.  D = distance still to go; the three
    # "potential" bounds (pending blanks + D, recorded calls + D, written items + pending + D) never grow, which keeps
    # the absolute size preconditions of add_text/add_char (UINT16 cpd.spaces < 65000, ghost counters) inductive.
    D = '(%s > CPD(column) ? %s - CPD(column) : 0UL)' % (target, target)
    if also:
        D = '(%s + (%s > CPD(column) ? %s - CPD(column) : 0UL))' % (D, also, also)
    return (' && CPD(column) >= 1 && CPD(column) >= %s && (CPD(column) <= %s || CPD(column) == %s) && CPD(did_newline) == 0' % (EC, target, EC) +
            ' && CPD(column) < (1UL << 30) && %s < (1UL << 31) && g_ac_n < MAXCAP && g_chs_n < MAXCAP && CPD(spaces) + %s < 60000 && g_ac_n + %s < MAXCAP - (1UL << 30) && g_chs_n + CPD(spaces) + %s < MAXCAP - (1UL << 30)' % (D, D, D, D) +
            ' && (CPD(last_char) == 32 || CPD(last_char) == 9 || CPD(last_char) == %s)' % E('CPD(last_char)') +
            ' && g_ac_n >= %s' % EA +
            ' && ((g_ac_K >= %s && g_ac_K < g_ac_n) ==> ((g_ac_ch_at_K == 32 || (%s && g_ac_ch_at_K == 9)) && !g_ac_lit_at_K))' % (EA, tabs_expr) +
            ' && (g_ac_K < %s ==> (g_ac_ch_at_K == %s && g_ac_lit_at_K == %s))' % (EA, E('g_ac_ch_at_K'), E('g_ac_lit_at_K')))


# (flags are compared through '!': a havocked _Bool may carry any non-zero bit pattern for "true")
_TABS_ONLY = ' && !g_ac_seen_blank == !%s && (!%s ==> !g_ac_tab_after_blank == !%s)' % (E('g_ac_seen_blank'), E('g_ac_seen_blank'), E('g_ac_tab_after_blank'))
_BLANKS_ONLY = ' && !g_ac_tab_after_blank == !%s' % E('g_ac_tab_after_blank')

L_output_to_column = [
    dict(fn='output_to_column', id=0, vars=['next_column', 'column', 'allow_tabs'],
         assigns='next_column, ' + _frame,
         inv='allow_tabs' + _adv_inv('1', 'column') + _TABS_ONLY +
             ' && next_column == NTC(CPD(column)) && next_column > CPD(column) && next_column <= CPD(column) + optv_output_tab_size',
         decreases='column + 64 - CPD(column)'),
    dict(fn='output_to_column', id=1, vars=['column', 'allow_tabs'],
         assigns=_frame,
         inv='1' + _adv_inv('0', 'column') + _BLANKS_ONLY,
         decreases='column + 64 - CPD(column)'),
]

L_cmt_output_indent = [
    dict(fn='cmt_output_indent', id=0, vars=['tab_col', 'iwt', 'column'],
         assigns=_frame,
         inv='iwt != 0' + _adv_inv('1', 'tab_col', 'column') + _TABS_ONLY,
         decreases='tab_col + 64 - CPD(column)'),
    dict(fn='cmt_output_indent', id=1, vars=['column'],
         assigns=_frame,
         inv='1' + _adv_inv('0', 'column') + _BLANKS_ONLY,
         decreases='column + 64 - CPD(column)'),
]


MACRO_HEADERS = ['output_macros.h']


def P(name, **kw):
    kw.setdefault('impl', IMPL)
    kw.setdefault('spec', SPEC)
    kw.setdefault('rules', RULES)
    p = Proof(name, **kw)
    p.macro_headers = MACRO_HEADERS
    return p


def all_proofs(include_wip=False):
    ps = _all()
    return ps if include_wip else [p for p in ps if p.name not in WIP]


# proofs that do not close yet (kept for --only runs, never part of a registered check)
WIP = []


def select(names):
    ps = {p.name: p for p in all_proofs()}
    out = []
    for n in names:
        if n.endswith('*'):
            out += [p for k, p in ps.items() if k.startswith(n[:-1])]
        else:
            out.append(ps[n])
    return out


def _all():
    return [
    ] + [
        P('calc_next_tab_column_ts%d' % ts, harness='h_calc_next_tab_column', enforce='calc_next_tab_column/calc_next_tab_column_contract',
          defines=['TS=%d' % ts], functions=['prototypes.h:calc_next_tab_column'], expect=['calc_next_tab_column_contract.postcondition'],
          note='case tabsize == %d of the exhaustive split over output_tab_size/input_tab_size in 1..32; columns < 2^32' % ts,
          mutants=([('off_by_one', r'\(\(\(col - 1\) / tabsize\) \+ 1\)', '(((col - 1) / tabsize))', 'postcondition'),
                    ('frag_sign', r'col -= cpd.frag_cols - 1;', 'col -= cpd.frag_cols;', 'postcondition')] if ts == 8 else []))
        for ts in range(1, 33)
    ] + [
        P('next_tab_column', enforce='next_tab_column/next_tab_column_bounds_contract',
          replace=['calc_next_tab_column/calc_next_tab_column_contract'],
          functions=['prototypes.h:next_tab_column'], expect=['next_tab_column_bounds_contract.postcondition'],
          mutants=[('wrong_option', r'options::output_tab_size\(\)', 'options::input_tab_size()', 'postcondition|precondition')]),
        P('add_spaces', enforce='add_spaces/add_spaces_contract', replace=[WC], loops=L_add_spaces,
          functions=['output.cpp:add_spaces'], expect=['add_spaces_contract.postcondition', 'loop_decreases'],
          mutants=[('writes_tab', r"write_char\(' '\);", "write_char('\\\\t');", 'postcondition|loop_invariant')]),
        P('add_char', enforce='add_char/add_char_contract', enforce_rec=True, canaries=3,
          replace=[WC, WS, PN, NTC, 'add_spaces/add_spaces_contract'], loops=L_add_char,
          functions=['output.cpp:add_char'], expect=['add_char_contract.postcondition', 'loop_decreases'], timeout=1200,
          mutants=[('cr_leaks', r"else if \(ch == '\\r'\) // do not output the CARRIAGERETURN", "else if (ch == '\\\\r' && false)", 'postcondition'),
                   ('lf_written_raw', r"add_spaces\(\);\n      write_string\(cpd.newline\);", "add_spaces();\n      write_char('\\\\n');", 'postcondition'),
                   ('guard_dropped', r"&& cpd.last_char == ' '\)", "&& cpd.last_char == ' ' && false)", 'postcondition'),
                   ('guard_wrong_option', r"indent_with_tabs = options::indent_with_tabs\(\);", "indent_with_tabs = options::align_with_tabs();", 'postcondition')]),
        P('add_text_ignored', harness='h_add_text_unc', enforce='add_text_unc/add_text_ignored_contract', replace=[WC, 'add_char/add_char_callers_contract'],
          loops=L_add_text_unc_ign, dead_ok=['add_text regular'],
          functions=['output.cpp:add_text(const UncText&, is_ignored=true)', 'unc_text.cpp:UncText::size', 'unc_text.cpp:UncText::operator[]'],
          expect=['add_text_ignored_contract.postcondition', 'loop_decreases'],
          mutants=[('ignored_through_add_char', r'if \(is_ignored\)', 'if (is_ignored && false)', 'assigns|postcondition|precondition')]),
        P('add_text_regular', harness='h_add_text_unc', enforce='add_text_unc/add_text_regular_contract',
          replace=['add_char/add_char_rec_contract'], drop_flags=['--conversion-check'],
          note='int -> UINT32 conversion of a text element is implementation-defined, not undefined: conversion check off here',
          loops=L_add_text_unc_reg, dead_ok=['add_text ignored'],
          functions=['output.cpp:add_text(const UncText&, is_ignored=false)'],
          expect=['add_text_regular_contract.postcondition', 'loop_decreases'],
          mutants=[('literal_flag_lost', r'add_char\(ch, is_literal\);', 'add_char(ch, false);', 'postcondition|loop_invariant')]),
        P('add_text_ascii', harness='h_add_text_ascii', defines=['NTC_TABLE'], enforce='add_text_ascii/add_text_ascii_contract',
          replace=['add_char/add_char_callers_contract'], unwindset='add_text_ascii_wrapped_for_contract_checking.0:3',
          note='string length fixed to 1 by the precondition: loop unwound 3 with unwinding assertion, complete for this contract',
          functions=['output.cpp:add_text(const char*)'], expect=['add_text_ascii_contract.postcondition']),
        P('output_to_column', enforce='output_to_column/output_to_column_contract', canaries=2, defines=['NTC_TABLE'], timeout=1800,
          replace=['add_text_ascii/add_text_ascii_contract', NTC], loops=L_output_to_column,
          functions=['output.cpp:output_to_column'], expect=['output_to_column_contract.postcondition', 'loop_decreases'],
          mutants=[('tabs_when_not_allowed', r'if \(allow_tabs\)', 'if (true)', 'postcondition|loop_invariant'),
                   ('spaces_first', r'add_text\("\\t"\);', 'add_text(" "); add_text("\\t");', 'postcondition|loop_invariant'),
                   ('moves_left', r'while \(cpd.column < column\)\n   \{\n      add_text\(" "\);\n   \}\n\}', 'while (cpd.column < column)\n   {\n      add_text(" ");\n   }\n   cpd.column = column;\n}', 'postcondition|assigns')]),
        P('cmt_output_indent', enforce='cmt_output_indent/cmt_output_indent_contract', defines=['NTC_TABLE'], timeout=2400,
          replace=['add_text_ascii/add_text_ascii_contract', NTC], loops=L_cmt_output_indent,
          functions=['output.cpp:cmt_output_indent'], expect=['cmt_output_indent_contract.postcondition', 'loop_decreases'],
          mutants=[('tabs_always', r'size_t iwt = options::indent_cmt_with_tabs\(\) \? 2 :', 'size_t iwt = true ? 2 :', 'postcondition')]),
    ]
