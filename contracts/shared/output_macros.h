/* macros shared by output.spec.c and the loop contracts in output_proofs.py */
#ifndef OUTPUT_MACROS_H
#define OUTPUT_MACROS_H
#include "options_c.h"
size_t __CPROVER_uninterpreted_ntc(size_t col, unsigned tabsize, unsigned frag_cols);
#ifdef NTC_TABLE
/* the same function as a ghost table indexed by the column (tab size and fragment offset are not in any frame of
 * this kernel, hence constant during one proof): a table read is side-effect free and may appear in loop
 * invariants, an uninterpreted-function application may not (goto-instrument rejects it).  The table has no
 * definition, i.e. it is an arbitrary function of the column. */
extern size_t g_ntc_tab[__CPROVER_constant_infinity_uint];   /* no definition anywhere: an extern object without definition is nondeterministic */
#define NTC(col) g_ntc_tab[(col)]
#else
#define NTC(col) __CPROVER_uninterpreted_ntc((col), optv_output_tab_size, CPD(frag_cols))
#endif
extern size_t g_ac_n, g_ac_K;
extern unsigned g_ac_ch_at_K;
extern _Bool  g_ac_lit_at_K;
extern _Bool  g_ac_seen_blank;       /* some recorded call had ch == ' ' */
extern _Bool  g_ac_tab_after_blank;  /* some recorded call had ch == TAB after a recorded blank */
#define AC_FRAME g_ac_n, g_ac_ch_at_K, g_ac_lit_at_K, g_ac_seen_blank, g_ac_tab_after_blank
#define AC_APPENDS_ONE(c, l) (g_ac_n == __CPROVER_old(g_ac_n) + 1 \
      && g_ac_seen_blank == (__CPROVER_old(g_ac_seen_blank) || (c) == ' ') \
      && g_ac_tab_after_blank == (__CPROVER_old(g_ac_tab_after_blank) || ((c) == '\t' && __CPROVER_old(g_ac_seen_blank))) \
      && ((g_ac_K == __CPROVER_old(g_ac_n)) ==> (g_ac_ch_at_K == (c) && g_ac_lit_at_K == (l))) \
      && ((g_ac_K != __CPROVER_old(g_ac_n)) ==> (g_ac_ch_at_K == __CPROVER_old(g_ac_ch_at_K) && g_ac_lit_at_K == __CPROVER_old(g_ac_lit_at_K))))

#endif
