// Translation unit for the head of parse_next() (C07-K5): everything from the function header of
// src/tokenizer/tokenize.cpp parse_next() down to (not including) the call of parse_whitespace(), sliced verbatim as
// a fragment; the rest of the function is replaced by `return(false)` = "falls through to the other tokenizers".
// What the extraction drops: all of parse_next() below the line "// Parse whitespace".
#include "token_enum.h"      /* from the working tree: -I <repo>/src */
#define VERIF_E_TOKEN
#include "base.h"
#include "containers.h"
#include "unctext.h"
#include "cpd.h"
#include "chunk.h"
#include "logger.h"
//@slice src/option.h struct iarf_e
//@slice src/option.h struct line_end_e
//@slice src/option.h struct token_pos_e
#include "options_gen.h"
#include "space_gen.h"
using namespace uncrustify;
static Chunk g_null_chunk;
Chunk *const Chunk::NullChunkPtr = &g_null_chunk;
//@slice src/chunk.h fn Chunk::SetOrigLine
//@slice src/chunk.h fn Chunk::SetOrigCol
//@slice src/chunk.h fn Chunk::SetColumn
//@slice src/chunk.h fn Chunk::SetNlCount
//@slice src/chunk.cpp fn Chunk::SetType
void Chunk::SetFlags(unsigned long flags) { m_flags = flags; }      // src/chunk.h: `m_flags = flags;` (PcfFlags is flags<E_PcfFlag>, a wrapper around the integer)
extern "C" {
//@slice src/prototypes.h fn calc_next_tab_column
}
//@slice src/tokenizer/tokenize.cpp struct TokenInfo
//@slice src/tokenizer/tokenize.cpp struct TokenContext
extern "C" {
// the two tokenizers the head may call: bodies never used, replaced by recording views
bool parse_ignored(TokenContext &ctx, Chunk &pc) { return nondet_bool(); }
bool parse_macro(TokenContext &ctx, Chunk &pc, const Chunk *prev_pc) { return nondet_bool(); }
//@slice src/tokenizer/tokenize.cpp frag parse_next_head /^static bool parse_next\(TokenContext &ctx, Chunk &pc, const Chunk \*prev_pc\)$/ /^   \/\/ Parse whitespace$/
   return(false);     // the remainder of parse_next(): the other tokenizers
}
}
#include "offsets_cpp.h"
#define CANARY(msg) __CPROVER_assert(0, "VACUITY_CANARY " msg)
extern "C" {
extern const unsigned long OFF_TokenContext_c = (unsigned long)&(((TokenContext*)0)->c);
extern const unsigned long OFF_TokenContext_s = (unsigned long)&(((TokenContext*)0)->s);
extern const unsigned long OFF_TokenInfo_last_ch = (unsigned long)&(((TokenInfo*)0)->last_ch);
extern const unsigned long OFF_TokenInfo_idx = (unsigned long)&(((TokenInfo*)0)->idx);
extern const unsigned long OFF_TokenInfo_row = (unsigned long)&(((TokenInfo*)0)->row);
extern const unsigned long OFF_TokenInfo_col = (unsigned long)&(((TokenInfo*)0)->col);
extern const unsigned long SIZEOF_TokenContext = sizeof(TokenContext);
extern const unsigned CT_NONE_V = CT_NONE;
extern size_t g_pn_calls; extern int g_pn_first; extern bool g_pi_ret;
void h_parse_next_head()
{
   deque_int d; TokenContext ctx(d); Chunk pc; const Chunk *prev;
   bool was_off = cpd.unc_off;
   bool r = parse_next(ctx, pc, prev);
   if (r && was_off) { CANARY("parse_next head: disabled region line taken by parse_ignored"); }
   if (r && g_pn_first == 2) { CANARY("parse_next head: macro block"); }
   if (!r && g_pn_calls == 2) { CANARY("parse_next head: both tried, falls through"); }
}
}
