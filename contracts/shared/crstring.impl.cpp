// Translation unit for the raw-string delimiter comparison (C03-K6): tag_compare() (src/tokenizer/tokenize.cpp), whole function, sliced verbatim.
// parse_cr_string() ends a raw string literal R"tag( ... )tag" where tag_compare() says the closing delimiter equals the opening one.
#include "token_enum.h"      /* from the working tree: -I <repo>/src */
#define VERIF_E_TOKEN
#include "base.h"
#include "containers.h"
extern "C" {
//@slice src/tokenizer/tokenize.cpp fn tag_compare
bool w_tag_compare(const deque_int *d, size_t a_idx, size_t b_idx, size_t len) { return(tag_compare(*d, a_idx, b_idx, len)); }
}
#include "offsets_cpp.h"
