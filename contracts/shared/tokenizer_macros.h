/* field access for the sliced structs TokenContext / TokenInfo (offsets computed by the C++ front end) */
#ifndef TOKENIZER_MACROS_H
#define TOKENIZER_MACROS_H
#include "options_c.h"
struct TokenContext;
extern const unsigned long OFF_TokenContext_c, OFF_TokenContext_s, OFF_TokenInfo_last_ch, OFF_TokenInfo_idx, OFF_TokenInfo_row, OFF_TokenInfo_col, SIZEOF_TokenContext;
#define TC_data(ctx)   (*(struct deque_int **)((char*)(ctx)))
#define TC_F(ctx, which, fld) (*(unsigned long*)((char*)(ctx) + OFF_TokenContext_##which + OFF_TokenInfo_##fld))
#define TC_idx(ctx)    TC_F(ctx, c, idx)
#define TC_row(ctx)    TC_F(ctx, c, row)
#define TC_col(ctx)    TC_F(ctx, c, col)
#define TC_last(ctx)   TC_F(ctx, c, last_ch)
#define TC_sidx(ctx)   TC_F(ctx, s, idx)
#define TC_size(ctx)   DI_size(TC_data(ctx))
#define TC_at(ctx, i)  (DI_data(TC_data(ctx))[(i)])
/* input size bound: columns stay below 2^32 (tab-stop arithmetic was proved for col < 2^32) */
#define MAXIN (1UL << 26)
#define TC_FRESH(ctx) (__CPROVER_is_fresh((ctx), SIZEOF_TokenContext) && DI_FRESH(TC_data(ctx)) && TC_size(ctx) < MAXIN \
                       && TC_idx(ctx) <= TC_size(ctx) && TC_col(ctx) >= 1 && TC_col(ctx) < (1UL << 31))
#define TC_FRAME(ctx) TC_idx(ctx), TC_row(ctx), TC_col(ctx), TC_last(ctx), TC_F(ctx, s, idx), TC_F(ctx, s, row), TC_F(ctx, s, col), TC_F(ctx, s, last_ch)
#define IS_BLANK(c)  ((c) == ' ' || (c) == '\t')
#define IS_EOL(c)    ((c) == '\r' || (c) == '\n')
#define IS_SPACE(c)  ((c) == ' ' || (c) == '\t' || (c) == '\n' || (c) == '\v' || (c) == '\f' || (c) == '\r')
/* stream invariant of TokenContext: a CR LF pair is never split between two consumers, i.e. the cursor never
 * stands between a consumed CR and its LF (established by every function below that consumes a CR) */
#define TC_NOT_MID_CRLF(ctx) (!(TC_last(ctx) == '\r' && TC_idx(ctx) < TC_size(ctx) && TC_at(ctx, TC_idx(ctx)) == '\n'))
#endif
