"""The per-file reset (uncrustify_end) is part of several kernels: the properties' own anchors name it as the place where
cpd.unc_off (C07), cpd.le_counts / cpd.newline (C08) and cpd.bout (C12) are reset."""
import importlib.util
import os


def end_proof():
    here = os.path.dirname(os.path.abspath(__file__))
    sp = importlib.util.spec_from_file_location('c11proofs_shared', os.path.join(here, '..', 'C11', 'proofs.py'))
    m = importlib.util.module_from_spec(sp)
    sp.loader.exec_module(m)
    return m.end_proof()
