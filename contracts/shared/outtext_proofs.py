"""Proof of one iteration of output_text()'s chunk loop (dispatch kernel shared by C02, C03, C07, C08, C17, C19)."""
import os
import re
import sys
sys.path.insert(0, os.path.join(os.path.dirname(os.path.abspath(__file__)), '..', '..', 'tools'))
from prover import Proof  # noqa: E402

_POOL = '(prev == P0 || prev == P1 || prev == P2 || prev == PN)'
_EFF = '(((Chunk_m_flags(pc) & PCF_IN_PREPROC_V) == PCF_IN_PREPROC_V) ? pp_indent_with_tabs : (int)optv_indent_with_tabs)'
_OUT = 'CPD(column), CPD(spaces), CPD(last_char), CPD(did_newline)'
L = [
    # for (size_t cnt = 0; cnt < pc->GetNlCount(); cnt++): exactly one add_char(LF) per round, indentation of blank lines only for cnt > 0
    dict(fn='output_text_iteration', id=0, vars=['cnt', 'pc', 'pp_indent_with_tabs'],
         assigns='cnt, g_ev, g_otc_n, g_otc_col, g_otc_ev, g_otc_col_at_call, g_otc_tabs_any, g_otc_tabs_last, g_ac_n, g_ac_nl, g_ac_ev_first_nl, g_ac_first, g_ac_last, g_ac_lit_any, ' + _OUT,
         inv='cnt <= Chunk_m_nlCount(pc) && g_ac_n == cnt && g_ac_nl == cnt && !g_ac_lit_any && (cnt == 0 ==> g_ev == 0) && (cnt >= 1 ==> (g_ac_ev_first_nl == 1 && g_ac_last == 10))'
             ' && (cnt <= 1 ==> g_otc_n == 0) && (Chunk_m_nlColumn(pc) <= 1 ==> g_otc_n == 0) && (%s == 0 ==> !g_otc_tabs_any)' % _EFF,
         decreases='Chunk_m_nlCount(pc) - cnt'),
    # while (prev->IsNotNullChunk() && prev->GetOrigCol() == 0 && prev->GetNlCount() == 0) prev = prev->GetPrev();
    # a walk over the chunk list: stays inside the list; termination depends on the list being finite and is NOT proved
    dict(fn='output_text_iteration', id=1, vars=['prev'], assigns='prev', inv=_POOL),
]

ENV = ['add_char', 'add_text_ascii', 'add_text_unc', 'output_to_column', 'output_comment_multi', 'output_comment_multi_simple',
       'output_comment_cpp', 'output_comment_c', 'reindent_line', 'DecodeTrackingData', 'exit']


def iteration_proof():
    p = Proof('output_text_iteration', impl='contracts/shared/outtext.impl.cpp', spec='contracts/shared/outtext.spec.c',
              enforce='output_text_iteration/output_text_iteration_contract', replace=['%s/%s_view' % (f, f) for f in ENV],
              loops=L, canaries=8, drop_flags=['--conversion-check'], timeout=1800,
              note='size_t -> int conversion of the original spacing (int orig_sp = pc->GetOrigPrevSp()) is implementation-defined, not undefined: conversion check off',
              functions=['output.cpp:output_text (one iteration of the chunk loop, sliced as a fragment)'],
              assumed=['output_comment_multi / output_comment_multi_simple / output_comment_cpp / output_comment_c: arbitrary effect on the writer frame (comment writers are not under contract)',
                       'reindent_line(pc, col): pc->column becomes col', 'DecodeTrackingData writes nothing when there is no tracking data (standard output)',
                       'chunk navigation (GetPrev) returns an arbitrary chunk of the list'],
              expect=['output_text_iteration_contract.postcondition', 'loop_decreases'],
              mutants=[('ignored_through_add_char', r'add_text\(pc->GetStr\(\), true\);', 'add_text(pc->GetStr(), false, true);', 'postcondition'),
                       ('pp_tabs_ignored', r'\(  !pc->IsPreproc\(\)\n                            && options::indent_with_tabs\(\) == 2\)', '(options::indent_with_tabs() == 2)', 'postcondition'),
                       ('literal_flag_lost', r'add_text\(pc->GetStr\(\), false, pc->Is\(CT_STRING\)\);\n         \}\n\n         if \(pc->Is\(CT_PP_DEFINE\)\)', 'add_text(pc->GetStr(), false, false);\n         }\n\n         if (pc->Is(CT_PP_DEFINE))', 'postcondition'),
                       ('nl_cont_ignore_adds_space', r'pc->SetColumn\(cpd.column \+ orig_sp\);', 'pc->SetColumn(cpd.column + (orig_sp > 1 ? orig_sp : 1));', 'postcondition'),
                       ('blank_line_indent_with_tabs', r'output_to_column\(pc->GetNlColumn\(\), \(options::indent_with_tabs\(\) >= 1\)\);', 'output_to_column(pc->GetNlColumn(), true);', 'postcondition|loop_invariant'),
                       ('tab_as_space_leaks', r'cpd.output_tab_as_space = false;', ';', 'postcondition')])
    p.macro_headers = ['outtext_macros.h']
    return p


def static_facts(repo):
    """What the fragment extraction drops is exactly the for-header of the chunk loop."""
    t = open(os.path.join(repo, 'src/output.cpp')).read()
    mo = re.search(r'for \(pc = Chunk::GetHead\(\); pc->IsNotNullChunk\(\); pc = pc->GetNext\(\)\)\n   \{\n      char copy\[1000\];', t)
    return [('output_text: the sliced loop body is directly preceded by `for (pc = Chunk::GetHead(); pc->IsNotNullChunk(); pc = pc->GetNext())` + `{`', bool(mo), '')]
