// Translation unit for the trailing-blank strip of tokenize() (C17-K1t, C03, C02): the statements of the main loop of
// src/tokenizer/tokenize.cpp tokenize() from `num_stripped = 0;` to `prev_sp = num_stripped;`, sliced verbatim as a fragment and
// wrapped into a function whose parameters are the locals the fragment uses (chunk, the cursor column ctx.c.col); the value the fragment leaves in prev_sp is returned.
// What the extraction drops: the rest of the tokenize() loop body.
#include "token_enum.h"      /* from the working tree: -I <repo>/src */
#define VERIF_E_TOKEN
#include "base.h"
#include "containers.h"
#include "unctext.h"
#include "cpd.h"
#include "chunk.h"
#include "logger.h"
static Chunk g_null_chunk;
Chunk *const Chunk::NullChunkPtr = &g_null_chunk;
//@slice src/chunk.h fn Chunk::GetType
//@slice src/chunk.h fn Chunk::Str
//@slice src/chunk.h fn Chunk::SetOrigColEnd
//@slice src/unc_text.cpp fn UncText::size
//@slice src/unc_text.cpp fn UncText::operator[]
//@slice src/unc_text.cpp fn UncText::pop_back
struct strip_cursor_t { size_t col; };
struct strip_ctx_t { strip_cursor_t c; };
extern "C" {
// the chunk being finished by this iteration of the loop: a typed global object with arbitrary content (the harness havocs it), so that the
// verifier sees field accesses instead of byte arithmetic into an untyped object
static Chunk g_strip_chunk;
extern Chunk *const SC = &g_strip_chunk;
size_t tokenize_strip(size_t col)
{
   Chunk       &chunk = g_strip_chunk;
   strip_ctx_t ctx; ctx.c.col = col;       // the fragment reads ctx.c.col only
   size_t      prev_sp;                     // declared `size_t prev_sp` in tokenize()
   int         num_stripped;                // declared `int num_stripped` in tokenize()
//@slice src/tokenizer/tokenize.cpp frag tokenize_strip /^      num_stripped = 0; \/\/ Issue #1966 and #3565$/ /^      prev_sp = num_stripped;$/
   return(prev_sp);
}
}
#include "offsets_cpp.h"
#define CANARY(msg) __CPROVER_assert(0, "VACUITY_CANARY " msg)
extern "C" {
extern const unsigned CT_IGNORED_V = CT_IGNORED;
extern size_t g_strip_old_size;
void h_tokenize_strip()
{
   __CPROVER_havoc_object(&g_strip_chunk);
   size_t n = tokenize_strip(nondet_size_t());
   if (n > 2) { CANARY("tokenize strip: several blanks stripped"); }
   if (n == 0) { CANARY("tokenize strip: nothing stripped"); }
}
}
