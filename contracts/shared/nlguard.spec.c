/* Direct verification conditions for the newline deletion guard (see nlguard.impl.cpp). */
#include "common.h"
#include "options_c.h"
extern struct Chunk *const CA, *const CB, *const CC, *const CN;
extern const unsigned CT_COMMENT_CPP_V, CT_NEWLINE_V, CT_NL_CONT_V, CT_BRACE_OPEN_V, CT_BRACE_CLOSE_V, CT_VBRACE_OPEN_V, CT_VBRACE_CLOSE_V;
extern const unsigned long PCF_IN_PREPROC_V;
extern unsigned g_del_n, g_swap_n;
void *malloc(unsigned long);
unsigned long nondet_ul(void);
int nondet_int(void);
static void mk3(struct Chunk *p, _Bool isnull)
{
   Chunk_m_nullChunk(p) = isnull;
   unsigned long cap = nondet_ul();
   __CPROVER_assume(cap <= MAXCAP && DI_size(UT_chars(Chunk_m_str(p))) <= cap);
   DI_cap(UT_chars(Chunk_m_str(p))) = cap;
   DI_data(UT_chars(Chunk_m_str(p))) = malloc(cap * sizeof(int));
   __CPROVER_assume(DI_data(UT_chars(Chunk_m_str(p))) != (int *)0);
   /* the UTF-8 copy kept for log messages (UncText::clear() resets it to "\\0") */
   unsigned long lcap = nondet_ul();
   __CPROVER_assume(lcap >= 1 && lcap <= MAXCAP && V8_size(UncText_m_logtext(Chunk_m_str(p))) <= lcap);
   V8_cap(UncText_m_logtext(Chunk_m_str(p))) = lcap;
   V8_data(UncText_m_logtext(Chunk_m_str(p))) = malloc(lcap);
   __CPROVER_assume(V8_data(UncText_m_logtext(Chunk_m_str(p))) != (unsigned char *)0);
}
static void mk_all(void)
{
   __CPROVER_havoc_object(CA); __CPROVER_havoc_object(CB); __CPROVER_havoc_object(CC); __CPROVER_havoc_object(CN);
   mk3(CA, 0); mk3(CB, 0); mk3(CC, 0); mk3(CN, 1);
   __CPROVER_assume(CPD(changes) >= 0 && CPD(changes) < 1000000);
}
#define IN_PP(p) ((Chunk_m_flags(p) & PCF_IN_PREPROC_V) == PCF_IN_PREPROC_V)
#ifdef GUARD_DEF
_Bool w_safe_to_delete_nl(struct Chunk *nl);
/* (1) SafeToDeleteNl(): never after a `//` comment, never across a preprocessor boundary (prev = CB, next = CC) */
void h_safe_to_delete_nl(void)
{
   mk_all();
   _Bool r = w_safe_to_delete_nl(CA);
   __CPROVER_assert(Chunk_m_type(CB) == CT_COMMENT_CPP_V ==> !r, "postcondition: SafeToDeleteNl is false for the newline that ends a // comment");
   __CPROVER_assert((!!IN_PP(CB) != !!IN_PP(CC)) ==> !r, "postcondition: SafeToDeleteNl is false between a preprocessor line and ordinary code");
   __CPROVER_assert((Chunk_m_type(CB) != CT_COMMENT_CPP_V && !!IN_PP(CB) == !!IN_PP(CC)) ==> r, "postcondition: SafeToDeleteNl is true otherwise (both neighbours real chunks)");
   if (r) { __CPROVER_assert(0, "VACUITY_CANARY SafeToDeleteNl true"); } else { __CPROVER_assert(0, "VACUITY_CANARY SafeToDeleteNl false"); }
}
#else
void w_convert_brace(struct Chunk *br);
void w_class_colon_newlines(struct Chunk *pc, struct Chunk *prev, struct Chunk *next, int anc, int tpc);
/* (2) convert_brace: the guard is asserted inside Chunk::Delete; in addition only brace chunks are converted (C04) */
void h_convert_brace(void)
{
   mk_all();
   unsigned t0 = Chunk_m_type(CA);
   g_del_n = 0;
   w_convert_brace(CA);
   __CPROVER_assert((t0 != CT_BRACE_OPEN_V && t0 != CT_BRACE_CLOSE_V) ==> (Chunk_m_type(CA) == t0 && g_del_n == 0), "postcondition: convert_brace leaves anything that is not a brace alone");
   __CPROVER_assert(g_del_n <= 1, "postcondition: convert_brace deletes at most one chunk (the adjacent newline)");
   if (g_del_n == 1) { __CPROVER_assert(0, "VACUITY_CANARY convert_brace deletes the newline next to the brace"); }
   if (Chunk_m_type(CA) == CT_VBRACE_OPEN_V && g_del_n == 0) { __CPROVER_assert(0, "VACUITY_CANARY convert_brace keeps an unsafe newline"); }
}
/* (3) class/constructor colon: the guard is asserted inside Chunk::Delete / Chunk::Swap */
void h_class_colon_newlines(void)
{
   mk_all();
   int anc = nondet_int(), tpc = nondet_int();
   __CPROVER_assume(anc >= 0 && anc <= 3 && tpc >= 0 && tpc <= 31);
   g_del_n = 0; g_swap_n = 0;
   w_class_colon_newlines(CA, CB, CC, anc, tpc);
   __CPROVER_assert(anc != 2 ==> g_del_n == 0, "postcondition: class colon newlines are deleted only under nl_class_colon / nl_constr_colon = remove");
   if (g_del_n == 2) { __CPROVER_assert(0, "VACUITY_CANARY class colon: both newlines removed"); }
   if (g_swap_n == 1) { __CPROVER_assert(0, "VACUITY_CANARY class colon: colon moved across a newline"); }
}
#endif
