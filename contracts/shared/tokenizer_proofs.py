"""Proofs over the tokenizer kernel of src/tokenizer/tokenize.cpp, shared by C02, C06, C07, C08."""
import os
import sys
sys.path.insert(0, os.path.join(os.path.dirname(os.path.abspath(__file__)), '..', '..', 'tools'))
from prover import Proof  # noqa: E402

IMPL = 'contracts/shared/tokenizer.impl.cpp'
SPEC = 'contracts/shared/tokenizer.spec.c'
MACRO_HEADERS = ['tokenizer_macros.h']
RULES = {'TokenContext': [('D6', [('deque<int>', 'data'), ('deque<int>', 'd')])]}
E = lambda x: '__CPROVER_loop_entry(%s)' % x
CNTC = 'calc_next_tab_column/calc_next_tab_column_contract'

_pos = ('TC_idx(ctx) >= %s && TC_idx(ctx) <= TC_size(ctx) && TC_col(ctx) >= 1 && TC_col(ctx) <= %s + 32 * (TC_idx(ctx) - %s)'
        % (E('TC_idx(ctx)'), E('TC_col(ctx)'), E('TC_idx(ctx)')))
_cur = 'TC_idx(ctx), TC_row(ctx), TC_col(ctx), TC_last(ctx)'

L_parse_newline = [dict(
    fn='parse_newline', id=0, vars=['ctx'], assigns=_cur,
    inv=_pos + ' && TC_row(ctx) == %s' % E('TC_row(ctx)') +
        ' && (TC_idx(ctx) == %s ==> TC_last(ctx) == %s) && (TC_idx(ctx) > %s ==> IS_BLANK(TC_last(ctx)))' % (E('TC_idx(ctx)'), E('TC_last(ctx)'), E('TC_idx(ctx)')) +
        ' && ((g_J >= %s && g_J < TC_idx(ctx)) ==> IS_BLANK(TC_at(ctx, g_J)))' % E('TC_idx(ctx)'),
    decreases='TC_size(ctx) - TC_idx(ctx)')]

L_parse_bs_newline = [dict(
    fn='parse_bs_newline', id=0, vars=['ctx', 'ch'], assigns='ch, ' + _cur,
    inv=_pos + ' && TC_row(ctx) == %s' % E('TC_row(ctx)') +
        ' && ((g_J >= %s && g_J < TC_idx(ctx)) ==> (IS_SPACE(TC_at(ctx, g_J)) && !IS_EOL(TC_at(ctx, g_J))))' % E('TC_idx(ctx)'),
    decreases='TC_size(ctx) - TC_idx(ctx)')]

_d = lambda i: '(CPD(le_counts)[%d] - %s)' % (i, E('CPD(le_counts)[%d]' % i))
L_parse_whitespace = [dict(
    fn='parse_whitespace', id=0, vars=['ctx', 'pc', 'ch', 'nl_count'],
    assigns='ch, nl_count, Chunk_m_origPrevSp(pc), CPD(le_counts)[0], CPD(le_counts)[1], CPD(le_counts)[2], ' + _cur,
    inv=_pos +
        ' && ((g_J >= %s && g_J < TC_idx(ctx)) ==> IS_SPACE(TC_at(ctx, g_J)))' % E('TC_idx(ctx)') +
        ' && (TC_idx(ctx) > %s ==> ch != 0)' % E('TC_idx(ctx)') +
        ' && (TC_idx(ctx) == %s ==> ch == 0)' % E('TC_idx(ctx)') +
        ' && CPD(le_counts)[0] >= %s && CPD(le_counts)[1] >= %s && CPD(le_counts)[2] >= %s' % (E('CPD(le_counts)[0]'), E('CPD(le_counts)[1]'), E('CPD(le_counts)[2]')) +
        ' && nl_count == (unsigned long)%s + %s + %s && nl_count <= TC_idx(ctx) - %s' % (_d(0), _d(1), _d(2), E('TC_idx(ctx)')) +
        # a CR is never left pending at the loop head: if the element before idx is CR then the element at idx is not LF
        ' && ((TC_idx(ctx) > %s && TC_idx(ctx) < TC_size(ctx) && TC_at(ctx, TC_idx(ctx) - 1) == 13) ==> TC_at(ctx, TC_idx(ctx)) != 10)' % E('TC_idx(ctx)') +
        ' && ((g_J >= %s && g_J < TC_idx(ctx) && TC_at(ctx, g_J) == 10 && (g_J == %s || TC_at(ctx, g_J - 1) != 13)) ==> %s >= 1)' % (E('TC_idx(ctx)'), E('TC_idx(ctx)'), _d(0)) +
        ' && ((g_J >= %s && g_J < TC_idx(ctx) && TC_at(ctx, g_J) == 13 && g_J + 1 < TC_size(ctx) && TC_at(ctx, g_J + 1) == 10) ==> %s >= 1)' % (E('TC_idx(ctx)'), _d(1)) +
        ' && ((g_J >= %s && g_J < TC_idx(ctx) && TC_at(ctx, g_J) == 13 && (g_J + 1 >= TC_size(ctx) || TC_at(ctx, g_J + 1) != 10)) ==> %s >= 1)' % (E('TC_idx(ctx)'), _d(2)),
    decreases='TC_size(ctx) - TC_idx(ctx)')]


L_parse_off_newlines = [dict(
    fn='parse_off_newlines', id=0, vars=['ctx', 'nl_count'],
    assigns='nl_count, ' + _cur + ', TC_F(ctx, s, idx), TC_F(ctx, s, row), TC_F(ctx, s, col), TC_F(ctx, s, last_ch)',
    inv='TC_idx(ctx) >= %s && TC_idx(ctx) <= TC_size(ctx) && TC_col(ctx) >= 1 && TC_col(ctx) < (1UL << 31)' % E('TC_idx(ctx)') +
        ' && nl_count == TC_row(ctx) - %s && nl_count <= TC_idx(ctx) - %s' % (E('TC_row(ctx)'), E('TC_idx(ctx)')) +
        ' && (nl_count == 0) == (TC_idx(ctx) == %s)' % E('TC_idx(ctx)') +
        ' && (nl_count == 0 ==> (TC_col(ctx) == %s && TC_last(ctx) == %s))' % (E('TC_col(ctx)'), E('TC_last(ctx)')) +
        ' && (nl_count > 0 ==> IS_EOL(TC_at(ctx, TC_idx(ctx) - 1)))' +
        ' && TC_NOT_MID_CRLF(ctx)' +
        ' && ((g_J >= %s && g_J < TC_idx(ctx)) ==> (IS_BLANK(TC_at(ctx, g_J)) || IS_EOL(TC_at(ctx, g_J))))' % E('TC_idx(ctx)'),
    decreases='TC_size(ctx) - TC_idx(ctx)')]


def P(name, **kw):
    kw.setdefault('impl', IMPL)
    # int <-> size_t conversions of code points (peek(), unc_isspace()) are implementation-defined, not undefined
    kw.setdefault('drop_flags', ['--conversion-check'])
    kw.setdefault('spec', SPEC)
    kw.setdefault('rules', RULES)
    p = Proof(name, **kw)
    p.macro_headers = MACRO_HEADERS
    return p


# contracts written but not closing within the time budget (never part of a registered check): the trailing-blank strip of tokenize()
WIP = []


def select(names):
    ps = {p.name: p for p in all_proofs() if p.name not in WIP}
    return [ps[n] for n in names]


def all_proofs():
    return [
        P('tok_layout', harness='h_layout', no_contract=True, functions=['layout of sliced struct TokenContext'], expect=['layout: TokenContext']),
        P('parse_newline', enforce='parse_newline/parse_newline_contract', replace=[CNTC], loops=L_parse_newline, canaries=2,
          functions=['tokenize.cpp:parse_newline', 'tokenize.cpp:TokenContext::{save,restore,more,peek,get,expect} (inlined)'],
          expect=['parse_newline_contract.postcondition', 'loop_decreases'],
          mutants=[('crlf_leaves_lf', r"ctx.get\(\);\n         ctx.expect\('\\n'\);", "ctx.get();", 'postcondition'),
                   ('eats_any_char', r"\|\| \(ctx.peek\(\) == '\\t'\)\)", "|| (ctx.peek() == '\\\\t') || (ctx.peek() == 'x'))", 'postcondition|loop_invariant'),
                   ('no_restore', r"ctx.restore\(\);\n   return\(false\);", "return(false);", 'postcondition'),
                   ('votes_in_census', r"      return\(true\);\n   \}\n   ctx.restore\(\);", "      ++cpd.le_counts[0];\n      return(true);\n   }\n   ctx.restore();", 'postcondition')]),
        P('parse_bs_newline', enforce='parse_bs_newline/parse_bs_newline_contract', replace=[CNTC], loops=L_parse_bs_newline, canaries=2,
          functions=['tokenize.cpp:parse_bs_newline'], expect=['parse_bs_newline_contract.postcondition', 'loop_decreases'],
          mutants=[('bs_crlf_leaves_lf', r"if \(ch == '\\r'\)\n         \{\n            ctx.expect\('\\n'\);\n         \}", "", 'postcondition')]),
        P('parse_whitespace', enforce='parse_whitespace/parse_whitespace_contract', replace=[CNTC], loops=L_parse_whitespace, canaries=2,
          functions=['tokenize.cpp:parse_whitespace', 'unc_ctype.cpp:unc_isspace', 'unc_ctype.cpp:unc_fix_ctype'],
          expect=['parse_whitespace_contract.postcondition', 'loop_decreases'], timeout=1200,
          mutants=[('crlf_counted_as_cr', r"\+\+LE_COUNT\(CRLF\);", "++LE_COUNT(CR);", 'postcondition|loop_invariant'),
                   ('lf_not_counted', r"\+\+LE_COUNT\(LF\);\n", "", 'postcondition|loop_invariant'),
                   ('swallows_nonspace', r"&& unc_isspace\(ctx.peek\(\)\)\)", "&& (unc_isspace(ctx.peek()) || ctx.peek() == ';'))", 'postcondition|loop_invariant')]),
        P('parse_off_newlines', enforce='parse_off_newlines/parse_off_newlines_contract', replace=['parse_newline/parse_newline_contract'],
          loops=L_parse_off_newlines, canaries=2, functions=['tokenize.cpp:parse_off_newlines'],
          expect=['parse_off_newlines_contract.postcondition', 'loop_decreases'],
          mutants=[('miscount', r"nl_count\+\+;", "nl_count += 2;", 'postcondition|loop_invariant')]),
        P('parse_next_head', impl='contracts/shared/parsenext.impl.cpp', enforce='parse_next/parse_next_head_contract', canaries=3,
          replace=['parse_ignored/parse_ignored_view', 'parse_macro/parse_macro_view'],
          functions=['tokenize.cpp:parse_next (head fragment: up to the call of parse_whitespace)'], expect=['parse_next_head_contract.postcondition'],
          assumed=['parse_ignored / parse_macro: arbitrary effect on the cursor and the chunk (views that only record the call)'],
          mutants=[('macro_before_ignored', r'(?s)(   // If it is turned off.*?\n   \}\n)(   log_rule_B\("disable_processing_nl_cont"\);.*?\n   \}\n)', r'\2\1', 'postcondition'),
                   ('ignored_always', r'if \(cpd.unc_off\)', 'if (true)', 'postcondition')]),
        P('tokenize_strip', impl='contracts/shared/strip.impl.cpp', enforce='tokenize_strip/tokenize_strip_contract', canaries=2, rules={},
          loops=[dict(fn='tokenize_strip', id=0, vars=['num_stripped'],
                      assigns='num_stripped, DI_size(UT_chars(Chunk_m_str(SC)))',
                      inv='UT_size(Chunk_m_str(SC)) <= %s && num_stripped >= 0 && (unsigned long)num_stripped == %s - UT_size(Chunk_m_str(SC))' % (E('UT_size(Chunk_m_str(SC))'), E('UT_size(Chunk_m_str(SC))')) +
                          ' && ((g_strip_K >= UT_size(Chunk_m_str(SC)) && g_strip_K < %s) ==> (UT_at(Chunk_m_str(SC), g_strip_K) == 32 || UT_at(Chunk_m_str(SC), g_strip_K) == 9))' % E('UT_size(Chunk_m_str(SC))') +
                          ' && (UT_size(Chunk_m_str(SC)) < %s ==> (UT_size(Chunk_m_str(SC)) == 0 || UT_at(Chunk_m_str(SC), UT_size(Chunk_m_str(SC)) - 1) != 92))' % E('UT_size(Chunk_m_str(SC))'),
                      decreases='UT_size(Chunk_m_str(SC))')],
          functions=['tokenize.cpp:tokenize (fragment: trailing-blank strip of the main loop)', 'unc_text.cpp:UncText::pop_back'],
          expect=['tokenize_strip_contract.postcondition', 'loop_decreases'],
          mutants=[('backslash_guard_preproc_only', r'if \(  \(chunk.GetStr\(\).size\(\) > 1\)', 'if (  cpd.in_preproc != CT_NONE && (chunk.GetStr().size() > 1)', 'postcondition|loop_invariant'),
                   ('strips_ignored', r'if \(chunk.GetType\(\) != CT_IGNORED\)', 'if (true)', 'postcondition'),
                   ('keeps_tabs', r"\|\| \(chunk.GetStr\(\)\[chunk.GetStr\(\).size\(\) - 1\] == '\\t'\)\)\)", '))', 'postcondition')]),
        P('parse_cr_string', enforce='parse_cr_string/parse_cr_string_contract', defines=['CR_STRING'], canaries=2, timeout=900,
          replace=[CNTC, 'tag_compare/tag_compare_env_contract', 'parse_suffix/parse_suffix_contract'],
          loops=[dict(fn='parse_cr_string', id=0, vars=['ctx', 'cnt', 'q_idx'], assigns='cnt, ' + _cur, decreases='cnt',
                      inv=_pos + ' && cnt >= 0 && cnt <= (int)q_idx + 1 && TC_idx(ctx) == %s + (q_idx + 1 - (unsigned long)cnt)' % E('TC_idx(ctx)')),
                 dict(fn='parse_cr_string', id=1, vars=['ctx', 'tag_len', 'tag_idx'], assigns='tag_len, ' + _cur, decreases='TC_size(ctx) - TC_idx(ctx)',
                      inv=_pos + ' && TC_idx(ctx) == tag_idx + tag_len'),
                 dict(fn='parse_cr_string', id=2, vars=['ctx', 'pc', 'cnt', 'tag_len', 'tag_idx'], assigns='cnt, Chunk_m_type(pc), Chunk_m_nlCount(pc), ' + _cur, decreases='TC_size(ctx) - TC_idx(ctx)',
                      inv=_pos + ' && TC_idx(ctx) >= tag_idx + tag_len && tag_len < TC_size(ctx) && Chunk_m_nlCount(pc) <= %s + (TC_idx(ctx) - %s) && (Chunk_m_type(pc) == CT_STRING_V || Chunk_m_type(pc) == CT_STRING_MULTI_V)' % (E('Chunk_m_nlCount(pc)'), E('TC_idx(ctx)'))),
                 dict(fn='parse_cr_string', id=3, vars=['ctx', 'cnt'], assigns='cnt, ' + _cur, decreases='cnt',
                      inv=_pos + ' && cnt >= 0')],
          functions=['tokenize.cpp:parse_cr_string'], expect=['parse_cr_string_contract.postcondition', 'loop_decreases', 'tag_compare_env_contract.precondition'],
          assumed=['parse_suffix: only moves the cursor forward inside the data', 'UncText::append(int): what is collected into the chunk text is not tracked in this proof'],
          mutants=[('delimiter_scan_without_end_test', r'while \(  ctx\.more\(\)\n         && \(ctx\.peek\(\) != \'\(\'\)\)', "while (ctx.peek() != '(')", 'loop_decreases|loop_invariant|postcondition'),
                   ('no_restore_on_unterminated', r'\n   ctx\.restore\(\);\n   return\(false\);', '\n   return(false);', 'postcondition')]),
        Proof('tag_compare', impl='contracts/shared/crstring.impl.cpp', spec='contracts/shared/crstring.spec.c', harness='h_tag_compare', enforce='tag_compare/tag_compare_contract', canaries=2, rules={},
              loops=[dict(fn='tag_compare', id=0, vars=['a_idx', 'b_idx', 'len', 'd'], assigns='a_idx, b_idx, len',
                          inv='len <= %s && a_idx == %s + (%s - len) && b_idx == %s + (%s - len) && (g_tc_K < %s - len ==> DI_data(d)[%s + g_tc_K] == DI_data(d)[%s + g_tc_K])' % (E('len'), E('a_idx'), E('len'), E('b_idx'), E('len'), E('len'), E('a_idx'), E('b_idx')),
                          decreases='len')],
              functions=['tokenize.cpp:tag_compare'], expect=['tag_compare_contract.postcondition', 'loop_invariant_step'],
              mutants=[('indices_not_advanced', r'a_idx\+\+;\n', '', 'postcondition|loop_invariant'),
                       ('compares_with_itself', r'if \(d\[a_idx\] != d\[b_idx\]\)', 'if (d[a_idx] != d[a_idx])', 'postcondition|loop_invariant')]),
        P('tokenize_tail', enforce='tokenize_tail/tokenize_tail_contract', defines=['REAL_CSTR_ASSIGN=1'],
          functions=['tokenize.cpp:tokenize (tail fragment: choice of cpd.newline)', 'unc_text.cpp:UncText::operator=(const char*)', 'unc_text.cpp:UncText::set(const char*)'],
          expect=['tokenize_tail_contract.postcondition'],
          note='the strings assigned are literals of length <= 2: the copy loops are unwound 4 with unwinding assertions, complete',
          mutants=[('tie_break', r"\(LE_COUNT\(LF\) >= LE_COUNT\(CRLF\)\)", "(LE_COUNT(LF) > LE_COUNT(CRLF))", 'postcondition'),
                   ('crlf_as_lf', r'cpd.newline = "\\r\\n";', 'cpd.newline = "\\\\n";', 'postcondition')]),
    ]
