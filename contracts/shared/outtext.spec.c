/* Contract of ONE ITERATION of output_text()'s chunk loop (src/output.cpp), and the recording views of the emitters
 * it calls.  The emitters' own contracts are proved in output.spec.c (add_char, add_text, output_to_column,
 * cmt_output_indent); here each of them is seen as "arbitrary effect on its proved frame + one recorded event", so that
 * the postcondition of the iteration can say WHICH emitter is called, in WHICH order, with WHICH arguments:
 *
 *   C07-K3  a CT_IGNORED / CT_JUNK chunk is written by add_text(str, is_ignored = true) and by nothing else
 *   C03-K2  a regular chunk is written by exactly one add_text(str, false, is_literal = Is(CT_STRING)), with
 *           cpd.output_tab_as_space == false, after output_to_column(its column)                       (also C02: once, in place)
 *   C17-K6  which allow_tabs value reaches output_to_column, as a function of indent_with_tabs / pp_indent_with_tabs
 *   C08     a CT_NEWLINE chunk yields exactly nl_count add_char('\n') calls; CT_NL_CONT yields '\\' then '\n'
 *   C19     the column of a backslash-newline obeys sp_before_nl_cont
 */
#include "common.h"
#include "options_c.h"
extern const unsigned CT_NEWLINE_V, CT_NL_CONT_V, CT_COMMENT_MULTI_V, CT_COMMENT_CPP_V, CT_COMMENT_CPP_ENDIF_V, CT_COMMENT_V, CT_COMMENT_ENDIF_V, CT_JUNK_V,
                      CT_IGNORED_V, CT_STRING_V, CT_STRING_MULTI_V, CT_PP_DEFINE_V, CT_PP_IGNORE_V, CT_BRACE_CLOSE_V, CT_CASE_COLON_V;
extern const unsigned long PCF_WAS_ALIGNED_V, PCF_IN_PREPROC_V;
extern struct Chunk *const P0, *const P1, *const P2, *const PN;

/* ---- ghost event log of one iteration ---- */
size_t g_ev;                    /* number of events so far */
/* output_to_column */
size_t g_otc_n, g_otc_col, g_otc_ev, g_otc_col_at_call;   /* calls, last requested column, event index of the last call, cpd.column at the last call */
_Bool  g_otc_tabs_any, g_otc_tabs_last;
/* add_text(const UncText&, ...) */
size_t g_atu_n, g_atu_ev;
const struct UncText *g_atu_text;
_Bool  g_atu_ign, g_atu_lit, g_atu_otas, g_atu_trail;
/* add_text(const char*) */
size_t g_ata_n;
/* add_char */
size_t g_ac_n, g_ac_nl, g_ac_ev_first_nl;
unsigned g_ac_first, g_ac_last;
_Bool  g_ac_lit_any;
/* comment writers */
size_t g_cw_n;
int    g_cw_kind;               /* 1 multi, 2 multi_simple, 3 cpp, 4 c */
struct Chunk *g_cw_pc;
_Bool  g_cw_otas, g_cw_trail;
/* others */
size_t g_ri_n, g_dt_n;

#define EV_FRAME g_ev
#define OUT_FRAME CPD(column), CPD(spaces), CPD(last_char), CPD(did_newline)

void output_to_column_view(size_t column, _Bool allow_tabs)
__CPROVER_assigns(EV_FRAME, g_otc_n, g_otc_col, g_otc_ev, g_otc_col_at_call, g_otc_tabs_any, g_otc_tabs_last, OUT_FRAME)
__CPROVER_ensures(g_ev == __CPROVER_old(g_ev) + 1 && g_otc_ev == g_ev && g_otc_n == __CPROVER_old(g_otc_n) + 1 && g_otc_col == column)
__CPROVER_ensures(g_otc_col_at_call == __CPROVER_old(CPD(column)))
__CPROVER_ensures(!g_otc_tabs_last == !allow_tabs && !g_otc_tabs_any == !(__CPROVER_old(g_otc_tabs_any) || allow_tabs))
/* proved in output_to_column_contract: exactly max(old column, requested), no line break */
__CPROVER_ensures(CPD(column) == (__CPROVER_old(CPD(column)) > column ? __CPROVER_old(CPD(column)) : column) && !CPD(did_newline))
;
void add_text_unc_view(struct UncText *text, _Bool is_ignored, _Bool is_literal)
__CPROVER_assigns(EV_FRAME, g_atu_n, g_atu_ev, g_atu_text, g_atu_ign, g_atu_lit, g_atu_otas, g_atu_trail, OUT_FRAME)
__CPROVER_ensures(g_ev == __CPROVER_old(g_ev) + 1 && g_atu_ev == g_ev && g_atu_n == __CPROVER_old(g_atu_n) + 1 && g_atu_text == text)
__CPROVER_ensures(!g_atu_ign == !is_ignored && !g_atu_lit == !is_literal && !g_atu_otas == !CPD(output_tab_as_space) && !g_atu_trail == !CPD(output_trailspace))
/* proved in add_text_ignored_contract: the raw path touches none of the column / pending-blank / line state */
__CPROVER_ensures(is_ignored ==> (CPD(column) == __CPROVER_old(CPD(column)) && CPD(spaces) == __CPROVER_old(CPD(spaces))
                                  && CPD(last_char) == __CPROVER_old(CPD(last_char)) && !CPD(did_newline) == !__CPROVER_old(CPD(did_newline))))
;
void add_text_ascii_view(const char *t)
__CPROVER_assigns(EV_FRAME, g_ata_n, OUT_FRAME)
__CPROVER_ensures(g_ev == __CPROVER_old(g_ev) + 1 && g_ata_n == __CPROVER_old(g_ata_n) + 1)
;
void add_char_view(unsigned int ch, _Bool is_literal)
__CPROVER_assigns(EV_FRAME, g_ac_n, g_ac_nl, g_ac_ev_first_nl, g_ac_first, g_ac_last, g_ac_lit_any, OUT_FRAME)
__CPROVER_ensures(g_ev == __CPROVER_old(g_ev) + 1 && g_ac_n == __CPROVER_old(g_ac_n) + 1 && g_ac_last == ch)
__CPROVER_ensures(g_ac_nl == __CPROVER_old(g_ac_nl) + (ch == '\n' ? 1 : 0))
__CPROVER_ensures(g_ac_first == (__CPROVER_old(g_ac_n) == 0 ? ch : __CPROVER_old(g_ac_first)))
__CPROVER_ensures(g_ac_ev_first_nl == ((ch == '\n' && __CPROVER_old(g_ac_nl) == 0) ? g_ev : __CPROVER_old(g_ac_ev_first_nl)))
__CPROVER_ensures(!g_ac_lit_any == !(__CPROVER_old(g_ac_lit_any) || is_literal))
;
#define CW_VIEW(kind) \
__CPROVER_assigns(EV_FRAME, g_cw_n, g_cw_kind, g_cw_pc, g_cw_otas, g_cw_trail, OUT_FRAME) \
__CPROVER_ensures(g_ev == __CPROVER_old(g_ev) + 1 && g_cw_n == __CPROVER_old(g_cw_n) + 1 && g_cw_kind == (kind) && g_cw_pc == pc) \
__CPROVER_ensures(!g_cw_otas == !CPD(output_tab_as_space) && !g_cw_trail == !CPD(output_trailspace))
void output_comment_multi_view(struct Chunk *pc) CW_VIEW(1) ;
void output_comment_multi_simple_view(struct Chunk *pc) CW_VIEW(2) ;
/* the single-line comment writers may combine following comments and return the last chunk they consumed: some chunk
 * of the list (any pool member), never the sentinel -- ASSUMED (the comment writers are not under contract) */
struct Chunk *output_comment_cpp_view(struct Chunk *pc) CW_VIEW(3)
__CPROVER_ensures(__CPROVER_return_value == pc || __CPROVER_return_value == P0 || __CPROVER_return_value == P1 || __CPROVER_return_value == P2) ;
struct Chunk *output_comment_c_view(struct Chunk *pc) CW_VIEW(4)
__CPROVER_ensures(__CPROVER_return_value == pc || __CPROVER_return_value == P0 || __CPROVER_return_value == P1 || __CPROVER_return_value == P2) ;
/* reindent_line(pc, col) moves pc (and what follows on its line) right to col -- ASSUMED contract: pc's column becomes col */
void reindent_line_view(struct Chunk *pc, size_t column)
__CPROVER_assigns(g_ri_n, Chunk_m_column(pc))
__CPROVER_ensures(g_ri_n == __CPROVER_old(g_ri_n) + 1 && Chunk_m_column(pc) == column)
;
/* without tracking data (standard output) DecodeTrackingData writes nothing -- ASSUMED */
void DecodeTrackingData_view(struct Chunk *pc)
__CPROVER_assigns(g_dt_n)
__CPROVER_ensures(g_dt_n == __CPROVER_old(g_dt_n) + 1)
;
void exit_view(int status)
__CPROVER_requires(status != 0)
__CPROVER_assigns()
__CPROVER_ensures(0)
;

/* ---- the iteration ---- */
#define TYPE        Chunk_m_type(pc)
#define IS(t)       (TYPE == t##_V)
#define PREPROC     ((Chunk_m_flags(pc) & PCF_IN_PREPROC_V) == PCF_IN_PREPROC_V)
#define ALIGNED     ((Chunk_m_flags(pc) & PCF_WAS_ALIGNED_V) == PCF_WAS_ALIGNED_V)
#define LEN         UT_size(Chunk_m_str(pc))
#define IS_CMT_BRANCH (IS(CT_COMMENT_MULTI) || IS(CT_COMMENT_CPP) || IS(CT_COMMENT_CPP_ENDIF) || IS(CT_COMMENT) || IS(CT_COMMENT_ENDIF))
#define IS_RAW      (IS(CT_JUNK) || IS(CT_IGNORED))
#define IS_REGULAR  (!IS(CT_NEWLINE) && !IS(CT_NL_CONT) && !IS_CMT_BRANCH && !IS_RAW && LEN > 0)
#define IS_INVISIBLE (!IS(CT_NEWLINE) && !IS(CT_NL_CONT) && !IS_CMT_BRANCH && !IS_RAW && LEN == 0)
#define IWT         optv_indent_with_tabs
/* the effective "indent with tabs" setting of the line this chunk is on (property C17: preprocessor lines obey pp_indent_with_tabs) */
#define EFF_IWT     (PREPROC ? pp_indent_with_tabs : (int)IWT)
#define NOTHING_ELSE_WRITTEN(otc, atu, ata, ac, cw) (g_otc_n == (otc) && g_atu_n == (atu) && g_ata_n == (ata) && g_ac_n == (ac) && g_cw_n == (cw))
#define OLD_COL     __CPROVER_old(CPD(column))
#define OLD_DNL     __CPROVER_old(CPD(did_newline))

void output_text_iteration_contract(struct Chunk *pc, int pp_indent_with_tabs, _Bool tracking_is_on)
__CPROVER_requires(__CPROVER_is_fresh(pc, SIZEOF_Chunk) && !Chunk_m_nullChunk(pc) && UT_FRESH_IN(Chunk_m_str(pc)))
__CPROVER_requires(!tracking_is_on)      /* standard output; the HTML tracking mode is a debugging aid outside the properties */
__CPROVER_requires(OPT_RANGE_indent_with_tabs && OPT_RANGE_sp_before_nl_cont && pp_indent_with_tabs >= 0 && pp_indent_with_tabs <= 2)
__CPROVER_requires(g_ev == 0 && g_otc_n == 0 && g_atu_n == 0 && g_ata_n == 0 && g_ac_n == 0 && g_ac_nl == 0 && g_cw_n == 0 && g_ri_n == 0 && g_dt_n == 0
                   && !g_otc_tabs_any && !g_ac_lit_any)
__CPROVER_requires(CPD(column) >= 1 && CPD(column) < (1UL << 40) && Chunk_m_column(pc) < (1UL << 40) && Chunk_m_origPrevSp(pc) < (1UL << 30) && Chunk_m_nlCount(pc) < (1UL << 40))
__CPROVER_assigns(g_ev, g_otc_n, g_otc_col, g_otc_ev, g_otc_col_at_call, g_otc_tabs_any, g_otc_tabs_last, g_atu_n, g_atu_ev, g_atu_text, g_atu_ign, g_atu_lit, g_atu_otas, g_atu_trail,
                  g_ata_n, g_ac_n, g_ac_nl, g_ac_ev_first_nl, g_ac_first, g_ac_last, g_ac_lit_any, g_cw_n, g_cw_kind, g_cw_pc, g_cw_otas, g_cw_trail, g_ri_n, g_dt_n,
                  OUT_FRAME, CPD(output_tab_as_space), CPD(output_trailspace), Chunk_m_column(pc))
/* C07-K3: disabled-region text and junk: raw, once, and nothing else -- no column logic, no blanks, no line break */
__CPROVER_ensures(IS_RAW ==> (NOTHING_ELSE_WRITTEN(0, 1, 0, 0, 0) && g_atu_text == Chunk_m_str(pc) && g_atu_ign && g_ri_n == 0))
__CPROVER_ensures(IS_RAW ==> (CPD(column) == OLD_COL && CPD(spaces) == __CPROVER_old(CPD(spaces)) && !CPD(did_newline) == !OLD_DNL))
/* chunks without text write nothing */
__CPROVER_ensures(IS_INVISIBLE ==> (NOTHING_ELSE_WRITTEN(0, 0, 0, 0, 0) && g_ri_n == 0 && CPD(column) == OLD_COL && !CPD(did_newline) == !OLD_DNL))
/* C03-K2 / C02: a regular chunk's own text, once, not ignored, literal exactly for CT_STRING, tabs not expanded, after moving to its column */
__CPROVER_ensures(IS_REGULAR ==> (g_atu_n == 1 && g_atu_text == Chunk_m_str(pc) && !g_atu_ign && !g_atu_lit == !IS(CT_STRING) && !g_atu_otas
                                  && g_ata_n == 0 && g_cw_n == 0 && g_ac_nl == 0))
__CPROVER_ensures(IS_REGULAR ==> (g_otc_n >= 1 && g_otc_ev < g_atu_ev && g_otc_col == Chunk_m_column(pc)))
/* columns never overlap: the text starts at or right of where the previous text ended */
__CPROVER_ensures((IS_REGULAR && !OLD_DNL) ==> (Chunk_m_column(pc) >= OLD_COL && g_otc_col_at_call == OLD_COL))
/* the only add_char a regular chunk may add is the forced TAB after #define */
__CPROVER_ensures(IS_REGULAR ==> (g_ac_n == ((IS(CT_PP_DEFINE) && optv_force_tab_after_define) ? 1 : 0) && (g_ac_n == 1 ==> g_ac_last == '\t')))
__CPROVER_ensures(IS_REGULAR ==> (!CPD(output_trailspace) && !g_atu_trail == !IS(CT_STRING_MULTI)))
/* C17-K6: first on a line: no tabs in the indentation when the effective setting is 0 (the code's third disjunct,
 * IsComment() && indent_with_tabs != 0, is dead here: comment chunks never reach this branch) */
__CPROVER_ensures((IS_REGULAR && OLD_DNL && EFF_IWT == 0) ==> !g_otc_tabs_any)
/* with setting 1 tabs are used up to the indent level only (first call), the rest of the way is blanks */
__CPROVER_ensures((IS_REGULAR && OLD_DNL && EFF_IWT == 1) ==> !g_otc_tabs_last)
__CPROVER_ensures((IS_REGULAR && OLD_DNL && EFF_IWT == 2) ==> g_otc_tabs_last)
/* C08: a newline chunk is exactly nl_count line breaks; blank-line indentation only where requested (cnt > 0, nl_column > 1) */
__CPROVER_ensures(IS(CT_NEWLINE) ==> (g_ac_n == Chunk_m_nlCount(pc) && g_ac_nl == Chunk_m_nlCount(pc) && g_atu_n == 0 && g_ata_n == 0 && g_cw_n == 0 && !g_ac_lit_any
                                      && CPD(did_newline) && CPD(column) == 1))
__CPROVER_ensures((IS(CT_NEWLINE) && (Chunk_m_nlColumn(pc) <= 1 || Chunk_m_nlCount(pc) <= 1)) ==> g_otc_n == 0)
__CPROVER_ensures((IS(CT_NEWLINE) && EFF_IWT == 0) ==> !g_otc_tabs_any)
/* the first line break of a newline chunk is written before any blank-line indentation: nothing precedes it in this iteration */
__CPROVER_ensures((IS(CT_NEWLINE) && Chunk_m_nlCount(pc) >= 1) ==> g_ac_ev_first_nl == 1)
/* backslash-newline: moved to its column without tabs (unless aligned and tabs are allowed everywhere), then '\\', then the line break */
__CPROVER_ensures(IS(CT_NL_CONT) ==> (g_ac_n == 2 && g_ac_first == '\\' && g_ac_last == '\n' && g_ac_nl == 1 && !g_ac_lit_any && g_otc_n == 1 && g_otc_ev < g_ev - 1
                                      && g_atu_n == 0 && g_ata_n == 0 && g_cw_n == 0 && CPD(did_newline) && CPD(column) == 1 && g_otc_col == Chunk_m_column(pc)))
__CPROVER_ensures((IS(CT_NL_CONT) && (!ALIGNED || EFF_IWT != 2)) ==> !g_otc_tabs_any)
/* C19: sp_before_nl_cont at the place it governs (not aligned): Remove -> none, Force -> exactly one; Ignore keeps what the input
 * had when it can be measured (rule "keep the same relative spacing"), Add -> at least one */
__CPROVER_ensures((IS(CT_NL_CONT) && !ALIGNED && optv_sp_before_nl_cont == 2) ==> g_otc_col == OLD_COL)
__CPROVER_ensures((IS(CT_NL_CONT) && !ALIGNED && optv_sp_before_nl_cont == 3) ==> g_otc_col == OLD_COL + 1)
__CPROVER_ensures((IS(CT_NL_CONT) && !ALIGNED && optv_sp_before_nl_cont == 0) ==> (g_otc_col == OLD_COL + Chunk_m_origPrevSp(pc) || g_otc_col == __CPROVER_old(Chunk_m_column(pc)) || g_otc_col == Chunk_m_origCol(pc)))
__CPROVER_ensures((IS(CT_NL_CONT) && !ALIGNED && optv_sp_before_nl_cont == 1) ==> (g_otc_col >= OLD_COL + 1 || g_otc_col == __CPROVER_old(Chunk_m_column(pc)) || g_otc_col == Chunk_m_origCol(pc)))
/* comments: the writer that matches the type, once, and nothing else from this function; tab conversion as configured */
__CPROVER_ensures(IS_CMT_BRANCH ==> (NOTHING_ELSE_WRITTEN(0, 0, 0, 0, 1) && g_cw_pc == pc && !g_cw_otas == !optv_cmt_convert_tab_to_spaces))
__CPROVER_ensures(IS(CT_COMMENT_MULTI) ==> g_cw_kind == (optv_cmt_indent_multi ? 1 : 2))
__CPROVER_ensures((IS(CT_COMMENT_CPP) || IS(CT_COMMENT_CPP_ENDIF)) ==> (g_cw_kind == 3 && g_cw_trail && !CPD(output_trailspace) == !__CPROVER_old(CPD(output_trailspace))))
__CPROVER_ensures((IS(CT_COMMENT) || IS(CT_COMMENT_ENDIF)) ==> g_cw_kind == 4)
;
