// Translation unit for the dispatch of output_text() (C02, C03-K2, C07-K3, C08, C17-K6, C19): ONE ITERATION of the
// "loop over the whole chunk list" of src/output.cpp output_text(), sliced verbatim as a fragment and wrapped into a
// function of its own whose parameters are the three locals of output_text() the body reads (pc, pp_indent_with_tabs,
// tracking_is_on).  What the extraction drops: the `for (pc = Chunk::GetHead(); pc->IsNotNullChunk(); pc = pc->GetNext())`
// header and its opening brace (a static supporting fact checks that this is what precedes the fragment), and the
// prologue / epilogue of output_text() (BOM, fragment shift, HTML tracking frame).
// Every emitter the body calls is declared here with an empty body and is replaced by a ghost-recording contract.
#include "token_enum.h"      /* from the working tree: -I <repo>/src */
#define VERIF_E_TOKEN
#include "base.h"
#include "containers.h"
#include "unctext.h"
#include "cpd.h"
#include "chunk.h"
#include "logger.h"
//@slice src/option.h struct iarf_e
//@slice src/option.h struct line_end_e
//@slice src/option.h struct token_pos_e
#include "options_gen.h"
#include "space_gen.h"
using namespace uncrustify;
inline int operator&(iarf_e a, iarf_e b) { return (int)a & (int)b; }     // flags<iarf_e> of src/enum_flags.h: bit test
struct FILE;
static FILE *stderr;
namespace std { static inline int max(int a, int b) { return((a > b) ? a : b); } static inline size_t max(size_t a, size_t b) { return((a > b) ? a : b); }
                static inline int min(int a, int b) { return((a < b) ? a : b); } static inline size_t min(size_t a, size_t b) { return((a < b) ? a : b); } }   // <algorithm>
#define fprintf(...) ((void)0)
#define EX_SOFTWARE 70
static Chunk g_pool[3];
static Chunk g_null_chunk;
Chunk *const Chunk::NullChunkPtr = &g_null_chunk;
static Chunk *any_chunk() { unsigned k = nondet_uint(); return (k < 3) ? &g_pool[k] : &g_null_chunk; }
Chunk *Chunk::GetPrev(const E_Scope) const { return any_chunk(); }
bool Chunk::TestFlags(unsigned long f) const { return (m_flags & f) == f; }   // flags<>::test of src/enum_flags.h
//@slice src/chunk.h fn Chunk::Is
//@slice src/chunk.h fn Chunk::IsNot
//@slice src/chunk.h fn Chunk::GetType
//@slice src/chunk.h fn Chunk::Len
//@slice src/chunk.h fn Chunk::GetOrigCol
//@slice src/chunk.h fn Chunk::GetOrigColEnd
//@slice src/chunk.h fn Chunk::GetOrigPrevSp
//@slice src/chunk.h fn Chunk::GetColumn
//@slice src/chunk.h fn Chunk::SetColumn
//@slice src/chunk.h fn Chunk::GetColumnIndent
//@slice src/chunk.h fn Chunk::GetNlCount
//@slice src/chunk.h fn Chunk::GetNlColumn
//@slice src/chunk.h fn Chunk::GetAfterTab
//@slice src/chunk.h fn Chunk::IsNewline
//@slice src/chunk.h fn Chunk::IsComment nth=0
//@slice src/chunk.h fn Chunk::IsPreproc
//@slice src/unc_text.cpp fn UncText::size
extern "C" {
// emitters and helpers called by the body: bodies never used, every one is replaced by its recording contract
void add_char(UINT32 ch, bool is_literal) { }
void add_text_ascii(const char *ascii_text) { }
void add_text_unc(const UncText &text, bool is_ignored, bool is_literal) { }
void output_to_column(size_t column, bool allow_tabs) { }
void output_comment_multi(Chunk *pc) { }
void output_comment_multi_simple(Chunk *pc) { }
Chunk *output_comment_cpp(Chunk *first) { return first; }
Chunk *output_comment_c(Chunk *first) { return first; }
void reindent_line(Chunk *pc, size_t column) { }
void DecodeTrackingData(Chunk *pc) { }
void exit(int status) { }
}
static void add_char(UINT32 ch) { add_char(ch, false); }                 // default argument of the real declaration
static void add_text(const char *ascii_text) { add_text_ascii(ascii_text); }
static void add_text(const UncText &text, bool is_ignored = false, bool is_literal = false) { add_text_unc(text, is_ignored, is_literal); }
extern "C" {
void output_text_iteration(Chunk *pc, int pp_indent_with_tabs, bool tracking_is_on)
{
   {  // the block closed by the last line of the fragment (the closing brace of the for statement)
//@slice src/output.cpp frag output_text_body /char copy\[1000\];/ /^   \} \/\/ loop over the whole chunk list/
}
}
#include "offsets_cpp.h"
#define CANARY(msg) __CPROVER_assert(0, "VACUITY_CANARY " msg)
extern "C" {
extern const unsigned CT_NEWLINE_V = CT_NEWLINE, CT_NL_CONT_V = CT_NL_CONT, CT_COMMENT_MULTI_V = CT_COMMENT_MULTI, CT_COMMENT_CPP_V = CT_COMMENT_CPP,
                      CT_COMMENT_CPP_ENDIF_V = CT_COMMENT_CPP_ENDIF, CT_COMMENT_V = CT_COMMENT, CT_COMMENT_ENDIF_V = CT_COMMENT_ENDIF, CT_JUNK_V = CT_JUNK,
                      CT_IGNORED_V = CT_IGNORED, CT_STRING_V = CT_STRING, CT_STRING_MULTI_V = CT_STRING_MULTI, CT_PP_DEFINE_V = CT_PP_DEFINE,
                      CT_PP_IGNORE_V = CT_PP_IGNORE, CT_BRACE_CLOSE_V = CT_BRACE_CLOSE, CT_CASE_COLON_V = CT_CASE_COLON, CT_COMMENT_WHOLE_V = CT_COMMENT_WHOLE,
                      CT_COMMENT_EMBED_V = CT_COMMENT_EMBED, CT_COMMENT_START_V = CT_COMMENT_START, CT_COMMENT_END_V = CT_COMMENT_END;
extern const unsigned long PCF_WAS_ALIGNED_V = PCF_WAS_ALIGNED, PCF_IN_PREPROC_V = PCF_IN_PREPROC;
extern size_t g_ev, g_otc_n, g_atu_n, g_ac_n, g_ac_nl, g_cw_n, g_ri_n; extern int g_cw_kind; extern unsigned g_ac_first; extern bool g_atu_ign, g_atu_lit, g_otc_tabs_any, g_otc_tabs_last;
extern Chunk *const P0 = &g_pool[0]; extern Chunk *const P1 = &g_pool[1]; extern Chunk *const P2 = &g_pool[2]; extern Chunk *const PN = &g_null_chunk;
void h_output_text_iteration()
{
   Chunk *pc;
   int pp = nondet_int();
   output_text_iteration(pc, pp, false);
   if (g_atu_n == 1 && g_atu_ign) { CANARY("output_text: raw (ignored) chunk"); }
   if (g_atu_n == 1 && !g_atu_ign && g_atu_lit) { CANARY("output_text: string literal chunk"); }
   if (g_atu_n == 1 && g_otc_n == 2 && g_otc_tabs_any && !g_otc_tabs_last) { CANARY("output_text: first on line, indent_with_tabs 1"); }
   if (g_atu_n == 1 && g_ri_n == 1) { CANARY("output_text: not first on line, reindented"); }
   if (g_ac_nl == 3 && g_otc_n == 2) { CANARY("output_text: newline chunk with blank-line indentation"); }
   if (g_ac_n == 2 && g_ac_first == '\\' && g_otc_n == 1) { CANARY("output_text: backslash-newline"); }
   if (g_cw_n == 1 && g_cw_kind == 3) { CANARY("output_text: cpp comment"); }
   if (g_ev == 0) { CANARY("output_text: invisible chunk"); }
}
}
