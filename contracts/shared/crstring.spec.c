/* tag_compare() (src/tokenizer/tokenize.cpp): "C03 literals survive intact" - a raw string literal R"tag( ... )tag" ends only at a `)` followed by the SAME
 * delimiter and `"`.  If a different delimiter is accepted, the literal is cut short and its remainder is tokenized and formatted as code. */
#include "common.h"
size_t g_tc_K;      /* arbitrary position inside the delimiter ("for every K") */
#define D_AT(i) (DI_data(d)[(i)])
_Bool tag_compare_contract(struct deque_int *d, size_t a_idx, size_t b_idx, size_t len)
__CPROVER_requires(DI_FRESH(d) && len <= DI_size(d) && a_idx <= DI_size(d) - len && b_idx <= DI_size(d) - len && g_tc_K < len)
__CPROVER_assigns()
/* true only if the two delimiters agree at every position */
__CPROVER_ensures(__CPROVER_return_value ==> D_AT(a_idx + g_tc_K) == D_AT(b_idx + g_tc_K))
/* the same place is trivially equal to itself; anything called different really differs somewhere (here: is not the same place) */
__CPROVER_ensures(!__CPROVER_return_value ==> a_idx != b_idx)
;
_Bool w_tag_compare(const struct deque_int *d, size_t a_idx, size_t b_idx, size_t len);
size_t nondet_size_t(void);
void h_tag_compare(void)
{
   const struct deque_int *d; size_t a = nondet_size_t(), b = nondet_size_t(), n = nondet_size_t();
   _Bool r = w_tag_compare(d, a, b, n);
   if (r && n > 2 && a != b) { __CPROVER_assert(0, "VACUITY_CANARY tag_compare: equal delimiters of several characters"); }
   if (!r) { __CPROVER_assert(0, "VACUITY_CANARY tag_compare: different delimiters"); }
}
