/* Contracts for the writer kernel of src/output.cpp (C03, C07, C08, C17, C02-K4).
 *
 * Abstraction of the output: the *item sequence* g_chs_* of env/sink.h. An item is a code point handed to
 * write_char(), or NL_MARK for one write_string(cpd.newline) (one line break in the configured style).
 * C09 proves that write_char emits exactly the encoding of its argument; write_string is proved there to call
 * write_char for each element of its text. */
#include "common.h"
#include "options_c.h"
#include "output_macros.h"
#define NL_MARK (-10)
extern _Bool numbering_status;
size_t g_J;

/* ---- callee contracts (views used by the callers in this file) ---- */
void write_char_contract(int ch)
__CPROVER_requires(g_chs_n < 4 * MAXCAP)
__CPROVER_assigns(CHS_FRAME)
__CPROVER_ensures(CHS_APPENDS_ONE(ch))
;
/* write_string is only ever called with cpd.newline in this kernel: that *is* the single line-break writer */
void write_string_contract(struct UncText *text)
__CPROVER_requires(text == CPD(newline))
__CPROVER_requires(g_chs_n < MAXCAP)
__CPROVER_assigns(CHS_FRAME)
__CPROVER_ensures(CHS_APPENDS_ONE(NL_MARK))
;
void print_numbering_contract(void)
__CPROVER_requires(!numbering_status)
__CPROVER_assigns()
;

/* ---- tab stops (src/prototypes.h) ---- */
/* next tab stop strictly right of col (col 0 is treated as 1), at most one tab width away, and on the tab grid
 * shifted by the fragment offset */
/* enforced once per tab size (case split over the 32 values the option range allows: a division by a constant is
 * cheap for the SAT back end, a division by a symbolic divisor is not); callers use the general form */
#ifdef TS
#define TS_CASE (tabsize == TS)
#else
#define TS_CASE 1
#endif
size_t calc_next_tab_column_contract(size_t col, size_t tabsize)
__CPROVER_requires(TS_CASE && tabsize >= 1 && tabsize <= 32 && col < (1UL << 32) && CPD(frag_cols) < (1U << 16))
__CPROVER_assigns()
__CPROVER_ensures(__CPROVER_return_value > (col == 0 ? 1 : col))
__CPROVER_ensures(__CPROVER_return_value <= (col == 0 ? 1 : col) + tabsize)
__CPROVER_ensures((__CPROVER_return_value - 1 + (CPD(frag_cols) > 0 ? CPD(frag_cols) - 1 : 0)) % tabsize == 0)
;
/* next_tab_column(col) is a pure function of (col, output_tab_size, cpd.frag_cols): it is denoted by the
 * uninterpreted function NTC in the contracts of its callers, so that "the same tab stop" can be stated without
 * re-doing the division.  Purity = empty assigns clause (proved) + lemma_ntc_deterministic (two calls agree). */
size_t next_tab_column_contract(size_t col)
__CPROVER_requires(col < (1UL << 32) && CPD(frag_cols) < (1U << 16) && optv_output_tab_size >= 1 && optv_output_tab_size <= 32)
__CPROVER_assigns()
__CPROVER_ensures(__CPROVER_return_value == NTC(col))
__CPROVER_ensures(__CPROVER_return_value > (col == 0 ? 1 : col))
__CPROVER_ensures(__CPROVER_return_value <= (col == 0 ? 1 : col) + optv_output_tab_size)
;
/* the same, without the NTC clause: this is what is enforced on the real function (NTC is its name, not a fact) */
size_t next_tab_column_bounds_contract(size_t col)
__CPROVER_requires(col < (1UL << 32) && CPD(frag_cols) < (1U << 16) && optv_output_tab_size >= 1 && optv_output_tab_size <= 32)
__CPROVER_assigns()
__CPROVER_ensures(__CPROVER_return_value > (col == 0 ? 1 : col))
__CPROVER_ensures(__CPROVER_return_value <= (col == 0 ? 1 : col) + optv_output_tab_size)
;

/* ---- add_spaces: flushes the pending blanks ---- */
#define K_IN(lo, hi) (g_chs_K >= (lo) && g_chs_K < (hi))
#define K_BELOW_OLD  (g_chs_K < __CPROVER_old(g_chs_n) ==> g_chs_at_K == __CPROVER_old(g_chs_at_K))
void add_spaces_contract(void)
__CPROVER_requires(g_chs_n < MAXCAP - 66000)
__CPROVER_assigns(CHS_FRAME, CPD(spaces))
__CPROVER_ensures(CPD(spaces) == 0 && g_chs_n == __CPROVER_old(g_chs_n) + __CPROVER_old(CPD(spaces)))
__CPROVER_ensures(K_IN(__CPROVER_old(g_chs_n), g_chs_n) ==> g_chs_at_K == ' ')
__CPROVER_ensures(K_BELOW_OLD)
__CPROVER_ensures(__CPROVER_old(CPD(spaces)) == 0 ==> g_chs_last == __CPROVER_old(g_chs_last))
;

/* ---- add_char ----
 * entry state: S spaces pending, column C, last_char L.  Let CRF = (L == '\r' && ch != '\n') (a lone CR is
 * turned into one line break now). S1/C1/n1 are the values after that step. */
#define OLD_L    __CPROVER_old(CPD(last_char))
#define CRF      (OLD_L == '\r' && ch != '\n')
#define S1       (CRF ? 0 : (size_t)__CPROVER_old(CPD(spaces)))
#define C1       (CRF ? (size_t)1 : __CPROVER_old(CPD(column)))
#define N1       (__CPROVER_old(g_chs_n) + (CRF ? 1 : 0))
#define EFF_IWT  ((CPD(in_preproc) != CT_PREPROC_V || optv_pp_indent_with_tabs == -1) ? (int)optv_indent_with_tabs : (int)optv_pp_indent_with_tabs)
#define TAB_EXPANDS (ch == '\t' && (CPD(output_tab_as_space) || (!is_literal && OLD_L == ' ' && EFF_IWT == 0)))
#define IS_BLANK_BUFFERED (ch == ' ' && !CPD(output_trailspace))
extern const unsigned CT_PREPROC_V;
#define ADD_CHAR_REQUIRES \
__CPROVER_requires(!numbering_status && g_chs_n < MAXCAP - (ch == '\t' ? 140000 : 70000)) \
__CPROVER_requires(CPD(spaces) < (ch == '\t' ? 65000 : 65100) && CPD(column) >= 1 && CPD(column) < (1UL << 31) + (ch == '\t' ? 0 : 64) && CPD(frag_cols) < (1U << 16)) \
__CPROVER_requires(OPT_RANGE_output_tab_size && OPT_RANGE_indent_with_tabs && OPT_RANGE_pp_indent_with_tabs) \
__CPROVER_requires(!(CPD(last_char) == '\r' && ch == '\t')) \
__CPROVER_requires(ch < 0x80000000u)
#define ADD_CHAR_ENSURES \
__CPROVER_ensures(K_IN(__CPROVER_old(g_chs_n), g_chs_n) ==> (g_chs_at_K != '\n' && g_chs_at_K != '\r')) \
__CPROVER_ensures(K_BELOW_OLD) \
__CPROVER_ensures((CRF && g_chs_K == __CPROVER_old(g_chs_n)) ==> g_chs_at_K == NL_MARK) \
__CPROVER_ensures(ch == '\n' ==> (g_chs_n == N1 + S1 + 1 && CPD(spaces) == 0 && CPD(column) == 1 && CPD(did_newline) && CPD(last_char) == '\n')) \
__CPROVER_ensures((ch == '\n' && K_IN(N1, N1 + S1)) ==> g_chs_at_K == ' ') \
__CPROVER_ensures((ch == '\n' && g_chs_K == N1 + S1) ==> g_chs_at_K == NL_MARK) \
__CPROVER_ensures(ch == '\r' ==> (g_chs_n == N1 && CPD(spaces) == 0 && CPD(column) == 1 && CPD(did_newline) && CPD(last_char) == '\r')) \
__CPROVER_ensures(TAB_EXPANDS ==> (CPD(column) == NTC(C1) && CPD(column) > C1 && CPD(column) <= C1 + optv_output_tab_size && CPD(last_char) == ' ')) \
__CPROVER_ensures((TAB_EXPANDS && !CPD(output_trailspace)) ==> (g_chs_n == N1 && CPD(spaces) == S1 + (CPD(column) - C1))) \
__CPROVER_ensures((TAB_EXPANDS && CPD(output_trailspace)) ==> (g_chs_n == N1 + S1 + (CPD(column) - C1) && CPD(spaces) == 0)) \
__CPROVER_ensures((TAB_EXPANDS && K_IN(N1, g_chs_n)) ==> g_chs_at_K == ' ') \
__CPROVER_ensures((IS_BLANK_BUFFERED) ==> (g_chs_n == N1 && CPD(spaces) == S1 + 1 && CPD(column) == C1 + 1 && CPD(last_char) == ' ')) \
__CPROVER_ensures((ch != '\n' && ch != '\r' && !TAB_EXPANDS && !IS_BLANK_BUFFERED) ==> \
                  (g_chs_n == N1 + S1 + 1 && CPD(spaces) == 0 && CPD(last_char) == (int)ch && g_chs_last == (int)ch)) \
__CPROVER_ensures((ch != '\n' && ch != '\r' && !TAB_EXPANDS && !IS_BLANK_BUFFERED && K_IN(N1, N1 + S1)) ==> g_chs_at_K == ' ') \
__CPROVER_ensures((ch != '\n' && ch != '\r' && !TAB_EXPANDS && !IS_BLANK_BUFFERED && g_chs_K == N1 + S1) ==> g_chs_at_K == (int)ch) \
__CPROVER_ensures((ch != '\n' && ch != '\r' && ch != '\t' && !IS_BLANK_BUFFERED) ==> CPD(column) == C1 + 1) \
__CPROVER_ensures((ch == '\t' && !TAB_EXPANDS) ==> (CPD(column) == NTC(C1) && CPD(column) > C1 && CPD(column) <= C1 + optv_output_tab_size)) \
__CPROVER_ensures((!CRF && ch != '\n' && ch != '\r') ==> CPD(did_newline) == __CPROVER_old(CPD(did_newline)))
#if 0 /* readable, commented form of the clauses; the two macros above hold exactly these lines */
/* size bounds, closed under the one level of recursion add_char('\t') -> add_char(' '):
 * UINT16 cpd.spaces holds fewer than 65000 pending blanks (lines shorter than that), columns below 2^31 */
__CPROVER_requires(!numbering_status && g_chs_n < MAXCAP - (ch == '\t' ? 140000 : 70000))
__CPROVER_requires(CPD(spaces) < (ch == '\t' ? 65000 : 65100) && CPD(column) >= 1 && CPD(column) < (1UL << 31) + (ch == '\t' ? 0 : 64) && CPD(frag_cols) < (1U << 16))
/* the property's "in-range configuration": documented ranges of the options read here (generated from options.h) */
__CPROVER_requires(OPT_RANGE_output_tab_size && OPT_RANGE_indent_with_tabs && OPT_RANGE_pp_indent_with_tabs)
/* call-site precondition (see DESIGN 2.8): a TAB is never handed over directly after a CR */
__CPROVER_requires(!(CPD(last_char) == '\r' && ch == '\t'))
__CPROVER_requires(ch < 0x80000000u)
/* (C08) no raw CR or LF ever reaches write_char: every line break is one NL_MARK item */
__CPROVER_ensures(K_IN(__CPROVER_old(g_chs_n), g_chs_n) ==> (g_chs_at_K != '\n' && g_chs_at_K != '\r'))
__CPROVER_ensures(K_BELOW_OLD)
/* a lone CR yields exactly one line break, first */
__CPROVER_ensures((CRF && g_chs_K == __CPROVER_old(g_chs_n)) ==> g_chs_at_K == NL_MARK)
/* ch == LF: the pending blanks, then exactly one line break */
__CPROVER_ensures(ch == '\n' ==> (g_chs_n == N1 + S1 + 1 && CPD(spaces) == 0 && CPD(column) == 1 && CPD(did_newline) && CPD(last_char) == '\n'))
__CPROVER_ensures((ch == '\n' && K_IN(N1, N1 + S1)) ==> g_chs_at_K == ' ')
__CPROVER_ensures((ch == '\n' && g_chs_K == N1 + S1) ==> g_chs_at_K == NL_MARK)
/* ch == CR: nothing written, pending blanks dropped */
__CPROVER_ensures(ch == '\r' ==> (g_chs_n == N1 && CPD(spaces) == 0 && CPD(column) == 1 && CPD(did_newline) && CPD(last_char) == '\r'))
/* TAB that is expanded (output_tab_as_space, or the tab-after-space guard with tabs disabled): blanks up to the next tab stop, no TAB item */
__CPROVER_ensures(TAB_EXPANDS ==> (CPD(column) == NTC(C1) && CPD(column) > C1 && CPD(column) <= C1 + optv_output_tab_size && CPD(last_char) == ' '))
__CPROVER_ensures((TAB_EXPANDS && !CPD(output_trailspace)) ==> (g_chs_n == N1 && CPD(spaces) == S1 + (CPD(column) - C1)))
__CPROVER_ensures((TAB_EXPANDS && CPD(output_trailspace)) ==> (g_chs_n == N1 + S1 + (CPD(column) - C1) && CPD(spaces) == 0))
__CPROVER_ensures((TAB_EXPANDS && K_IN(N1, g_chs_n)) ==> g_chs_at_K == ' ')
/* a blank is buffered, not written (unless trailing blanks are requested by the caller) */
__CPROVER_ensures((IS_BLANK_BUFFERED) ==> (g_chs_n == N1 && CPD(spaces) == S1 + 1 && CPD(column) == C1 + 1 && CPD(last_char) == ' '))
/* everything else: the pending blanks, then the character itself, unchanged */
__CPROVER_ensures((ch != '\n' && ch != '\r' && !TAB_EXPANDS && !IS_BLANK_BUFFERED) ==>
                  (g_chs_n == N1 + S1 + 1 && CPD(spaces) == 0 && CPD(last_char) == (int)ch && g_chs_last == (int)ch))
__CPROVER_ensures((ch != '\n' && ch != '\r' && !TAB_EXPANDS && !IS_BLANK_BUFFERED && K_IN(N1, N1 + S1)) ==> g_chs_at_K == ' ')
__CPROVER_ensures((ch != '\n' && ch != '\r' && !TAB_EXPANDS && !IS_BLANK_BUFFERED && g_chs_K == N1 + S1) ==> g_chs_at_K == (int)ch)
__CPROVER_ensures((ch != '\n' && ch != '\r' && ch != '\t' && !IS_BLANK_BUFFERED) ==> CPD(column) == C1 + 1)
__CPROVER_ensures((ch == '\t' && !TAB_EXPANDS) ==> (CPD(column) == NTC(C1) && CPD(column) > C1 && CPD(column) <= C1 + optv_output_tab_size))
/* did_newline is only ever set, never cleared, here */
__CPROVER_ensures((!CRF && ch != '\n' && ch != '\r') ==> CPD(did_newline) == __CPROVER_old(CPD(did_newline)))

#endif
void add_char_contract(unsigned int ch, _Bool is_literal)
ADD_CHAR_REQUIRES
__CPROVER_assigns(CHS_FRAME, CPD(spaces), CPD(column), CPD(last_char), CPD(did_newline))
ADD_CHAR_ENSURES
;

/* ---- ghost recorder of add_char calls: "the K-th call of add_char had arguments (ch, is_literal)" ----
 * Used as the callers' view of add_char (it has the same frame as add_char_contract and additionally records the
 * call); add_text / output_to_column / cmt_output_indent are specified as sequences of add_char calls, and
 * add_char_contract above says what each such call does. */
size_t g_ac_n, g_ac_K;
unsigned g_ac_ch_at_K;
_Bool  g_ac_lit_at_K, g_ac_seen_blank, g_ac_tab_after_blank;
/* recorder-only view: no precondition, arbitrary effect on add_char's frame, records the call.  Used where the
 * caller is specified purely as a sequence of add_char calls (add_text); the size preconditions of add_char
 * (pending blanks < 65000, column < 2^31, no TAB directly after CR) are then obligations of *that* caller's
 * callers and are listed under assumptions. */
void add_char_rec_contract(unsigned int ch, _Bool is_literal)
__CPROVER_requires(g_ac_n < 4 * MAXCAP)
__CPROVER_assigns(AC_FRAME, CHS_FRAME, CPD(spaces), CPD(column), CPD(last_char), CPD(did_newline))
__CPROVER_ensures(AC_APPENDS_ONE(ch, is_literal))
;
void add_char_callers_contract(unsigned int ch, _Bool is_literal)
ADD_CHAR_REQUIRES
__CPROVER_requires(g_ac_n < MAXCAP)
__CPROVER_assigns(AC_FRAME, CHS_FRAME, CPD(spaces), CPD(column), CPD(last_char), CPD(did_newline))
ADD_CHAR_ENSURES
__CPROVER_ensures(AC_APPENDS_ONE(ch, is_literal))
;

/* add_text(const UncText&, is_ignored, is_literal):
 *   is_ignored  => write_char(text[i]) for i = 0..size-1, in order, and nothing else (no column/space/newline logic:
 *                  cpd.column, cpd.spaces, cpd.last_char are not in the frame)                       [C07-K2]
 *   otherwise   => add_char(text[i], is_literal) for i = 0..size-1, in order, and nothing else       [C03-K1, C17-K1e] */
void add_text_ignored_contract(struct UncText *text, _Bool is_ignored, _Bool is_literal)
__CPROVER_requires(UT_FRESH(text) && is_ignored && g_chs_n < MAXCAP)
__CPROVER_assigns(CHS_FRAME)
__CPROVER_ensures(g_chs_n == __CPROVER_old(g_chs_n) + UT_size(text))
__CPROVER_ensures(K_IN(__CPROVER_old(g_chs_n), g_chs_n) ==> g_chs_at_K == UT_at(text, g_chs_K - __CPROVER_old(g_chs_n)))
__CPROVER_ensures(K_BELOW_OLD)
;
void add_text_regular_contract(struct UncText *text, _Bool is_ignored, _Bool is_literal)
__CPROVER_requires(UT_FRESH(text) && !is_ignored && g_ac_n < MAXCAP)
__CPROVER_assigns(AC_FRAME, CHS_FRAME, CPD(spaces), CPD(column), CPD(last_char), CPD(did_newline))
__CPROVER_ensures(g_ac_n == __CPROVER_old(g_ac_n) + UT_size(text))
__CPROVER_ensures((g_ac_K >= __CPROVER_old(g_ac_n) && g_ac_K < g_ac_n) ==>
                  (g_ac_ch_at_K == (unsigned)UT_at(text, g_ac_K - __CPROVER_old(g_ac_n)) && g_ac_lit_at_K == is_literal))
__CPROVER_ensures(g_ac_K < __CPROVER_old(g_ac_n) ==> (g_ac_ch_at_K == __CPROVER_old(g_ac_ch_at_K) && g_ac_lit_at_K == __CPROVER_old(g_ac_lit_at_K)))
;

/* Lemma (C03: a literal's characters are emitted unchanged, blanks included, tabs not expanded):
 * view the output as "items written so far followed by the pending blanks"; its length is P = g_chs_n + cpd.spaces.
 * One add_char(ch, is_literal = true) with output_tab_as_space off and ch not CR/LF extends that view by exactly
 * the character ch at position P.  By induction over add_text's call sequence the view grows by the literal's text. */

/* ---- add_text(const char*) as used by output_to_column / cmt_output_indent: the one-character strings " " and "\t" ---- */
#define BLANKS_REQUIRES \
__CPROVER_requires(!numbering_status && CPD(frag_cols) < (1U << 16) && CPD(last_char) != '\r') \
__CPROVER_requires(OPT_RANGE_output_tab_size && OPT_RANGE_indent_with_tabs && OPT_RANGE_pp_indent_with_tabs)
/* one step of "advance with blanks/tabs": */
#define ADVANCE_STEP_ENSURES \
__CPROVER_ensures(CPD(did_newline) == __CPROVER_old(CPD(did_newline))) \
__CPROVER_ensures(CPD(last_char) == ' ' || CPD(last_char) == '\t') \
__CPROVER_ensures(g_chs_n + CPD(spaces) <= __CPROVER_old(g_chs_n) + __CPROVER_old(CPD(spaces)) + (CPD(column) - __CPROVER_old(CPD(column)))) \
__CPROVER_ensures(g_chs_n >= __CPROVER_old(g_chs_n) && g_chs_n - __CPROVER_old(g_chs_n) <= __CPROVER_old(CPD(spaces)) + (CPD(column) - __CPROVER_old(CPD(column))))

void add_text_ascii_contract(const char *t)
__CPROVER_requires(__CPROVER_is_fresh(t, 2) && (t[0] == ' ' || t[0] == '\t') && t[1] == 0)
BLANKS_REQUIRES
__CPROVER_requires(CPD(column) >= 1 && CPD(column) < (1UL << 31) && CPD(spaces) < 65000 && g_chs_n < MAXCAP - 140000 && g_ac_n < MAXCAP)
__CPROVER_assigns(AC_FRAME, CHS_FRAME, CPD(spaces), CPD(column), CPD(last_char), CPD(did_newline))
__CPROVER_ensures(AC_APPENDS_ONE((unsigned)t[0], 0))
__CPROVER_ensures(t[0] == ' ' ==> CPD(column) == __CPROVER_old(CPD(column)) + 1)
__CPROVER_ensures(t[0] == '\t' ==> (CPD(column) == NTC(__CPROVER_old(CPD(column))) && CPD(column) > __CPROVER_old(CPD(column)) && CPD(column) <= __CPROVER_old(CPD(column)) + optv_output_tab_size))
ADVANCE_STEP_ENSURES
;

/* ---- output_to_column(column, allow_tabs): columns never move left; only blanks/tabs; tabs only if allowed ---- */
void output_to_column_contract(size_t column, _Bool allow_tabs)
BLANKS_REQUIRES
__CPROVER_requires(CPD(column) >= 1 && CPD(column) < (1UL << 30) && column < (1UL << 30) && g_ac_n < MAXCAP - (1UL << 31) && g_chs_n < MAXCAP - (1UL << 31))
/* UINT16 cpd.spaces: the pending blanks of one line stay below 65000 */
__CPROVER_requires(CPD(spaces) + (column > CPD(column) ? column - CPD(column) : 0) < 60000)
__CPROVER_assigns(AC_FRAME, CHS_FRAME, CPD(spaces), CPD(column), CPD(last_char), CPD(did_newline))
/* columns never move left, and the requested column is reached exactly [C02-K4] (with tabs: the tab written lands
 * on the stop computed before, next_column == NTC(cpd.column), carried through the loop invariant) */
__CPROVER_ensures(CPD(column) == (__CPROVER_old(CPD(column)) > column ? __CPROVER_old(CPD(column)) : column))
__CPROVER_ensures(CPD(did_newline) == 0)
/* every add_char call made is a blank or a tab, never literal; tabs only when allowed [C17-K3] */
__CPROVER_ensures((g_ac_K >= __CPROVER_old(g_ac_n) && g_ac_K < g_ac_n) ==> ((g_ac_ch_at_K == ' ' || (allow_tabs && g_ac_ch_at_K == '\t')) && !g_ac_lit_at_K))
/* tabs first, then blanks: no tab follows a blank within this call */
__CPROVER_ensures(!__CPROVER_old(g_ac_seen_blank) ==> !g_ac_tab_after_blank == !__CPROVER_old(g_ac_tab_after_blank))
__CPROVER_ensures(!allow_tabs ==> !g_ac_tab_after_blank == !__CPROVER_old(g_ac_tab_after_blank))
;

/* ---- cmt_output_indent(brace_col, base_col, column) ---- */
void cmt_output_indent_contract(size_t brace_col, size_t base_col, size_t column)
BLANKS_REQUIRES
__CPROVER_requires(CPD(column) >= 1 && CPD(column) < (1UL << 30) && column < (1UL << 30) && brace_col < (1UL << 30) && base_col < (1UL << 30))
__CPROVER_requires(g_ac_n < MAXCAP - (1UL << 31) && g_chs_n < MAXCAP - (1UL << 31))
__CPROVER_requires(CPD(spaces) + (column > CPD(column) ? column - CPD(column) : 0) + (brace_col > base_col ? brace_col : base_col) < 60000)
__CPROVER_assigns(AC_FRAME, CHS_FRAME, CPD(spaces), CPD(column), CPD(last_char), CPD(did_newline))
__CPROVER_ensures(CPD(column) >= __CPROVER_old(CPD(column)) && CPD(column) >= column)
__CPROVER_ensures(CPD(did_newline) == 0)
__CPROVER_ensures((g_ac_K >= __CPROVER_old(g_ac_n) && g_ac_K < g_ac_n) ==> ((g_ac_ch_at_K == ' ' || g_ac_ch_at_K == '\t') && !g_ac_lit_at_K))
/* with both tab options off no tab is produced at all [C17-K4] */
__CPROVER_ensures((!optv_indent_cmt_with_tabs && optv_indent_with_tabs == 0 && g_ac_K >= __CPROVER_old(g_ac_n) && g_ac_K < g_ac_n) ==> g_ac_ch_at_K == ' ')
__CPROVER_ensures(!__CPROVER_old(g_ac_seen_blank) ==> !g_ac_tab_after_blank == !__CPROVER_old(g_ac_tab_after_blank))
;
