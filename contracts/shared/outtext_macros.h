/* macros for the loop contracts of outtext_proofs.py */
#ifndef OUTTEXT_MACROS_H
#define OUTTEXT_MACROS_H
#include "options_c.h"
extern const unsigned long PCF_WAS_ALIGNED_V, PCF_IN_PREPROC_V;
extern struct Chunk *const P0, *const P1, *const P2, *const PN;
#endif
