// Translation unit for the tokenizer kernel (C02-K2, C06-K2, C07-K1, C08-K2..K4): TokenInfo, TokenContext
// (whole struct definitions), the white-space / newline primitives of src/tokenizer/tokenize.cpp, and the tail
// of tokenize() that chooses cpd.newline -- all sliced verbatim.
#include "token_enum.h"      /* from the working tree: -I <repo>/src */
#define VERIF_E_TOKEN
#include "base.h"
#include "containers.h"
#include "unctext.h"
#include "cpd.h"
#include "chunk.h"
#include "logger.h"
//@slice src/option.h struct iarf_e
//@slice src/option.h struct line_end_e
//@slice src/option.h struct token_pos_e
#include "options_gen.h"
using namespace uncrustify;
// value aliases of src/option_enum.h (generated file in the real build)
#define LE_COUNT(x)    cpd.le_counts[static_cast<size_t>(LE_ ## x)]
extern "C" {
// libc: isspace in the "C" locale (the set the C standard fixes for it)
int isspace(int c) { return c == ' ' || c == '\t' || c == '\n' || c == '\v' || c == '\f' || c == '\r'; }
#ifdef REAL_CSTR_ASSIGN
size_t strlen(const char *s) { size_t n = 0; while (s[n] != 0) { n++; } return n; }
#endif
//@slice src/unc_ctype.cpp fn unc_fix_ctype
//@slice src/unc_ctype.cpp fn unc_isspace
//@slice src/prototypes.h fn calc_next_tab_column
}
//@slice src/chunk.h fn Chunk::GetOrigPrevSp
//@slice src/chunk.h fn Chunk::SetOrigPrevSp
//@slice src/chunk.h fn Chunk::SetNlCount
#ifdef CR_STRING
//@slice src/chunk.h fn Chunk::GetNlCount ifdef=CR_STRING
void UncText::append(int ch) { }
#endif
//@slice src/chunk.h fn Chunk::SetAfterTab
//@slice src/chunk.h fn Chunk::Str
//@slice src/chunk.cpp fn Chunk::SetType
//@slice src/unc_text.cpp fn UncText::clear
#ifdef REAL_CSTR_ASSIGN
// proof tokenize_tail: the real UncText::operator=(const char*) / set(const char*) (loops over a string literal)
//@slice src/unc_text.cpp fn UncText::operator= nth=3 key=UncText_assign_cstr
//@slice src/unc_text.cpp fn UncText::set nth=4 key=UncText_set_cstr
#else
// other proofs use --apply-loop-contracts, under which DFCC cannot carry loops without a contract, and the
// mangled name UncText::set(this,ptr_const_char) cannot be given to --unwindset or to a loop-contract symbol map.
// TRUSTED stub: assignment of a string literal of length <= 2, loop free.
UncText &UncText::operator=(const char *t)
{
   size_t n = (t[0] == 0) ? 0 : ((t[1] == 0) ? 1 : ((t[2] == 0) ? 2 : 3));
   VASSERT(n <= 2, "stub UncText::operator=(const char*): literal of length <= 2");
   m_chars.resize(n);
   if (n > 0) { m_chars[0] = t[0]; }
   if (n > 1) { m_chars[1] = t[1]; }
   return(*this);
}
#endif
//@slice src/tokenizer/tokenize.cpp struct TokenInfo
//@slice src/tokenizer/tokenize.cpp struct TokenContext
extern "C" {
//@slice src/tokenizer/tokenize.cpp fn parse_whitespace
//@slice src/tokenizer/tokenize.cpp fn parse_bs_newline
//@slice src/tokenizer/tokenize.cpp fn parse_newline
//@slice src/tokenizer/tokenize.cpp fn parse_off_newlines
#ifdef CR_STRING
// proof parse_cr_string: the raw-string tokenizer. tag_compare is replaced by its proved contract; parse_suffix (literal suffix after the closing quote) by a contract
// "only moves the cursor forward, inside the data"; what is appended to the chunk text is not tracked here (no-op append).
bool tag_compare(const deque_int &d, size_t a_idx, size_t b_idx, size_t len) { return nondet_bool(); }
void parse_suffix(TokenContext &ctx, Chunk &pc, bool forstring = false) { }
//@slice src/tokenizer/tokenize.cpp fn parse_cr_string ifdef=CR_STRING
#endif
// the tail of tokenize(): choice of cpd.newline (fragment, wrapped into a function of its own)
void tokenize_tail()
{
//@slice src/tokenizer/tokenize.cpp frag tokenize_tail /Set the cpd.newline string for this file/ /^} \/\/ tokenize/
}
#include "offsets_cpp.h"
extern "C" {
extern const unsigned long OFF_TokenContext_c = (unsigned long)&(((TokenContext*)0)->c);
extern const unsigned long OFF_TokenContext_s = (unsigned long)&(((TokenContext*)0)->s);
extern const unsigned long OFF_TokenInfo_last_ch = (unsigned long)&(((TokenInfo*)0)->last_ch);
extern const unsigned long OFF_TokenInfo_idx = (unsigned long)&(((TokenInfo*)0)->idx);
extern const unsigned long OFF_TokenInfo_row = (unsigned long)&(((TokenInfo*)0)->row);
extern const unsigned long OFF_TokenInfo_col = (unsigned long)&(((TokenInfo*)0)->col);
extern const unsigned long SIZEOF_TokenContext = sizeof(TokenContext);
extern const unsigned CT_NEWLINE_V = CT_NEWLINE, CT_WHITESPACE_V = CT_WHITESPACE, CT_NL_CONT_V = CT_NL_CONT, CT_IGNORED_V = CT_IGNORED, CT_STRING_V = CT_STRING, CT_STRING_MULTI_V = CT_STRING_MULTI;
}
#define CANARY(msg) __CPROVER_assert(0, "VACUITY_CANARY " msg)
extern "C" {
void h_layout() { __CPROVER_assert(OFF_TokenContext_c == 8 && SIZEOF_TokenContext == 8 + 2 * 32, "layout: TokenContext = { data reference at offset 0; TokenInfo c; TokenInfo s }"); CANARY("layout end"); }
void h_parse_newline() { deque_int d; TokenContext ctx(d); bool r = parse_newline(ctx); if (r) { CANARY("parse_newline true"); } else { CANARY("parse_newline false"); } }
void h_parse_bs_newline() { deque_int d; TokenContext ctx(d); Chunk pc; bool r = parse_bs_newline(ctx, pc); if (r) { CANARY("parse_bs_newline true"); } else { CANARY("parse_bs_newline false"); } }
void h_parse_whitespace() { deque_int d; TokenContext ctx(d); Chunk pc; bool r = parse_whitespace(ctx, pc); if (r) { CANARY("parse_whitespace true"); } else { CANARY("parse_whitespace false"); } }
void h_parse_off_newlines() { deque_int d; TokenContext ctx(d); Chunk pc; bool r = parse_off_newlines(ctx, pc); if (r) { CANARY("parse_off_newlines true"); } else { CANARY("parse_off_newlines false"); } }
#ifdef CR_STRING
void h_parse_cr_string() { deque_int d; TokenContext ctx(d); Chunk pc; bool r = parse_cr_string(ctx, pc, nondet_size_t()); if (r) { CANARY("parse_cr_string true"); } else { CANARY("parse_cr_string false"); } }
#endif
void h_tokenize_tail() { tokenize_tail(); CANARY("tokenize_tail returns"); }
}
