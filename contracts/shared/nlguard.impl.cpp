// Translation unit for the "newline deletion guard" (C02, C03, C04): a newline chunk may be deleted or moved only if
// Chunk::SafeToDeleteNl() allows it - otherwise the code after a `//` comment moves into the comment, or a preprocessor directive
// loses its own line.  Three pieces, each a direct verification condition:
//   (1) the real Chunk::SafeToDeleteNl() (src/chunk.h): false after a CT_COMMENT_CPP chunk and across a preprocessor boundary;
//   (2) convert_brace() (src/braces.cpp, whole function): the newline next to a brace that becomes virtual is deleted only if safe;
//   (3) the newline handling of newlines_class_colon_pos() (src/newlines/class_colon_pos.cpp), sliced as a fragment from
//       `if (anc == IARF_REMOVE)` to `pc->Swap(next);`: newlines around the colon are deleted / swapped only if safe.
// In (2) and (3) SafeToDeleteNl() is an attribute of the chunk (ghost member m_ghostSafeNl); Chunk::Delete / Chunk::Swap assert the guard.
#include "token_enum.h"      /* from the working tree: -I <repo>/src */
#define VERIF_E_TOKEN
#include "base.h"
#include "containers.h"
#include "unctext.h"
#include "cpd.h"
#include "chunk.h"
#include "logger.h"
//@slice src/option.h struct iarf_e
//@slice src/option.h struct line_end_e
//@slice src/option.h struct token_pos_e
#include "options_gen.h"
#include "space_gen.h"
using namespace uncrustify;
inline int operator&(token_pos_e a, token_pos_e b) { return (int)a & (int)b; }     // flags<token_pos_e> bit test
#define MARK_CHANGE() (cpd.changes++)
static Chunk g_a, g_b, g_c, g_null_chunk;
Chunk *const Chunk::NullChunkPtr = &g_null_chunk;
extern "C" { unsigned g_del_n, g_swap_n; }
static Chunk *any3() { unsigned k = nondet_uint(); return (k == 0) ? &g_a : (k == 1) ? &g_b : (k == 2) ? &g_c : &g_null_chunk; }
bool Chunk::TestFlags(unsigned long f) const { return (m_flags & f) == f; }   // flags<>::test of src/enum_flags.h
//@slice src/chunk.h fn Chunk::Is
//@slice src/chunk.h fn Chunk::GetType
//@slice src/chunk.h fn Chunk::IsNewline
//@slice src/chunk.h fn Chunk::GetNlCount
//@slice src/chunk.h fn Chunk::SetNlCount
//@slice src/chunk.h fn Chunk::GetLevel
//@slice src/chunk.h fn Chunk::GetOrigLine
//@slice src/chunk.h fn Chunk::Str
//@slice src/chunk.h fn Chunk::IsSamePreproc
//@slice src/chunk.cpp fn Chunk::SetType
//@slice src/unc_text.cpp fn UncText::clear
#if defined(GUARD_DEF)
// (1) the real definition, over two fixed arbitrary neighbours
Chunk *Chunk::GetPrev(const E_Scope) const { return &g_b; }
Chunk *Chunk::GetNext(const E_Scope) const { return &g_c; }
//@slice src/chunk.h fn Chunk::SafeToDeleteNl
extern "C" { bool w_safe_to_delete_nl(Chunk *nl) { return nl->SafeToDeleteNl(); } }
#else
bool Chunk::SafeToDeleteNl() const { return m_ghostSafeNl; }
Chunk *Chunk::GetPrev(const E_Scope) const { return any3(); }
Chunk *Chunk::GetNext(const E_Scope) const { return any3(); }
Chunk *Chunk::GetPrevNc(const E_Scope) const { return any3(); }
Chunk *Chunk::GetNextNc(const E_Scope) const { return any3(); }
Chunk *Chunk::GetOpeningParen(E_Scope) const { return any3(); }
Chunk *Chunk::GetPrevType(const E_Token, int, E_Scope) const { return any3(); }
// the guard: a newline chunk is deleted / exchanged with its neighbour only if SafeToDeleteNl() holds for it
void Chunk::Delete(Chunk * &pc)
{
   __CPROVER_assert(!pc->IsNewline() || pc->m_ghostSafeNl, "postcondition: newline guard: a newline chunk is deleted only if SafeToDeleteNl()");
   g_del_n++; pc = NullChunkPtr;
}
void Chunk::Swap(Chunk *other)
{
   __CPROVER_assert(!other->IsNewline() || other->m_ghostSafeNl, "postcondition: newline guard: a token is moved across a newline only if SafeToDeleteNl()");
   g_swap_n++;
}
extern "C" {
//@slice src/braces.cpp fn convert_brace
void class_colon_newlines(Chunk *pc, Chunk *prev, Chunk *next, iarf_e anc, token_pos_e tpc)
{
   {  // the block of `if (pc->Is(tok))` the fragment lives in
//@slice src/newlines/class_colon_pos.cpp frag class_colon_newlines /^         if \(anc == IARF_REMOVE\)   / /^               pc->Swap\(next\);$/
            }
         }
   }
}
}
#endif
#include "offsets_cpp.h"
extern "C" {
extern Chunk *const CA = &g_a; extern Chunk *const CB = &g_b; extern Chunk *const CC = &g_c; extern Chunk *const CN = &g_null_chunk;
extern const unsigned CT_COMMENT_CPP_V = CT_COMMENT_CPP, CT_NEWLINE_V = CT_NEWLINE, CT_NL_CONT_V = CT_NL_CONT, CT_BRACE_OPEN_V = CT_BRACE_OPEN, CT_BRACE_CLOSE_V = CT_BRACE_CLOSE,
                      CT_VBRACE_OPEN_V = CT_VBRACE_OPEN, CT_VBRACE_CLOSE_V = CT_VBRACE_CLOSE;
extern const unsigned long PCF_IN_PREPROC_V = PCF_IN_PREPROC;
#if !defined(GUARD_DEF)
void w_convert_brace(Chunk *br) { convert_brace(br); }      // convert_brace is a file-static function
void w_class_colon_newlines(Chunk *pc, Chunk *prev, Chunk *next, int anc, int tpc) { class_colon_newlines(pc, prev, next, (iarf_e)anc, (token_pos_e)tpc); }
#endif
}
