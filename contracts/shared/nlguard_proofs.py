"""The newline deletion guard (C02, C03, C04): direct verification conditions, see nlguard.impl.cpp."""
import os
import sys
sys.path.insert(0, os.path.join(os.path.dirname(os.path.abspath(__file__)), '..', '..', 'tools'))
from prover import Proof  # noqa: E402

IMPL, SPEC = 'contracts/shared/nlguard.impl.cpp', 'contracts/shared/nlguard.spec.c'
FLAGS = ['--bounds-check', '--pointer-check', '--signed-overflow-check', '--div-by-zero-check', '--undefined-shift-check', '--unwinding-assertions']


def P(name, harness, **kw):
    return Proof(name, impl=IMPL, spec=SPEC, harness=harness, plain=True, no_contract=True, cbmc_flags=FLAGS, unwind=2, slice_formula=True,
                 nondet_static='.*(optv_|cpd).*', expect=['postcondition: '], rules={}, **kw)


def all_proofs():
    return [
        P('SafeToDeleteNl', 'h_safe_to_delete_nl', defines=['GUARD_DEF'], canaries=2, functions=['chunk.h:Chunk::SafeToDeleteNl', 'chunk.h:Chunk::IsSamePreproc'],
          mutants=[('comment_test_dropped', r'if \(tmp->Is\(CT_COMMENT_CPP\)\)', 'if (false)', 'postcondition')]),
        P('convert_brace', 'h_convert_brace', canaries=2, functions=['braces.cpp:convert_brace'],
          assumed=['SafeToDeleteNl() as an attribute of the chunk (its definition is proof SafeToDeleteNl); chunk navigation returns arbitrary chunks'],
          mutants=[('guard_replaced', r'if \(tmp->SafeToDeleteNl\(\)\)', 'if (tmp->GetPrev()->IsSamePreproc(tmp->GetNext()))', 'postcondition')]),
        P('class_colon_newlines', 'h_class_colon_newlines', canaries=2, functions=['newlines/class_colon_pos.cpp:newlines_class_colon_pos (fragment: newline handling around the colon)'],
          assumed=['SafeToDeleteNl() as an attribute of the chunk; prev / next are arbitrary chunks'],
          mutants=[('guard_on_wrong_chunk', r'next->IsNewline\(\)\n               && next->SafeToDeleteNl\(\)\)\n            \{\n               Chunk::Delete\(next\);', 'next->IsNewline()\n               && prev->SafeToDeleteNl())\n            {\n               Chunk::Delete(next);', 'postcondition'),
                   ('trail_guard_replaced', r'&& prev->SafeToDeleteNl\(\)\)\n            \{\n               pc->Swap\(prev\);', '&& prev->GetPrev()->IsSamePreproc(pc))\n            {\n               pc->Swap(prev);', 'postcondition')]),
    ]
