// Translation unit for the output.cpp writer kernel (C03, C07, C08, C17, C02-K4): add_spaces, add_char,
// add_text (3 overloads), output_to_column, cmt_output_indent and the tab-stop helpers of prototypes.h,
// sliced verbatim.  write_char()/write_string() are *declared only*: every proof replaces them by their
// code-point-sink contracts (the byte-level meaning of write_char is C09).
#include "token_enum.h"      /* from the working tree: -I <repo>/src */
#define VERIF_E_TOKEN
#include "base.h"
#include "containers.h"
#include "unctext.h"
#include "cpd.h"
#include "logger.h"
//@slice src/option.h struct iarf_e
//@slice src/option.h struct line_end_e
//@slice src/option.h struct token_pos_e
#include "options_gen.h"
using namespace uncrustify;
extern "C" {
// callees replaced by contract in every proof (bodies never used)
void write_char(int ch) { }
void write_string(const UncText &text) { }
//@slice src/prototypes.h fn calc_next_tab_column
//@slice src/prototypes.h fn next_tab_column
bool numbering_status;
void print_numbering() { }   // replaced by print_numbering_contract (requires the HTML line-numbering debug feature to be off)
//@slice src/output.cpp fn add_spaces
static void add_char(UINT32 ch, bool is_literal = false);
//@slice src/output.cpp fn add_char
// add_text is overloaded; mangled C++ names contain commas, which the loop-contract symbol map cannot carry.
// Rule D8 renames the two *definitions* to add_text_ascii / add_text_unc (C linkage); the overload set seen
// by callers is restored by the two forwarding shims below, so overload resolution at call sites is unchanged.
//@slice src/output.cpp fn add_text nth=0 key=add_text_ascii
//@slice src/output.cpp fn add_text nth=1 key=add_text_unc
}
static void add_text(const char *ascii_text) { add_text_ascii(ascii_text); }
static void add_text(const UncText &text, bool is_ignored = false, bool is_literal = false) { add_text_unc(text, is_ignored, is_literal); }
extern "C" {
//@slice src/output.cpp fn output_to_column
//@slice src/output.cpp fn cmt_output_indent
}
//@slice src/unc_text.cpp fn UncText::size
//@slice src/unc_text.cpp fn UncText::operator[]
#include "offsets_cpp.h"
#define CANARY(msg) __CPROVER_assert(0, "VACUITY_CANARY " msg)
extern "C" {
// C-linkage entry points for the overloaded / defaulted functions (contracts attach to these names)
void h_calc_next_tab_column() { calc_next_tab_column(nondet_size_t(), nondet_size_t()); CANARY("calc_next_tab_column returns"); }
void h_next_tab_column() { next_tab_column(nondet_size_t()); CANARY("next_tab_column returns"); }
void h_add_spaces() { add_spaces(); CANARY("add_spaces returns"); }
void h_add_char()
{
   UINT32 ch = nondet_uint(); bool lit = nondet_bool();
   add_char(ch, lit);
   if (ch == '\n') { CANARY("add_char newline"); }
   if (ch == '\t' && !lit && cpd.spaces > 1) { CANARY("add_char tab expanded"); }
   if (ch == 'x') { CANARY("add_char visible"); }
}
void h_add_text_unc() { UncText t; bool ign = nondet_bool(); add_text_unc(t, ign, nondet_bool()); if (ign) { CANARY("add_text ignored"); } else { CANARY("add_text regular"); } }
void h_add_text_ascii() { add_text_ascii(" "); CANARY("add_text_ascii returns"); }
void h_output_to_column() { bool tabs = nondet_bool(); output_to_column(nondet_size_t(), tabs); if (tabs) { CANARY("output_to_column tabs"); } else { CANARY("output_to_column spaces"); } }
void h_cmt_output_indent() { cmt_output_indent(nondet_size_t(), nondet_size_t(), nondet_size_t()); CANARY("cmt_output_indent returns"); }
}
extern "C" {
extern const unsigned CT_PREPROC_V = CT_PREPROC;
}
