/* Contracts for the white-space / newline primitives of src/tokenizer/tokenize.cpp
 * (C02-K2 "the tokenizer discards only white space", C06-K2 safety + progress, C08-K2..K4 census / choice of
 * terminator / whole terminators consumed, C07-K1 blank-line path of parse_ignored). */
#include "common.h"
#include "tokenizer_macros.h"
size_t g_J;                       /* arbitrary index into the input ("for all J") */
extern const unsigned CT_NEWLINE_V, CT_WHITESPACE_V, CT_NL_CONT_V, CT_IGNORED_V;
enum { LE_LF_I = 0, LE_CRLF_I = 1, LE_CR_I = 2 };   /* line_end_e order, checked against src/option.h by gen_consts */

#define OLD_IDX __CPROVER_old(TC_idx(ctx))
#define CONSUMED(j) ((j) >= OLD_IDX && (j) < TC_idx(ctx))

size_t calc_next_tab_column_contract(size_t col, size_t tabsize)
__CPROVER_requires(tabsize >= 1 && tabsize <= 32 && col < (1UL << 32) && CPD(frag_cols) < (1U << 16))
__CPROVER_assigns()
__CPROVER_ensures(__CPROVER_return_value > (col == 0 ? 1 : col))
__CPROVER_ensures(__CPROVER_return_value <= (col == 0 ? 1 : col) + tabsize)
;

/* ---- parse_newline: optional blanks, then exactly one line terminator (LF, CR LF or lone CR) ---- */
_Bool parse_newline_contract(struct TokenContext *ctx)
__CPROVER_requires(TC_FRESH(ctx) && OPT_RANGE_input_tab_size && CPD(frag_cols) < (1U << 16) && TC_NOT_MID_CRLF(ctx))
__CPROVER_assigns(TC_FRAME(ctx))
/* progress / restore (C06-K2) */
__CPROVER_ensures(__CPROVER_return_value ==> (TC_idx(ctx) > OLD_IDX && TC_idx(ctx) <= TC_size(ctx)))
__CPROVER_ensures(!__CPROVER_return_value ==> (TC_idx(ctx) == OLD_IDX && TC_row(ctx) == __CPROVER_old(TC_row(ctx))
                                               && TC_col(ctx) == __CPROVER_old(TC_col(ctx)) && TC_last(ctx) == __CPROVER_old(TC_last(ctx))))
/* only white space is consumed (C02-K2): every consumed element is a blank, except the terminator at the end */
__CPROVER_ensures((__CPROVER_return_value && CONSUMED(g_J) && !IS_BLANK(TC_at(ctx, g_J))) ==>
                  ((g_J == TC_idx(ctx) - 1 && IS_EOL(TC_at(ctx, g_J))) ||
                   (g_J == TC_idx(ctx) - 2 && TC_at(ctx, g_J) == '\r' && TC_at(ctx, g_J + 1) == '\n')))
__CPROVER_ensures(__CPROVER_return_value ==> IS_EOL(TC_at(ctx, TC_idx(ctx) - 1)))
/* the whole terminator is consumed: no stray LF of a CR LF pair is left behind (C08-K4) */
__CPROVER_ensures((__CPROVER_return_value && TC_at(ctx, TC_idx(ctx) - 1) == '\r') ==> (TC_idx(ctx) == TC_size(ctx) || TC_at(ctx, TC_idx(ctx)) != '\n'))
/* exactly one line is counted */
__CPROVER_ensures(__CPROVER_return_value ==> (TC_row(ctx) == __CPROVER_old(TC_row(ctx)) + 1 && TC_col(ctx) == 1))
__CPROVER_ensures(__CPROVER_return_value ==> (TC_last(ctx) == (size_t)TC_at(ctx, TC_idx(ctx) - 1) && TC_NOT_MID_CRLF(ctx)))
/* false exactly when the next non-blank is not a terminator */
__CPROVER_ensures((!__CPROVER_return_value && g_J >= OLD_IDX && g_J < TC_size(ctx) && IS_EOL(TC_at(ctx, g_J))) ==> g_J > OLD_IDX)
/* C08 "the most frequent terminator of the input (counted outside disabled regions)": this is the newline eater of disabled regions and of
 * ignored macro bodies (parse_off_newlines); the terminators it consumes do not vote in the census for newlines=auto */
__CPROVER_ensures(CPD(le_counts)[0] == __CPROVER_old(CPD(le_counts)[0]) && CPD(le_counts)[1] == __CPROVER_old(CPD(le_counts)[1]) && CPD(le_counts)[2] == __CPROVER_old(CPD(le_counts)[2]))
;

/* ---- parse_bs_newline: backslash, optional white space, one terminator -> CT_NL_CONT with nl_count 1 ---- */
_Bool parse_bs_newline_contract(struct TokenContext *ctx, struct Chunk *pc)
__CPROVER_requires(TC_FRESH(ctx) && OPT_RANGE_input_tab_size && CPD(frag_cols) < (1U << 16))
__CPROVER_requires(TC_idx(ctx) < TC_size(ctx) && TC_at(ctx, TC_idx(ctx)) == '\\')
__CPROVER_requires(__CPROVER_is_fresh(pc, SIZEOF_Chunk) && !Chunk_m_nullChunk(pc) && UT_FRESH_IN(Chunk_m_str(pc)) && DI_cap(UT_chars(Chunk_m_str(pc))) >= 2)
__CPROVER_assigns(TC_FRAME(ctx), Chunk_m_type(pc), Chunk_m_nlCount(pc), DI_size(UT_chars(Chunk_m_str(pc))), __CPROVER_object_whole(DI_data(UT_chars(Chunk_m_str(pc)))))
__CPROVER_ensures(__CPROVER_return_value ==> (TC_idx(ctx) > OLD_IDX + 1 && TC_idx(ctx) <= TC_size(ctx)))
__CPROVER_ensures(!__CPROVER_return_value ==> (TC_idx(ctx) == OLD_IDX && TC_row(ctx) == __CPROVER_old(TC_row(ctx)) && TC_col(ctx) == __CPROVER_old(TC_col(ctx))))
__CPROVER_ensures((__CPROVER_return_value && CONSUMED(g_J) && g_J > OLD_IDX) ==> IS_SPACE(TC_at(ctx, g_J)))
__CPROVER_ensures(__CPROVER_return_value ==> IS_EOL(TC_at(ctx, TC_idx(ctx) - 1)))
/* backslash + CR LF consumes the LF too (C08-K4) */
__CPROVER_ensures((__CPROVER_return_value && TC_at(ctx, TC_idx(ctx) - 1) == '\r') ==> (TC_idx(ctx) == TC_size(ctx) || TC_at(ctx, TC_idx(ctx)) != '\n'))
/* exactly one terminator: nothing before the last one or two consumed elements is CR/LF */
__CPROVER_ensures((__CPROVER_return_value && CONSUMED(g_J) && IS_EOL(TC_at(ctx, g_J))) ==>
                  (g_J == TC_idx(ctx) - 1 || (g_J == TC_idx(ctx) - 2 && TC_at(ctx, g_J) == '\r' && TC_at(ctx, g_J + 1) == '\n')))
__CPROVER_ensures(__CPROVER_return_value ==> (Chunk_m_type(pc) == CT_NL_CONT_V && Chunk_m_nlCount(pc) == 1
                                              && UT_size(Chunk_m_str(pc)) == 1 && UT_at(Chunk_m_str(pc), 0) == '\\'))
;

/* ---- parse_whitespace: consumes exactly the maximal run of white space; census of terminators ----
 * ghost census for the arbitrary position g_J: if a terminator starts at g_J inside the consumed range then the
 * counter of its kind is at least one higher; and the three counters together grow by exactly nl_count. */
_Bool parse_whitespace_contract(struct TokenContext *ctx, struct Chunk *pc)
__CPROVER_requires(TC_FRESH(ctx) && OPT_RANGE_input_tab_size && CPD(frag_cols) < (1U << 16))
__CPROVER_requires(__CPROVER_is_fresh(pc, SIZEOF_Chunk) && !Chunk_m_nullChunk(pc) && UT_FRESH_IN(Chunk_m_str(pc)))
__CPROVER_requires(V8_FRESH_IN(UncText_m_logtext(Chunk_m_str(pc))) && V8_cap(UncText_m_logtext(Chunk_m_str(pc))) >= 1)
__CPROVER_requires(CPD(le_counts)[0] < (1U << 30) && CPD(le_counts)[1] < (1U << 30) && CPD(le_counts)[2] < (1U << 30))
__CPROVER_assigns(TC_FRAME(ctx), Chunk_m_type(pc), Chunk_m_nlCount(pc), Chunk_m_origPrevSp(pc), Chunk_m_afterTab(pc),
                  DI_size(UT_chars(Chunk_m_str(pc))), V8_size(UncText_m_logtext(Chunk_m_str(pc))),
                  __CPROVER_object_whole(V8_data(UncText_m_logtext(Chunk_m_str(pc)))),
                  CPD(le_counts)[0], CPD(le_counts)[1], CPD(le_counts)[2])
__CPROVER_ensures(__CPROVER_return_value == (TC_idx(ctx) > OLD_IDX))
__CPROVER_ensures(TC_idx(ctx) >= OLD_IDX && TC_idx(ctx) <= TC_size(ctx))
/* only white space is consumed, and all of it (C02-K2) */
__CPROVER_ensures(CONSUMED(g_J) ==> IS_SPACE(TC_at(ctx, g_J)))
__CPROVER_ensures(TC_idx(ctx) < TC_size(ctx) ==>
                  (!IS_SPACE(TC_at(ctx, TC_idx(ctx))) || (TC_at(ctx, TC_idx(ctx)) == '\f' && optv_use_form_feed_no_more_as_whitespace_character)))
/* census (C08-K2) */
#define LEC(i) (CPD(le_counts)[i])
#define DLEC(i) (LEC(i) - __CPROVER_old(CPD(le_counts)[i]))
__CPROVER_ensures(LEC(0) >= __CPROVER_old(CPD(le_counts)[0]) && LEC(1) >= __CPROVER_old(CPD(le_counts)[1]) && LEC(2) >= __CPROVER_old(CPD(le_counts)[2]))
__CPROVER_ensures(__CPROVER_return_value ==> Chunk_m_nlCount(pc) == (size_t)DLEC(0) + DLEC(1) + DLEC(2))
__CPROVER_ensures((CONSUMED(g_J) && TC_at(ctx, g_J) == '\n' && (g_J == OLD_IDX || TC_at(ctx, g_J - 1) != '\r')) ==> DLEC(LE_LF_I) >= 1)
__CPROVER_ensures((CONSUMED(g_J) && TC_at(ctx, g_J) == '\r' && g_J + 1 < TC_size(ctx) && TC_at(ctx, g_J + 1) == '\n') ==> DLEC(LE_CRLF_I) >= 1)
__CPROVER_ensures((CONSUMED(g_J) && TC_at(ctx, g_J) == '\r' && (g_J + 1 >= TC_size(ctx) || TC_at(ctx, g_J + 1) != '\n')) ==> DLEC(LE_CR_I) >= 1)
/* a kind that does not occur is not counted */
__CPROVER_ensures(DLEC(LE_LF_I) + DLEC(LE_CRLF_I) + DLEC(LE_CR_I) <= TC_idx(ctx) - OLD_IDX)
__CPROVER_ensures(__CPROVER_return_value ==> (Chunk_m_type(pc) == (Chunk_m_nlCount(pc) > 0 ? CT_NEWLINE_V : CT_WHITESPACE_V) && UT_size(Chunk_m_str(pc)) == 0))
;

/* ---- parse_off_newlines: a maximal run of (blanks* terminator) lines -> one CT_NEWLINE with nl_count = number of
 * terminators; only blanks and terminators are consumed (C07: "white-space-only lines may be emptied") ---- */
_Bool parse_off_newlines_contract(struct TokenContext *ctx, struct Chunk *pc)
__CPROVER_requires(TC_FRESH(ctx) && OPT_RANGE_input_tab_size && CPD(frag_cols) < (1U << 16) && TC_NOT_MID_CRLF(ctx))
__CPROVER_requires(__CPROVER_is_fresh(pc, SIZEOF_Chunk) && !Chunk_m_nullChunk(pc))
__CPROVER_assigns(TC_FRAME(ctx), Chunk_m_type(pc), Chunk_m_nlCount(pc))
__CPROVER_ensures(__CPROVER_return_value == (TC_idx(ctx) > OLD_IDX))
__CPROVER_ensures(TC_idx(ctx) >= OLD_IDX && TC_idx(ctx) <= TC_size(ctx))
__CPROVER_ensures(CONSUMED(g_J) ==> (IS_BLANK(TC_at(ctx, g_J)) || IS_EOL(TC_at(ctx, g_J))))
__CPROVER_ensures(__CPROVER_return_value ==> (Chunk_m_type(pc) == CT_NEWLINE_V && Chunk_m_nlCount(pc) >= 1
                                              && Chunk_m_nlCount(pc) == TC_row(ctx) - __CPROVER_old(TC_row(ctx))
                                              && IS_EOL(TC_at(ctx, TC_idx(ctx) - 1))))
__CPROVER_ensures(!__CPROVER_return_value ==> (TC_row(ctx) == __CPROVER_old(TC_row(ctx)) && TC_col(ctx) == __CPROVER_old(TC_col(ctx))
                                               && TC_last(ctx) == __CPROVER_old(TC_last(ctx)) && Chunk_m_nlCount(pc) == __CPROVER_old(Chunk_m_nlCount(pc))))
__CPROVER_ensures(TC_NOT_MID_CRLF(ctx))
/* C08: line breaks of a disabled region do not vote in the terminator census */
__CPROVER_ensures(CPD(le_counts)[0] == __CPROVER_old(CPD(le_counts)[0]) && CPD(le_counts)[1] == __CPROVER_old(CPD(le_counts)[1]) && CPD(le_counts)[2] == __CPROVER_old(CPD(le_counts)[2]))
;

/* ---- tokenize() tail: the terminator written for this file (C08-K3) ---- */
void tokenize_tail_contract(void)
__CPROVER_requires(UT_FRESH_IN(CPD(newline)) && DI_cap(UT_chars(CPD(newline))) >= 2 && OPT_RANGE_newlines)
__CPROVER_assigns(DI_size(UT_chars(CPD(newline))), __CPROVER_object_whole(DI_data(UT_chars(CPD(newline)))))
#define NL_IS_LF   (UT_size(CPD(newline)) == 1 && UT_at(CPD(newline), 0) == '\n')
#define NL_IS_CRLF (UT_size(CPD(newline)) == 2 && UT_at(CPD(newline), 0) == '\r' && UT_at(CPD(newline), 1) == '\n')
#define NL_IS_CR   (UT_size(CPD(newline)) == 1 && UT_at(CPD(newline), 0) == '\r')
__CPROVER_ensures(NL_IS_LF || NL_IS_CRLF || NL_IS_CR)
__CPROVER_ensures(optv_newlines == LE_LF_I ==> NL_IS_LF)
__CPROVER_ensures(optv_newlines == LE_CRLF_I ==> NL_IS_CRLF)
__CPROVER_ensures(optv_newlines == LE_CR_I ==> NL_IS_CR)
/* auto: the most frequent terminator of the input, ties LF > CRLF > CR */
__CPROVER_ensures((optv_newlines == 3 && LEC(0) >= LEC(1) && LEC(0) >= LEC(2)) ==> NL_IS_LF)
__CPROVER_ensures((optv_newlines == 3 && LEC(1) > LEC(0) && LEC(1) >= LEC(2)) ==> NL_IS_CRLF)
__CPROVER_ensures((optv_newlines == 3 && LEC(2) > LEC(0) && LEC(2) > LEC(1)) ==> NL_IS_CR)
;

/* ---- head of parse_next() (C07-K5): while processing is off, parse_ignored is tried before any other tokenizer ---- */
size_t g_pn_calls;        /* tokenizers called so far */
int    g_pn_first;        /* which one was called first: 1 parse_ignored, 2 parse_macro */
_Bool  g_pi_ret, g_pm_ret;
extern const unsigned CT_NONE_V;
_Bool parse_ignored_view(struct TokenContext *ctx, struct Chunk *pc)
__CPROVER_assigns(g_pn_calls, g_pn_first, g_pi_ret, TC_FRAME(ctx), CPD(unc_off), Chunk_m_type(pc), Chunk_m_nlCount(pc))
__CPROVER_ensures(g_pn_calls == __CPROVER_old(g_pn_calls) + 1 && g_pn_first == (__CPROVER_old(g_pn_calls) == 0 ? 1 : __CPROVER_old(g_pn_first)))
__CPROVER_ensures(!g_pi_ret == !__CPROVER_return_value)
;
_Bool parse_macro_view(struct TokenContext *ctx, struct Chunk *pc, const struct Chunk *prev_pc)
__CPROVER_assigns(g_pn_calls, g_pn_first, g_pm_ret, TC_FRAME(ctx), Chunk_m_type(pc), Chunk_m_nlCount(pc))
__CPROVER_ensures(g_pn_calls == __CPROVER_old(g_pn_calls) + 1 && g_pn_first == (__CPROVER_old(g_pn_calls) == 0 ? 2 : __CPROVER_old(g_pn_first)))
__CPROVER_ensures(!g_pm_ret == !__CPROVER_return_value)
;
_Bool parse_next_head_contract(struct TokenContext *ctx, struct Chunk *pc, const struct Chunk *prev_pc)
__CPROVER_requires(TC_FRESH(ctx) && __CPROVER_is_fresh(pc, SIZEOF_Chunk) && !Chunk_m_nullChunk(pc) && g_pn_calls == 0)
__CPROVER_assigns(g_pn_calls, g_pn_first, g_pi_ret, g_pm_ret, TC_FRAME(ctx), CPD(unc_off), Chunk_m_type(pc), Chunk_m_nlCount(pc), Chunk_m_origLine(pc),
                  Chunk_m_origCol(pc), Chunk_m_column(pc), Chunk_m_flags(pc))
/* end of input: nothing is tried */
__CPROVER_ensures(__CPROVER_old(TC_idx(ctx)) >= TC_size(ctx) ==> (!__CPROVER_return_value && g_pn_calls == 0))
/* inside a disabled region the line capture comes first, and when it takes the text nothing else is asked */
__CPROVER_ensures((__CPROVER_old(TC_idx(ctx)) < TC_size(ctx) && __CPROVER_old(CPD(unc_off))) ==> (g_pn_calls >= 1 && g_pn_first == 1))
__CPROVER_ensures((__CPROVER_old(TC_idx(ctx)) < TC_size(ctx) && __CPROVER_old(CPD(unc_off)) && g_pi_ret) ==> (__CPROVER_return_value && g_pn_calls == 1))
/* outside a disabled region parse_ignored is not consulted at all */
__CPROVER_ensures(!__CPROVER_old(CPD(unc_off)) ==> (g_pn_calls == 0 || g_pn_first == 2))
/* macro blocks only when disable_processing_nl_cont is set */
__CPROVER_ensures(!optv_disable_processing_nl_cont ==> (g_pn_calls == 0 || (g_pn_calls == 1 && g_pn_first == 1)))
/* the chunk handed to the tokenizers starts at the cursor */
__CPROVER_ensures(g_pn_calls == 0 && __CPROVER_old(TC_idx(ctx)) < TC_size(ctx) ==> (Chunk_m_origLine(pc) == TC_row(ctx) && Chunk_m_origCol(pc) == TC_col(ctx) && Chunk_m_nlCount(pc) == 0 && Chunk_m_flags(pc) == 0))
;

/* ---- the trailing-blank strip of tokenize() (C17-K1t: chunk texts do not end in blanks; C03/C02: a backslash never becomes the
 * last character of a comment by stripping - that would turn the comment into a line continuation and swallow the next line) ---- */
size_t g_strip_K;       /* arbitrary index ("for all K") */
#define ST_STR   Chunk_m_str(chunk)
#define ST_SIZE  UT_size(ST_STR)
#define ST_OLD   __CPROVER_old(UT_size(Chunk_m_str(chunk)))
extern struct Chunk *const SC;
#define chunk SC
size_t tokenize_strip_contract(size_t col)
__CPROVER_requires(!Chunk_m_nullChunk(chunk) && UT_FRESH_IN(Chunk_m_str(chunk)) && UT_size(Chunk_m_str(chunk)) < (1UL << 30) && col < (1UL << 40))
__CPROVER_assigns(DI_size(UT_chars(Chunk_m_str(chunk))), Chunk_m_origColEnd(chunk))
/* only a suffix is removed, and everything removed is a blank or a tab */
__CPROVER_ensures(ST_SIZE <= ST_OLD && __CPROVER_return_value == ST_OLD - ST_SIZE && Chunk_m_origColEnd(chunk) == col - (ST_OLD - ST_SIZE))
__CPROVER_ensures((g_strip_K >= ST_SIZE && g_strip_K < ST_OLD) ==> (UT_at(ST_STR, g_strip_K) == ' ' || UT_at(ST_STR, g_strip_K) == '\t'))
/* disabled-region text is never stripped (C07) */
__CPROVER_ensures(Chunk_m_type(chunk) == CT_IGNORED_V ==> ST_SIZE == ST_OLD)
/* C17: afterwards the text is empty, or does not end in a blank, or ends in backslash + one blank (kept on purpose) */
__CPROVER_ensures(Chunk_m_type(chunk) != CT_IGNORED_V ==> (ST_SIZE == 0 || (UT_at(ST_STR, ST_SIZE - 1) != ' ' && UT_at(ST_STR, ST_SIZE - 1) != '\t')
                                                            || (ST_SIZE >= 2 && UT_at(ST_STR, ST_SIZE - 2) == '\\')))
/* C03 / C02: stripping never exposes a backslash as the last character */
__CPROVER_ensures(ST_SIZE < ST_OLD ==> (ST_SIZE == 0 || UT_at(ST_STR, ST_SIZE - 1) != '\\'))
;
#undef chunk

/* ---- parse_cr_string (raw string literal R"tag( ... )tag"): C06 progress / restore / termination and memory safety for every input, including one that ends inside the literal ---- */
_Bool tag_compare_env_contract(struct deque_int *d, size_t a_idx, size_t b_idx, size_t len)
/* the precondition of the proved contract of tag_compare (contracts/shared/crstring.spec.c): both delimiters lie inside the data */
__CPROVER_requires(len <= DI_size(d) && a_idx <= DI_size(d) - len && b_idx <= DI_size(d) - len)
__CPROVER_assigns()
__CPROVER_ensures(1)
;
void parse_suffix_contract(struct TokenContext *ctx, struct Chunk *pc, _Bool forstring)
__CPROVER_requires(TC_idx(ctx) <= TC_size(ctx))
__CPROVER_assigns(TC_FRAME(ctx))
__CPROVER_ensures(TC_idx(ctx) >= OLD_IDX && TC_idx(ctx) <= TC_size(ctx))
;
extern const unsigned CT_STRING_V, CT_STRING_MULTI_V;
_Bool parse_cr_string_contract(struct TokenContext *ctx, struct Chunk *pc, size_t q_idx)
__CPROVER_requires(TC_FRESH(ctx) && OPT_RANGE_input_tab_size && CPD(frag_cols) < (1U << 16))
/* call site (parse_next): ctx.peek(q_idx) == '"' for a prefix of at most 3 characters (R, LR, uR, UR, u8R) */
__CPROVER_requires(q_idx <= 3 && TC_idx(ctx) + q_idx < TC_size(ctx))
__CPROVER_requires(__CPROVER_is_fresh(pc, SIZEOF_Chunk) && !Chunk_m_nullChunk(pc) && UT_FRESH_IN(Chunk_m_str(pc)) && Chunk_m_nlCount(pc) < (1UL << 40))
#define CR_LOG(pc) UncText_m_logtext(Chunk_m_str(pc))       /* the UTF-8 copy of the text kept for log messages: UncText::clear() resets it to "\0" */
__CPROVER_requires(V8_FRESH_IN(CR_LOG(pc)) && V8_cap(CR_LOG(pc)) >= 1)
__CPROVER_assigns(TC_FRAME(ctx), Chunk_m_type(pc), Chunk_m_nlCount(pc), DI_size(UT_chars(Chunk_m_str(pc))), V8_size(CR_LOG(pc)), __CPROVER_object_whole(V8_data(CR_LOG(pc))))
/* progress or restore */
__CPROVER_ensures(__CPROVER_return_value ==> (TC_idx(ctx) > OLD_IDX + q_idx && TC_idx(ctx) <= TC_size(ctx)))
__CPROVER_ensures(!__CPROVER_return_value ==> (TC_idx(ctx) == OLD_IDX && TC_row(ctx) == __CPROVER_old(TC_row(ctx)) && TC_col(ctx) == __CPROVER_old(TC_col(ctx))))
__CPROVER_ensures(__CPROVER_return_value ==> (Chunk_m_type(pc) == CT_STRING_V || Chunk_m_type(pc) == CT_STRING_MULTI_V))
;
