"""C09 Encoding is transparent — kernel proofs over src/unicode.cpp (verbatim slices)."""
import os
import sys
sys.path.insert(0, os.path.join(os.path.dirname(os.path.abspath(__file__)), '..', '..', 'tools'))
from prover import Proof  # noqa: E402

IMPL = 'contracts/C09/unicode.impl.cpp'
SPEC = 'contracts/C09/unicode.spec.c'

RULES = {
    'is_ascii': [('D1', {})],
    'write_utf8': [('D1', {})],
}

U8SZ = lambda p: 'V8_size(%s)' % p
U8 = lambda p, i: 'V8_data(%s)[%s]' % (p, i)

L_is_ascii = [dict(
    fn='is_ascii', id=0, vars=['__i0', 'data', 'non_ascii_cnt', 'zero_cnt'],
    assigns='__i0, *non_ascii_cnt, *zero_cnt',
    inv='__i0 <= V8_size(data) && *non_ascii_cnt <= __i0 && *zero_cnt <= __i0'
        ' && ((g_J < __i0 && (V8_data(data)[g_J] == 0 || V8_data(data)[g_J] >= 0x80)) ==> (*non_ascii_cnt + *zero_cnt) >= 1)'
        ' && ((g_J < __i0 && V8_data(data)[g_J] == 0) ==> *zero_cnt >= 1)'
        ' && ((*non_ascii_cnt + *zero_cnt) >= 1 ==> __i0 >= 1)',
    decreases='V8_size(data) - __i0')]

L_decode_bytes = [dict(
    fn='decode_bytes', id=0, vars=['idx', 'in_data', 'out_data'],
    assigns='idx, __CPROVER_object_whole(DI_data(out_data))',
    inv='idx <= V8_size(in_data) && DI_size(out_data) == V8_size(in_data)'
        ' && (g_J < idx ==> DI_data(out_data)[g_J] == V8_data(in_data)[g_J])',
    decreases='V8_size(in_data) - idx')]

L_decode_utf8 = [
    dict(fn='decode_utf8', id=0, vars=['idx', 'cnt', 'in_data', 'out_data'],
         assigns='idx, cnt, DI_size(out_data), __CPROVER_object_whole(DI_data(out_data))',
         inv='idx <= V8_size(in_data) && DI_size(out_data) <= idx',
         decreases='V8_size(in_data) - idx'),
    dict(fn='decode_utf8', id=1, vars=['idx', 'cnt', 'ch', 'in_data'],
         assigns='idx, cnt, ch',
         inv='idx <= V8_size(in_data) && idx >= __CPROVER_loop_entry(idx) && cnt >= 0 && cnt <= 5 && ch >= 0 && ch <= (0x7fffffff >> (6 * cnt))',
         decreases='cnt'),
]

L_decode_utf16 = [
    dict(fn='decode_utf16', id=0, vars=['idx', 'in_data', 'out_data'],
         assigns='idx, DI_size(out_data), __CPROVER_object_whole(DI_data(out_data))',
         inv='idx <= V8_size(in_data) && (idx & 1) == 0 && (V8_size(in_data) & 1) == 0 && DI_size(out_data) <= (idx >> 1)',
         decreases='V8_size(in_data) - idx'),
]

L_write_string = [
    dict(fn='write_string', id=0, vars=['idx', 'text'],
         assigns='idx, CHS_FRAME',
         inv='idx <= DI_size(UncText_m_chars(text)) && g_chs_n == __CPROVER_loop_entry(g_chs_n) + idx'
             ' && ((g_chs_K >= __CPROVER_loop_entry(g_chs_n) && g_chs_K < g_chs_n) ==> g_chs_at_K == DI_data(UncText_m_chars(text))[g_chs_K - __CPROVER_loop_entry(g_chs_n)])'
             ' && (g_chs_K < __CPROVER_loop_entry(g_chs_n) ==> g_chs_at_K == __CPROVER_loop_entry(g_chs_at_K))',
         decreases='DI_size(UncText_m_chars(text)) - idx')]

WB = 'write_byte/write_byte_file_contract'


def P(name, **kw):
    kw.setdefault('impl', IMPL)
    kw.setdefault('spec', SPEC)
    kw.setdefault('rules', RULES)
    return Proof(name, **kw)


NEED_OPTIONS = True
PROOFS = [
    P('is_ascii', enforce='is_ascii/is_ascii_contract', loops=L_is_ascii, canaries=2,
      functions=['unicode.cpp:is_ascii'], expect=['is_ascii_contract.postcondition'],
      mutants=[('mask_0x80_to_0x40', r'value & 0x80', 'value & 0x40', 'postcondition')]),
    P('decode_bytes', enforce='decode_bytes/decode_bytes_contract', loops=L_decode_bytes,
      functions=['unicode.cpp:decode_bytes'], expect=['decode_bytes_contract.postcondition'],
      mutants=[('skip_first', r'size_t idx = 0; idx < in_data', 'size_t idx = 1; idx < in_data', 'postcondition|loop_invariant')]),
    P('encode_utf8', enforce='encode_utf8/encode_utf8_contract', canaries=2,
      functions=['unicode.cpp:encode_utf8'], expect=['encode_utf8_contract.postcondition'],
      mutants=[('shift12_to_11', r'\(ch >> 12\)\);', '(ch >> 11));', 'postcondition'),
               ('boundary_0x800', r'ch < 0x0800', 'ch <= 0x0800', 'postcondition')]),
    P('decode_utf8_safe', harness='h_decode_utf8', enforce='decode_utf8/decode_utf8_safe_contract', loops=L_decode_utf8, canaries=2,
      functions=['unicode.cpp:decode_utf8'], expect=['decode_utf8_safe_contract.postcondition', 'loop_decreases'],
      note='any byte vector of any length: memory safety, termination (decreases), |out| <= |in|',
      mutants=[('drop_bounds_test', r'cnt-- > 0\s*&& idx < in_data.size\(\)', 'cnt-- > 0', 'container precondition|loop_invariant')]),
    P('decode_utf8_single', harness='h_decode_utf8', enforce='decode_utf8/decode_utf8_single_contract', unwind=8, canaries=1, dead_ok=['decode_utf8 false'],
      functions=['unicode.cpp:decode_utf8'], expect=['decode_utf8_single_contract.postcondition'],
      note='input length is fixed by the precondition (<= 6 bytes): loops unwound 8 with unwinding assertions, complete for this contract',
      mutants=[('mask_1F_to_0F', r'ch &= 0x1F;', 'ch &= 0x0F;', 'postcondition'),
               ('shift6_to_5', r'\(ch << 6\)', '(ch << 5)', 'postcondition')]),
    P('decode_utf8_bom_single', harness='h_decode_utf8', enforce='decode_utf8/decode_utf8_bom_single_contract', unwind=11, canaries=1, dead_ok=['decode_utf8 false'],
      functions=['unicode.cpp:decode_utf8'], expect=['decode_utf8_bom_single_contract.postcondition'],
      note='input length fixed by the precondition (<= 9 bytes): complete for this contract',
      mutants=[('bom_skip_2', r'idx = 3;  // skip it', 'idx = 2;', 'postcondition')]),
    P('decode_utf8_malformed', harness='h_decode_utf8', enforce='decode_utf8/decode_utf8_malformed_contract', unwind=8, canaries=2,
      functions=['unicode.cpp:decode_utf8'], expect=['decode_utf8_malformed_contract.postcondition'],
      note='input length 1..6 by precondition: complete for this contract',
      mutants=[('accept_short', r'if \(cnt >= 0\)', 'if (cnt > 0)', 'postcondition'),
               ('cont_mask', r'\(tmp & 0xC0\) != 0x80', '(tmp & 0x80) != 0x80', 'postcondition')]),
    P('lemma_utf8_roundtrip', no_contract=True,
      replace=['encode_utf8/encode_utf8_contract', 'decode_utf8/decode_utf8_single_contract'],
      functions=['lemma: decode_utf8(encode_utf8(c)) == [c] for all c >= 0, c != U+FEFF'], expect=['lemma utf8 round trip'],
      note='lemma over the two contracts (both replaced by their contracts, each enforced in its own proof)'),
    P('get_word', enforce='get_word/get_word_contract', functions=['unicode.cpp:get_word'], expect=['get_word_contract.postcondition'],
      mutants=[('swap_endian', r'else if \(be\)', 'else if (!be)', 'postcondition')]),
    P('decode_utf16_safe', harness='h_decode_utf16', enforce='w_decode_utf16/decode_utf16_safe_contract', loops=L_decode_utf16, canaries=2,
      replace=['get_word/get_word_contract'],
      functions=['unicode.cpp:decode_utf16'], expect=['decode_utf16_safe_contract.postcondition', 'loop_decreases'],
      note='any byte vector of any length: memory safety, termination, |out| <= |in|/2'),
    P('decode_utf16_single', harness='h_decode_utf16', enforce='w_decode_utf16/decode_utf16_single_contract', unwind=5, canaries=1, dead_ok=['decode_utf16 false'],
      functions=['unicode.cpp:decode_utf16', 'unicode.cpp:get_word (inlined)'], expect=['decode_utf16_single_contract.postcondition'],
      note='input length fixed by the precondition (4 or 6 bytes): complete for this contract',
      mutants=[('surrogate_shift', r'ch <<= 10;', 'ch <<= 9;', 'postcondition'),
               ('bom_swapped', r'enc = char_encoding_e::e_UTF16_BE;\n   \}\n   else if \(  \(in_data\[0\] == 0xff\)', 'enc = char_encoding_e::e_UTF16_LE;\n   }\n   else if (  (in_data[0] == 0xff)', 'postcondition')]),
    P('decode_utf16_malformed', harness='h_decode_utf16', enforce='w_decode_utf16/decode_utf16_malformed_contract', unwind=5, canaries=2,
      functions=['unicode.cpp:decode_utf16'], expect=['decode_utf16_malformed_contract.postcondition'],
      note='input length 3..6 by precondition: complete for this contract',
      mutants=[('accept_lone_low', r'\|\| ch >= 0xE000\)', '|| ch >= 0xDC00)', 'postcondition')]),
    P('decode_bom', enforce='w_decode_bom/decode_bom_contract', canaries=2, functions=['unicode.cpp:decode_bom'],
      expect=['decode_bom_contract.postcondition'],
      mutants=[('utf8_bom_byte', r'\(in_data\[1\] == 0xbb\)', '(in_data[1] == 0xbf)', 'postcondition')]),
    P('decode_unicode', impl='contracts/C09/unicode_du.impl.cpp', enforce='w_decode_unicode/decode_unicode_contract', canaries=4,
      replace=['c_decode_bom/decode_bom_contract', 'c_decode_utf16/decode_utf16_safe_contract', 'is_ascii/is_ascii_contract',
               'decode_bytes/decode_bytes_contract', 'decode_utf8/decode_utf8_safe_contract'],
      functions=['unicode.cpp:decode_unicode'], expect=['decode_unicode_contract.postcondition'],
      note='all five callees replaced by the contracts enforced on them in their own proofs; decode_bom/decode_utf16 through enum<->unsigned adapters',
      mutants=[('bom_flag_dropped', r'has_bom = true;', 'has_bom = false;', 'postcondition'),
               ('byte_becomes_ascii', r'enc = char_encoding_e::e_BYTE;', 'enc = char_encoding_e::e_ASCII;', 'postcondition'),
               ('utf16_without_bom_kept_when_refused', r'if \(decode_utf16\(in_data, out_data, enc\)\)\n      \{\n         return\(true\);\n      \}', 'if (decode_utf16(in_data, out_data, enc))\n      {\n         return(true);\n      }\n      return(false);', 'postcondition')]),
    P('write_byte_file', harness='h_write_byte', enforce='write_byte/write_byte_file_contract', functions=['unicode.cpp:write_byte'], expect=['write_byte_file_contract.postcondition'],
      mutants=[('mask_7f', r'\(ch & 0xff\) == ch', '(ch & 0x7f) == ch', 'postcondition')]),
    P('write_byte_bout', harness='h_write_byte', enforce='write_byte/write_byte_bout_contract', functions=['unicode.cpp:write_byte'],
      expect=['write_byte_bout_contract.postcondition'],
      mutants=[('bout_skipped', r'cpd.bout->push_back\(static_cast<UINT8>\(ch\)\);', ';', 'postcondition')]),
    P('write_utf8', enforce='write_utf8/write_utf8_contract', replace=['encode_utf8/encode_utf8_contract', WB], unwind=8,
      functions=['unicode.cpp:write_utf8'], expect=['write_utf8_contract.postcondition'],
      note='loop over the <= 6 bytes produced by encode_utf8 (bounded by its contract): unwound 8, complete',
      mutants=[]),
    P('write_utf16', enforce='write_utf16/write_utf16_contract', replace=[WB], canaries=1,
      functions=['unicode.cpp:write_utf16'], expect=['write_utf16_contract.postcondition'],
      mutants=[('w2_mask', r'\(v1 & 0x3ff\)', '(v1 & 0x1ff)', 'postcondition'),
               ('le_order', r'write_byte\(w1 & 0xff\);\n         write_byte\(w1 >> 8\);', 'write_byte(w1 >> 8);\n         write_byte(w1 & 0xff);', 'postcondition')]),
    P('write_bom', enforce='write_bom/write_bom_contract', replace=[WB, 'write_utf16/write_utf16_contract'],
      functions=['unicode.cpp:write_bom'], expect=['write_bom_contract.postcondition'],
      mutants=[('bom_le_be', r'write_utf16\(0xfeff, false\)', 'write_utf16(0xfeff, true)', 'postcondition')]),
    P('write_char', enforce='write_char/write_char_contract',
      replace=[WB, 'write_utf8/write_utf8_contract', 'write_utf16/write_utf16_contract'],
      functions=['unicode.cpp:write_char'], expect=['write_char_contract.postcondition'],
      mutants=[('le_as_be', r'write_utf16\(ch, false\)', 'write_utf16(ch, true)', 'postcondition'),
               ('byte_no_mask', r'write_byte\(ch & 0xff\)', 'write_byte(ch)', 'postcondition')]),
    P('write_string', enforce='write_string/write_string_contract', replace=['write_char/ws_write_char_contract'],
      loops=L_write_string, functions=['unicode.cpp:write_string', 'unc_text.cpp:UncText::size', 'unc_text.cpp:UncText::operator[]'],
      expect=['write_string_contract.postcondition'],
      note='ws_write_char_contract is the code-point-sink view of write_char (appends exactly ch); write_char_contract proves the byte-level meaning',
      mutants=[('start_at_1', r'size_t idx = 0; idx < text.size\(\)', 'size_t idx = 1; idx < text.size()', 'postcondition|loop_invariant')]),
]

EXPLANATION = ('Kernel of C09: the UTF-8/UTF-16 codec and the encoding-detection policy of src/unicode.cpp, sliced verbatim and '
               'verified against contracts written from RFC 3629/2279 and Unicode D91; round trips hold for a symbolic code point '
               '(all 2^31 non-negative values for UTF-8, all 1,112,064 scalar values for UTF-16).')
K = ['K1 encode_utf8 appends exactly utf8(c)', 'K2 decode_utf8(utf8(c)) == [c] (with and without BOM); malformed UTF-8 refused',
     'K3 write_utf16/decode_utf16 round trip per scalar value; lone surrogates / odd length / truncated pair refused',
     'K4 decode_unicode detection policy (BOM <=> has_bom, enc per BOM, ASCII only for 7-bit non-NUL, BYTE/ASCII are byte-wise pass-through, never refuses BOM-less input)',
     'K5 write_byte/write_utf8/write_utf16/write_bom/write_char/write_string: bytes reaching the sink are exactly the encoding of the code point',
     'K6 uncrustify_file: cpd.enc / cpd.bom policy (utf8_force, utf8_byte, utf8_bom; UTF-16 always with BOM)']
G = ['all formatting passes operate on code points only and route every output character through write_char (not proved here)',
     'decode(concat) == concat(decode): the multi-code-point sequence lemma is proved only per single code point plus safety/termination for any length',
     'no pass stub of uncrustify_file has cpd.enc / cpd.bom in its frame (static fact: only uncrustify.cpp assigns them)']


def static_facts(repo):
    import re
    import subprocess
    out = subprocess.run(['grep', '-rnE', r'\bfputc\s*\(|\bfwrite\s*\(|fputs\s*\(', os.path.join(repo, 'src'), '--include=*.cpp'],
                         stdout=subprocess.PIPE, text=True).stdout
    bad = [l for l in out.splitlines() if not re.search(r'/(unicode|backup|logger|universalindentgui|uncrustify|unc_tools|md5|option|args|keywords|language_names|log_rules|detect|uncrustify_emscripten|output)\.cpp:', l)]
    # (save_option_file() in option.cpp writes the *configuration* file to its own stream `pfile`: not formatter output)
    fputc_sites = [l for l in out.splitlines() if 'fputc' in l and 'universalindentgui' not in l and '/uncrustify.cpp:' not in l and not re.search(r'/option\.cpp:\d+:.*fputc\([^,]+, pfile\)', l)]
    ok = not bad and len(fputc_sites) == 1 and '/unicode.cpp:' in fputc_sites[0]
    return [('fputc(…, cpd.fout) in unicode.cpp write_byte() is the only byte writer of the formatter', ok, '; '.join(fputc_sites + bad)[:400])]


def proofs(tier, workroot):
    """static list + the driver proof (uncrustify_file: shared with C04; its pass stubs are generated per run)"""
    import importlib.util
    here = os.path.dirname(os.path.abspath(__file__))
    sp = importlib.util.spec_from_file_location('c04proofs', os.path.join(here, '..', 'C04', 'proofs.py'))
    c04 = importlib.util.module_from_spec(sp)
    sp.loader.exec_module(c04)
    return list(PROOFS) + [q for q in c04.proofs(tier, workroot) if q.name == 'uncrustify_file']      # only the driver proof (C04's own kernels stay with C04)

sys.path.insert(0, os.path.join(os.path.dirname(os.path.abspath(__file__)), '..', '..', 'tools'))
import replay_lib  # noqa: E402
REPLAY = replay_lib.make_replay(replay_lib.scenario_encoding)
