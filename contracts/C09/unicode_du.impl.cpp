// Translation unit for decode_unicode (C09-K4): the real decode_unicode, with every callee replaced by its
// contract.  decode_bom() and decode_utf16() take `char_encoding_e &`, a type no contract written in C can name
// (C and C++ enum types are distinct in CBMC), so they are reached through the two adapters below, which only
// convert the enum to unsigned and call a C-typed function that is replaced by the *same* contract that is
// enforced on the real function (through the mirror-image wrapper w_decode_bom / w_decode_utf16 in
// unicode.impl.cpp).
#include "base.h"
#include "containers.h"
#include "unctext.h"
#include "cpd.h"
using namespace std;
extern "C" {
bool c_decode_bom(const vector_UINT8 &in, unsigned *enc) { return nondet_bool(); }      // body never used: replaced by decode_bom_contract
bool c_decode_utf16(const vector_UINT8 &in, deque_int &out, unsigned *enc) { return nondet_bool(); }   // replaced by decode_utf16_safe_contract
bool is_ascii(const vector_UINT8 &data, size_t &non_ascii_cnt, size_t &zero_cnt) { return nondet_bool(); }   // replaced by is_ascii_contract
bool decode_bytes(const vector_UINT8 &in_data, deque_int &out_data) { return nondet_bool(); }                 // replaced by decode_bytes_contract
bool decode_utf8(const vector_UINT8 &in_data, deque_int &out_data) { return nondet_bool(); }                  // replaced by decode_utf8_safe_contract
static bool decode_bom(const vector_UINT8 &in_data, char_encoding_e &enc) { unsigned e = (unsigned)enc; bool r = c_decode_bom(in_data, &e); enc = (char_encoding_e)e; return r; }
static bool decode_utf16(const vector_UINT8 &in_data, deque_int &out_data, char_encoding_e &enc) { unsigned e = (unsigned)enc; bool r = c_decode_utf16(in_data, out_data, &e); enc = (char_encoding_e)e; return r; }
//@slice src/unicode.cpp fn decode_unicode
bool w_decode_unicode(const vector_UINT8 &in, deque_int &out, unsigned *enc, bool *has_bom) { char_encoding_e e = (char_encoding_e)*enc; bool r = decode_unicode(in, out, e, *has_bom); *enc = (unsigned)e; return r; }
}
#include "offsets_cpp.h"
#define CANARY(msg) __CPROVER_assert(0, "VACUITY_CANARY " msg)
extern "C" {
int g_ch;
void h_decode_unicode()
{
   vector_UINT8 i; deque_int o; unsigned e; bool b;
   bool r = w_decode_unicode(i, o, &e, &b);
   if (r && e == 1) { CANARY("decode_unicode BYTE result"); }
   if (r && e == 2 && !b) { CANARY("decode_unicode UTF8 without BOM"); }
   if (r && e == 4 && b) { CANARY("decode_unicode UTF16_BE with BOM"); }
   if (!r) { CANARY("decode_unicode refuses"); }
}
}
