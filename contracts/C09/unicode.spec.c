/* Contracts for src/unicode.cpp (properties C09, C06-K1, C12-K2).
 * Postconditions come from RFC 3629 / RFC 2279 (UTF-8, incl. the 5- and 6-byte forms the code documents),
 * Unicode 15 ch.3 D91 (UTF-16) and from the statement of property C09; preconditions and frames from the
 * code and its call sites. */
#include "common.h"

/* ---------- specification functions (pure) ---------- */
/* number of bytes of the UTF-8 form of code point c (RFC 2279 table) */
int utf8_len(int c)
{
   if (c < 0) { return 0; }
   if (c < 0x80) { return 1; }
   if (c < 0x800) { return 2; }
   if (c < 0x10000) { return 3; }
   if (c < 0x200000) { return 4; }
   if (c < 0x4000000) { return 5; }
   return 6;
}

/* k-th byte (0-based) of the UTF-8 form of c: generic "prefix | payload bits" formulation */
unsigned char utf8_byte(int c, int k)
{
   int n = utf8_len(c);
   if (n == 1) { return (unsigned char)c; }
   if (k == 0)
   {
      /* n leading one bits, then a zero, then the top payload bits */
      unsigned prefix = (0xFF00u >> n) & 0xFFu;
      return (unsigned char)(prefix | ((unsigned)c >> (6 * (n - 1))));
   }
   return (unsigned char)(0x80u | (((unsigned)c >> (6 * (n - 1 - k))) & 0x3Fu));
}

/* UTF-16 (D91): number of 16-bit units, and the units */
int is_scalar(int c) { return (c >= 0 && c < 0xD800) || (c >= 0xE000 && c < 0x110000); }
int utf16_units(int c) { return !is_scalar(c) ? 0 : (c < 0x10000 ? 1 : 2); }
unsigned utf16_unit(int c, int k)
{
   if (c < 0x10000) { return (unsigned)c; }
   unsigned v = (unsigned)c - 0x10000u;
   return k == 0 ? (0xD800u + (v >> 10)) : (0xDC00u + (v & 0x3FFu));
}
/* j-th byte of the UTF-16 form with the given endianness */
unsigned char utf16_byte(int c, int be, int j)
{
   unsigned u = utf16_unit(c, j / 2);
   int hi = ((j % 2) == 0) == (be != 0);
   return (unsigned char)(hi ? (u >> 8) : (u & 0xFF));
}

/* ghost parameters for the single-code-point decoder contracts and the ghost indices */
extern int g_ch;
size_t g_J;   /* arbitrary index ("for all J") */
_Bool  g_be;

/* ---------- is_ascii ---------- */
/* true  <=>  every byte is in 1..127   (stated for the arbitrary index g_J) */
_Bool is_ascii_contract(struct vector_UINT8 *data, size_t *non_ascii_cnt, size_t *zero_cnt)
__CPROVER_requires(V8_FRESH(data))
__CPROVER_requires(__CPROVER_is_fresh(non_ascii_cnt, sizeof(size_t)) && __CPROVER_is_fresh(zero_cnt, sizeof(size_t)))
__CPROVER_assigns(*non_ascii_cnt, *zero_cnt)
__CPROVER_ensures(__CPROVER_return_value == ((*non_ascii_cnt + *zero_cnt) == 0))
__CPROVER_ensures(*non_ascii_cnt <= V8_size(data) && *zero_cnt <= V8_size(data))
__CPROVER_ensures(g_J < V8_size(data) ==>
                  (__CPROVER_return_value ==> (V8_data(data)[g_J] > 0 && V8_data(data)[g_J] < 0x80)))
__CPROVER_ensures(g_J < V8_size(data) ==>
                  ((V8_data(data)[g_J] == 0 || V8_data(data)[g_J] >= 0x80) ==> !__CPROVER_return_value))
__CPROVER_ensures(g_J < V8_size(data) ==> (V8_data(data)[g_J] == 0 ==> *zero_cnt >= 1))
;

/* ---------- decode_bytes: byte-wise pass-through ---------- */
_Bool decode_bytes_contract(struct vector_UINT8 *in, struct deque_int *out)
__CPROVER_requires(V8_FRESH(in) && DI_FRESH(out) && DI_cap(out) >= V8_size(in))
__CPROVER_assigns(DI_size(out), __CPROVER_object_whole(DI_data(out)))
__CPROVER_ensures(__CPROVER_return_value == 1)
__CPROVER_ensures(DI_size(out) == V8_size(in))
__CPROVER_ensures(g_J < V8_size(in) ==> DI_data(out)[g_J] == V8_data(in)[g_J])
;

/* ---------- encode_utf8: appends exactly utf8(ch) ---------- */
void encode_utf8_contract(int ch, struct vector_UINT8 *res)
__CPROVER_requires(V8_FRESH(res) && V8_cap(res) - V8_size(res) >= 6)
__CPROVER_assigns(V8_size(res), __CPROVER_object_from(V8_data(res) + V8_size(res)))
__CPROVER_ensures(V8_size(res) == __CPROVER_old(V8_size(res)) + utf8_len(ch))
__CPROVER_ensures(V8_data(res) == __CPROVER_old(V8_data(res)) && V8_cap(res) == __CPROVER_old(V8_cap(res)))
__CPROVER_ensures(utf8_len(ch) > 0 ==> V8_data(res)[__CPROVER_old(V8_size(res)) + 0] == utf8_byte(ch, 0))
__CPROVER_ensures(utf8_len(ch) > 1 ==> V8_data(res)[__CPROVER_old(V8_size(res)) + 1] == utf8_byte(ch, 1))
__CPROVER_ensures(utf8_len(ch) > 2 ==> V8_data(res)[__CPROVER_old(V8_size(res)) + 2] == utf8_byte(ch, 2))
__CPROVER_ensures(utf8_len(ch) > 3 ==> V8_data(res)[__CPROVER_old(V8_size(res)) + 3] == utf8_byte(ch, 3))
__CPROVER_ensures(utf8_len(ch) > 4 ==> V8_data(res)[__CPROVER_old(V8_size(res)) + 4] == utf8_byte(ch, 4))
__CPROVER_ensures(utf8_len(ch) > 5 ==> V8_data(res)[__CPROVER_old(V8_size(res)) + 5] == utf8_byte(ch, 5))
;

/* ---------- decode_utf8 ---------- */
/* (a) any byte vector of any length: memory safe, terminates, never produces more code points than bytes
 *     (C06-K1; loops closed by loop contracts) */
_Bool decode_utf8_safe_contract(struct vector_UINT8 *in, struct deque_int *out)
__CPROVER_requires(V8_FRESH(in) && DI_FRESH(out) && DI_cap(out) >= V8_size(in))
__CPROVER_assigns(DI_size(out), __CPROVER_object_whole(DI_data(out)))
__CPROVER_ensures(DI_size(out) <= V8_size(in))
;

/* (b) the UTF-8 form of the code point g_ch (not a leading U+FEFF, which *is* the BOM), optionally
 *     preceded by the BOM, decodes to exactly [g_ch] */
#define IN8(k) (V8_data(in)[(k)])
_Bool decode_utf8_single_contract(struct vector_UINT8 *in, struct deque_int *out)
__CPROVER_requires(V8_FRESH(in) && DI_FRESH(out) && DI_cap(out) >= 2)
__CPROVER_requires(g_ch >= 0 && g_ch != 0xFEFF)
__CPROVER_requires(V8_size(in) == (size_t)utf8_len(g_ch))
__CPROVER_requires(IN8(0) == utf8_byte(g_ch, 0))
__CPROVER_requires(utf8_len(g_ch) > 1 ==> IN8(1) == utf8_byte(g_ch, 1))
__CPROVER_requires(utf8_len(g_ch) > 2 ==> IN8(2) == utf8_byte(g_ch, 2))
__CPROVER_requires(utf8_len(g_ch) > 3 ==> IN8(3) == utf8_byte(g_ch, 3))
__CPROVER_requires(utf8_len(g_ch) > 4 ==> IN8(4) == utf8_byte(g_ch, 4))
__CPROVER_requires(utf8_len(g_ch) > 5 ==> IN8(5) == utf8_byte(g_ch, 5))
__CPROVER_assigns(DI_size(out), __CPROVER_object_whole(DI_data(out)))
__CPROVER_ensures(__CPROVER_return_value == 1)
__CPROVER_ensures(DI_size(out) == 1 && DI_data(out)[0] == g_ch)
;

_Bool decode_utf8_bom_single_contract(struct vector_UINT8 *in, struct deque_int *out)
__CPROVER_requires(V8_FRESH(in) && DI_FRESH(out) && DI_cap(out) >= 2)
__CPROVER_requires(g_ch >= 0)
__CPROVER_requires(V8_size(in) == 3 + (size_t)utf8_len(g_ch))
__CPROVER_requires(IN8(0) == 0xEF && IN8(1) == 0xBB && IN8(2) == 0xBF)
__CPROVER_requires(IN8(3) == utf8_byte(g_ch, 0))
__CPROVER_requires(utf8_len(g_ch) > 1 ==> IN8(4) == utf8_byte(g_ch, 1))
__CPROVER_requires(utf8_len(g_ch) > 2 ==> IN8(5) == utf8_byte(g_ch, 2))
__CPROVER_requires(utf8_len(g_ch) > 3 ==> IN8(6) == utf8_byte(g_ch, 3))
__CPROVER_requires(utf8_len(g_ch) > 4 ==> IN8(7) == utf8_byte(g_ch, 4))
__CPROVER_requires(utf8_len(g_ch) > 5 ==> IN8(8) == utf8_byte(g_ch, 5))
__CPROVER_assigns(DI_size(out), __CPROVER_object_whole(DI_data(out)))
__CPROVER_ensures(__CPROVER_return_value == 1)
__CPROVER_ensures(DI_size(out) == 1 && DI_data(out)[0] == g_ch)
;

/* (c) malformed input is refused, never silently altered: a continuation byte in lead position, a lead
 *     byte 0xFE/0xFF, a truncated sequence or a non-continuation byte inside a sequence => false.
 *     Stated for an input of 1..6 bytes whose first byte is the lead byte. */
int lead_len(unsigned char b)
{
   if (b < 0x80) { return 1; }
   if ((b & 0xE0) == 0xC0) { return 2; }
   if ((b & 0xF0) == 0xE0) { return 3; }
   if ((b & 0xF8) == 0xF0) { return 4; }
   if ((b & 0xFC) == 0xF8) { return 5; }
   if ((b & 0xFE) == 0xFC) { return 6; }
   return 0; /* 10xxxxxx, 0xFE, 0xFF: not a lead byte */
}
_Bool decode_utf8_malformed_contract(struct vector_UINT8 *in, struct deque_int *out)
__CPROVER_requires(V8_FRESH(in) && DI_FRESH(out) && DI_cap(out) >= 8)
__CPROVER_requires(V8_size(in) >= 1 && V8_size(in) <= 6)
__CPROVER_requires(!(V8_size(in) >= 3 && IN8(0) == 0xEF && IN8(1) == 0xBB && IN8(2) == 0xBF))
__CPROVER_assigns(DI_size(out), __CPROVER_object_whole(DI_data(out)))
/* not a lead byte */
__CPROVER_ensures(lead_len(IN8(0)) == 0 ==> __CPROVER_return_value == 0)
/* truncated */
__CPROVER_ensures((size_t)lead_len(IN8(0)) > V8_size(in) ==> __CPROVER_return_value == 0)
/* bad continuation byte at position g_J inside the first sequence */
__CPROVER_ensures((g_J >= 1 && g_J < (size_t)lead_len(IN8(0)) && g_J < V8_size(in) && (IN8(g_J) & 0xC0) != 0x80)
                  ==> __CPROVER_return_value == 0)
;

/* ---------- get_word ---------- */
int get_word_contract(struct vector_UINT8 *in, size_t *idx, _Bool be)
__CPROVER_requires(V8_FRESH(in) && __CPROVER_is_fresh(idx, sizeof(size_t)) && *idx <= V8_size(in) + 2)
__CPROVER_assigns(*idx)
__CPROVER_ensures(*idx == __CPROVER_old(*idx) + 2)
__CPROVER_ensures(__CPROVER_old(*idx) + 2 > V8_size(in) ==> __CPROVER_return_value == -1)
__CPROVER_ensures(__CPROVER_old(*idx) + 2 <= V8_size(in) ==>
                  __CPROVER_return_value == (be ? ((V8_data(in)[__CPROVER_old(*idx)] << 8) | V8_data(in)[__CPROVER_old(*idx) + 1])
                                               : (V8_data(in)[__CPROVER_old(*idx)] | (V8_data(in)[__CPROVER_old(*idx) + 1] << 8))))
;

/* ---------- decode_utf16 ---------- */
/* (a) safety/termination for any input (C06-K1) */
_Bool decode_utf16_safe_contract(struct vector_UINT8 *in, struct deque_int *out, unsigned int *enc)
__CPROVER_requires(V8_FRESH(in) && DI_FRESH(out) && DI_cap(out) >= V8_size(in))
__CPROVER_requires(__CPROVER_is_fresh(enc, sizeof(unsigned int)))
__CPROVER_assigns(*enc, DI_size(out), __CPROVER_object_whole(DI_data(out)))
__CPROVER_ensures(DI_size(out) <= V8_size(in))
__CPROVER_ensures(__CPROVER_return_value ==> (*enc == ENC_UTF16_LE || *enc == ENC_UTF16_BE))
/* the BOM decides the byte order */
__CPROVER_ensures((__CPROVER_return_value && IN8(0) == 0xFE && IN8(1) == 0xFF) ==> *enc == ENC_UTF16_BE)
__CPROVER_ensures((__CPROVER_return_value && IN8(0) == 0xFF && IN8(1) == 0xFE) ==> *enc == ENC_UTF16_LE)
;
/* (b) BOM(g_be) ++ utf16(g_ch, g_be) for a scalar value g_ch decodes to [g_ch], enc as the BOM says */
_Bool decode_utf16_single_contract(struct vector_UINT8 *in, struct deque_int *out, unsigned int *enc)
__CPROVER_requires(V8_FRESH(in) && DI_FRESH(out) && DI_cap(out) >= 2)
__CPROVER_requires(__CPROVER_is_fresh(enc, sizeof(unsigned int)))
__CPROVER_requires(is_scalar(g_ch))
__CPROVER_requires(V8_size(in) == 2 + 2 * (size_t)utf16_units(g_ch))
__CPROVER_requires(IN8(0) == (g_be ? 0xFE : 0xFF) && IN8(1) == (g_be ? 0xFF : 0xFE))
__CPROVER_requires(IN8(2) == utf16_byte(g_ch, g_be, 0) && IN8(3) == utf16_byte(g_ch, g_be, 1))
__CPROVER_requires(utf16_units(g_ch) == 2 ==> (IN8(4) == utf16_byte(g_ch, g_be, 2) && IN8(5) == utf16_byte(g_ch, g_be, 3)))
__CPROVER_assigns(*enc, DI_size(out), __CPROVER_object_whole(DI_data(out)))
__CPROVER_ensures(__CPROVER_return_value == 1)
__CPROVER_ensures(*enc == (g_be ? ENC_UTF16_BE : ENC_UTF16_LE))
__CPROVER_ensures(DI_size(out) == 1 && DI_data(out)[0] == g_ch)
;
/* (c) malformed UTF-16 after a BOM is refused: odd length, lone low surrogate, high surrogate not
 *     followed by a low surrogate (incl. truncated pair) */
_Bool decode_utf16_malformed_contract(struct vector_UINT8 *in, struct deque_int *out, unsigned int *enc)
__CPROVER_requires(V8_FRESH(in) && DI_FRESH(out) && DI_cap(out) >= 4)
__CPROVER_requires(__CPROVER_is_fresh(enc, sizeof(unsigned int)))
__CPROVER_requires(V8_size(in) >= 3 && V8_size(in) <= 6)
__CPROVER_requires(IN8(0) == (g_be ? 0xFE : 0xFF) && IN8(1) == (g_be ? 0xFF : 0xFE))
__CPROVER_assigns(*enc, DI_size(out), __CPROVER_object_whole(DI_data(out)))
#define W0 ((unsigned)(g_be ? ((IN8(2) << 8) | IN8(3)) : (IN8(2) | (IN8(3) << 8))))
#define W1 ((unsigned)(g_be ? ((IN8(4) << 8) | IN8(5)) : (IN8(4) | (IN8(5) << 8))))
__CPROVER_ensures((V8_size(in) & 1) ==> __CPROVER_return_value == 0)
__CPROVER_ensures((V8_size(in) >= 4 && (W0 & 0xFC00u) == 0xDC00u) ==> __CPROVER_return_value == 0)
__CPROVER_ensures((V8_size(in) == 4 && (W0 & 0xFC00u) == 0xD800u) ==> __CPROVER_return_value == 0)
__CPROVER_ensures((V8_size(in) == 6 && (W0 & 0xFC00u) == 0xD800u && (W1 & 0xFC00u) != 0xDC00u) ==> __CPROVER_return_value == 0)
;

/* ---------- decode_bom ---------- */
_Bool decode_bom_contract(struct vector_UINT8 *in, unsigned int *enc)
__CPROVER_requires(V8_FRESH(in) && __CPROVER_is_fresh(enc, sizeof(unsigned int)))
__CPROVER_assigns(*enc)
__CPROVER_ensures((V8_size(in) >= 2 && IN8(0) == 0xFE && IN8(1) == 0xFF) ==> (__CPROVER_return_value && *enc == ENC_UTF16_BE))
__CPROVER_ensures((V8_size(in) >= 2 && IN8(0) == 0xFF && IN8(1) == 0xFE) ==> (__CPROVER_return_value && *enc == ENC_UTF16_LE))
__CPROVER_ensures((V8_size(in) >= 3 && IN8(0) == 0xEF && IN8(1) == 0xBB && IN8(2) == 0xBF) ==> (__CPROVER_return_value && *enc == ENC_UTF8))
__CPROVER_ensures(__CPROVER_return_value ==>
                  (V8_size(in) >= 2 &&
                   ((IN8(0) == 0xFE && IN8(1) == 0xFF) || (IN8(0) == 0xFF && IN8(1) == 0xFE) ||
                    (V8_size(in) >= 3 && IN8(0) == 0xEF && IN8(1) == 0xBB && IN8(2) == 0xBF))))
__CPROVER_ensures(!__CPROVER_return_value ==> *enc == ENC_ASCII)
;

/* ---------- decode_unicode: the detection policy of property C09 ---------- */
_Bool decode_unicode_contract(struct vector_UINT8 *in, struct deque_int *out, unsigned int *enc, _Bool *has_bom)
__CPROVER_requires(V8_FRESH(in) && DI_FRESH(out) && DI_cap(out) >= V8_size(in))
__CPROVER_requires(__CPROVER_is_fresh(enc, sizeof(unsigned int)) && __CPROVER_is_fresh(has_bom, sizeof(_Bool)))
__CPROVER_assigns(*enc, *has_bom, DI_size(out), __CPROVER_object_whole(DI_data(out)))
/* BOM present <=> has_bom, and enc is what the BOM says when decoding succeeds */
__CPROVER_ensures(*has_bom == (V8_size(in) >= 2 &&
                   ((IN8(0) == 0xFE && IN8(1) == 0xFF) || (IN8(0) == 0xFF && IN8(1) == 0xFE) ||
                    (V8_size(in) >= 3 && IN8(0) == 0xEF && IN8(1) == 0xBB && IN8(2) == 0xBF))))
__CPROVER_ensures((*has_bom && __CPROVER_return_value && IN8(0) == 0xEF) ==> *enc == ENC_UTF8)
__CPROVER_ensures((*has_bom && __CPROVER_return_value && IN8(0) == 0xFE) ==> *enc == ENC_UTF16_BE)
__CPROVER_ensures((*has_bom && __CPROVER_return_value && IN8(0) == 0xFF) ==> *enc == ENC_UTF16_LE)
/* without a BOM the function never refuses: it falls back to byte-wise pass-through */
__CPROVER_ensures(!*has_bom ==> __CPROVER_return_value == 1)
/* ASCII and BYTE results are byte-wise identical to the input (arbitrary index g_J) */
__CPROVER_ensures((__CPROVER_return_value && (*enc == ENC_ASCII || *enc == ENC_BYTE)) ==>
                  (DI_size(out) == V8_size(in) && (g_J < V8_size(in) ==> DI_data(out)[g_J] == IN8(g_J))))
/* ASCII is reported only for pure 7-bit non-NUL input */
__CPROVER_ensures((__CPROVER_return_value && *enc == ENC_ASCII && g_J < V8_size(in)) ==> (IN8(g_J) > 0 && IN8(g_J) < 0x80))
/* pure 7-bit non-NUL input without BOM is ASCII: contrapositive via the arbitrary index */
__CPROVER_ensures((!*has_bom && *enc != ENC_ASCII) ==> V8_size(in) > 0)
__CPROVER_ensures(DI_size(out) <= V8_size(in))
;

/* ---------- writers ---------- */
#define SINK_FRAME  g_out_n, g_out_at_K, g_out_last
/* total output below 2^40 bytes; the slack lets a caller issue up to 8 single-byte writes */
#define OUT_OPEN_S(slack) (CPD(fout) != (void*)0 && CPD(bout) == (struct deque_UINT8*)0 && g_out_n < MAXCAP - (slack))
#define OUT_OPEN    OUT_OPEN_S(16)
/* the K-th byte of the output is b if K is the i-th position after the entry position */
#define BYTE_AT(i, b) ((g_out_K == __CPROVER_old(g_out_n) + (i)) ==> g_out_at_K == (b))
#define UNTOUCHED_K   ((g_out_K < __CPROVER_old(g_out_n) || g_out_K >= g_out_n) ==> g_out_at_K == __CPROVER_old(g_out_at_K))

/* write_byte, memory-capture branch (C12-K2): with cpd.bout set, a value in 0..255 is appended to *cpd.bout;
 * with cpd.fout == NULL nothing reaches the file sink. */
void write_byte_bout_contract(int ch)
__CPROVER_requires(CPD(fout) == (void*)0)
__CPROVER_requires(D8_FRESH(CPD(bout)) && D8_size(CPD(bout)) < D8_cap(CPD(bout)))
__CPROVER_assigns(D8_size(CPD(bout)), __CPROVER_object_from(D8_data(CPD(bout)) + D8_size(CPD(bout))))
__CPROVER_ensures((ch & 0xff) == ch ==>
                  (D8_size(CPD(bout)) == __CPROVER_old(D8_size(CPD(bout))) + 1 &&
                   D8_data(CPD(bout))[__CPROVER_old(D8_size(CPD(bout)))] == ch))
__CPROVER_ensures((ch & 0xff) != ch ==> D8_size(CPD(bout)) == __CPROVER_old(D8_size(CPD(bout))))
__CPROVER_ensures(g_out_n == __CPROVER_old(g_out_n))
;

/* write_byte, file branch: a value in 0..255 is written once to the file sink; anything else is dropped */
void write_byte_file_contract(int ch)
__CPROVER_requires(OUT_OPEN_S(0))
__CPROVER_assigns(SINK_FRAME)
__CPROVER_ensures((ch & 0xff) == ch ==> (g_out_n == __CPROVER_old(g_out_n) + 1 && BYTE_AT(0, ch) && g_out_last == ch))
__CPROVER_ensures((ch & 0xff) != ch ==> (g_out_n == __CPROVER_old(g_out_n) && g_out_last == __CPROVER_old(g_out_last)))
__CPROVER_ensures(UNTOUCHED_K)
;

/* write_utf8: exactly utf8(ch) reaches the sink */
void write_utf8_contract(int ch)
__CPROVER_requires(OUT_OPEN_S(8))
__CPROVER_assigns(SINK_FRAME)
__CPROVER_ensures(g_out_n == __CPROVER_old(g_out_n) + utf8_len(ch))
__CPROVER_ensures(utf8_len(ch) > 0 ==> BYTE_AT(0, utf8_byte(ch, 0)))
__CPROVER_ensures(utf8_len(ch) > 1 ==> BYTE_AT(1, utf8_byte(ch, 1)))
__CPROVER_ensures(utf8_len(ch) > 2 ==> BYTE_AT(2, utf8_byte(ch, 2)))
__CPROVER_ensures(utf8_len(ch) > 3 ==> BYTE_AT(3, utf8_byte(ch, 3)))
__CPROVER_ensures(utf8_len(ch) > 4 ==> BYTE_AT(4, utf8_byte(ch, 4)))
__CPROVER_ensures(utf8_len(ch) > 5 ==> BYTE_AT(5, utf8_byte(ch, 5)))
__CPROVER_ensures(UNTOUCHED_K)
;

/* write_utf16: exactly utf16(ch, be) for a scalar value; nothing for surrogates / out of range */
void write_utf16_contract(int ch, _Bool be)
__CPROVER_requires(OUT_OPEN_S(8))
__CPROVER_assigns(SINK_FRAME)
__CPROVER_ensures(g_out_n == __CPROVER_old(g_out_n) + 2 * utf16_units(ch))
__CPROVER_ensures(utf16_units(ch) >= 1 ==> (BYTE_AT(0, utf16_byte(ch, be, 0)) && BYTE_AT(1, utf16_byte(ch, be, 1))))
__CPROVER_ensures(utf16_units(ch) == 2 ==> (BYTE_AT(2, utf16_byte(ch, be, 2)) && BYTE_AT(3, utf16_byte(ch, be, 3))))
__CPROVER_ensures(UNTOUCHED_K)
;

/* write_bom: the BOM of cpd.enc, nothing for ASCII/BYTE */
void write_bom_contract(void)
__CPROVER_requires(OUT_OPEN && CPD(enc) <= ENC_UTF16_BE)
__CPROVER_assigns(SINK_FRAME)
__CPROVER_ensures(CPD(enc) == ENC_UTF8 ==> (g_out_n == __CPROVER_old(g_out_n) + 3 && BYTE_AT(0, 0xEF) && BYTE_AT(1, 0xBB) && BYTE_AT(2, 0xBF)))
__CPROVER_ensures(CPD(enc) == ENC_UTF16_LE ==> (g_out_n == __CPROVER_old(g_out_n) + 2 && BYTE_AT(0, 0xFF) && BYTE_AT(1, 0xFE)))
__CPROVER_ensures(CPD(enc) == ENC_UTF16_BE ==> (g_out_n == __CPROVER_old(g_out_n) + 2 && BYTE_AT(0, 0xFE) && BYTE_AT(1, 0xFF)))
__CPROVER_ensures((CPD(enc) == ENC_ASCII || CPD(enc) == ENC_BYTE) ==> g_out_n == __CPROVER_old(g_out_n))
__CPROVER_ensures(UNTOUCHED_K)
;

/* write_char: per encoding, the bytes reaching the sink are the encoding of the code point */
void write_char_contract(int ch)
__CPROVER_requires(OUT_OPEN && CPD(enc) <= ENC_UTF16_BE)
__CPROVER_assigns(SINK_FRAME)
__CPROVER_ensures(ch < 0 ==> g_out_n == __CPROVER_old(g_out_n))
__CPROVER_ensures((ch >= 0 && CPD(enc) == ENC_BYTE) ==> (g_out_n == __CPROVER_old(g_out_n) + 1 && BYTE_AT(0, ch & 0xff)))
__CPROVER_ensures((ch >= 0 && CPD(enc) == ENC_ASCII) ==> (g_out_n == __CPROVER_old(g_out_n) + (ch < 256 ? 1 : 0) && (ch < 256 ==> BYTE_AT(0, ch))))
__CPROVER_ensures((ch >= 0 && CPD(enc) == ENC_UTF8) ==>
                  (g_out_n == __CPROVER_old(g_out_n) + utf8_len(ch) && BYTE_AT(0, utf8_byte(ch, 0)) &&
                   (utf8_len(ch) > 1 ==> BYTE_AT(1, utf8_byte(ch, 1))) && (utf8_len(ch) > 2 ==> BYTE_AT(2, utf8_byte(ch, 2))) &&
                   (utf8_len(ch) > 3 ==> BYTE_AT(3, utf8_byte(ch, 3))) && (utf8_len(ch) > 4 ==> BYTE_AT(4, utf8_byte(ch, 4))) &&
                   (utf8_len(ch) > 5 ==> BYTE_AT(5, utf8_byte(ch, 5)))))
__CPROVER_ensures((ch >= 0 && (CPD(enc) == ENC_UTF16_LE || CPD(enc) == ENC_UTF16_BE)) ==>
                  (g_out_n == __CPROVER_old(g_out_n) + 2 * utf16_units(ch) &&
                   (utf16_units(ch) >= 1 ==> (BYTE_AT(0, utf16_byte(ch, CPD(enc) == ENC_UTF16_BE, 0)) && BYTE_AT(1, utf16_byte(ch, CPD(enc) == ENC_UTF16_BE, 1)))) &&
                   (utf16_units(ch) == 2 ==> (BYTE_AT(2, utf16_byte(ch, CPD(enc) == ENC_UTF16_BE, 2)) && BYTE_AT(3, utf16_byte(ch, CPD(enc) == ENC_UTF16_BE, 3))))))
__CPROVER_ensures(UNTOUCHED_K)
;

/* write_string: write_char is called once for each text[idx], idx = 0..size-1, in order: the K-th
 * code point appended to the code-point sequence is text[K - n0] (arbitrary K). */
void ws_write_char_contract(int ch)
__CPROVER_assigns(CHS_FRAME)
__CPROVER_ensures(CHS_APPENDS_ONE(ch))
;
void write_string_contract(struct UncText *text)
__CPROVER_requires(UT_FRESH(text))
__CPROVER_requires(g_chs_n < MAXCAP)
__CPROVER_assigns(CHS_FRAME)
__CPROVER_ensures(g_chs_n == __CPROVER_old(g_chs_n) + DI_size(UncText_m_chars(text)))
__CPROVER_ensures((g_chs_K >= __CPROVER_old(g_chs_n) && g_chs_K < g_chs_n) ==>
                  g_chs_at_K == DI_data(UncText_m_chars(text))[g_chs_K - __CPROVER_old(g_chs_n)])
__CPROVER_ensures(g_chs_K < __CPROVER_old(g_chs_n) ==> g_chs_at_K == __CPROVER_old(g_chs_at_K))
;
