// Translation unit for the unicode.cpp kernel (C09, C06-K1, C12-K2): real function text sliced from
// /repo/src/unicode.cpp + environment stubs.  Contracts: contracts/C09/unicode.spec.c
#include "base.h"
#include "containers.h"
#include "unctext.h"
#include "cpd.h"
using namespace std;
// member functions cannot be defined inside an extern "C" block (front end), and write_string needs them
class UncText;
extern "C" {
//@slice src/unicode.cpp fn is_ascii
//@slice src/unicode.cpp fn decode_bytes
//@slice src/unicode.cpp fn encode_utf8
//@slice src/unicode.cpp fn decode_utf8
//@slice src/unicode.cpp fn get_word
//@slice src/unicode.cpp fn decode_utf16
//@slice src/unicode.cpp fn decode_bom
//@slice src/unicode.cpp fn decode_unicode
//@slice src/unicode.cpp fn write_byte
//@slice src/unicode.cpp fn write_utf8
//@slice src/unicode.cpp fn write_utf16
//@slice src/unicode.cpp fn write_bom
//@slice src/unicode.cpp fn write_char
//@slice src/unicode.cpp fn write_string
}
//@slice src/unc_text.cpp fn UncText::size
//@slice src/unc_text.cpp fn UncText::operator[]
#include "offsets_cpp.h"

// ---- harnesses: each only supplies arbitrary arguments; DFCC replaces them by what the contract's
// requires clause describes.  The canary must be reachable (vacuity guard).
#define CANARY(msg) __CPROVER_assert(0, "VACUITY_CANARY " msg)
extern "C" {
int g_ch;     // ghost copies for lemma harnesses
void h_is_ascii() { vector_UINT8 d; size_t a, b; bool r = is_ascii(d, a, b); if (r) { CANARY("is_ascii true"); } else { CANARY("is_ascii false"); } }
void h_decode_bytes() { vector_UINT8 i; deque_int o; decode_bytes(i, o); CANARY("decode_bytes returns"); }
void h_encode_utf8() { vector_UINT8 r; int ch = nondet_int(); encode_utf8(ch, r); if (ch >= 0x4000000) { CANARY("encode_utf8 6-byte form"); } if (ch >= 0x80 && ch < 0x800) { CANARY("encode_utf8 2-byte form"); } }
void h_decode_utf8() { vector_UINT8 i; deque_int o; bool r = decode_utf8(i, o); if (r) { CANARY("decode_utf8 true"); } else { CANARY("decode_utf8 false"); } }
void h_get_word() { vector_UINT8 i; size_t idx = nondet_size_t(); get_word(i, idx, nondet_bool()); CANARY("get_word returns"); }
// enum-reference parameters cannot be matched by a contract written in C (C and C++ enum types differ in
// CBMC), so these three are enforced through a wrapper that only converts the enum to unsigned.
bool w_decode_utf16(const vector_UINT8 &in, deque_int &out, unsigned *enc) { char_encoding_e e = (char_encoding_e)*enc; bool r = decode_utf16(in, out, e); *enc = (unsigned)e; return r; }
bool w_decode_bom(const vector_UINT8 &in, unsigned *enc) { char_encoding_e e = (char_encoding_e)*enc; bool r = decode_bom(in, e); *enc = (unsigned)e; return r; }
bool w_decode_unicode(const vector_UINT8 &in, deque_int &out, unsigned *enc, bool *has_bom) { char_encoding_e e = (char_encoding_e)*enc; bool r = decode_unicode(in, out, e, *has_bom); *enc = (unsigned)e; return r; }
void h_decode_utf16() { vector_UINT8 i; deque_int o; unsigned e; bool r = w_decode_utf16(i, o, &e); if (r) { CANARY("decode_utf16 true"); } else { CANARY("decode_utf16 false"); } }
void h_decode_bom() { vector_UINT8 i; unsigned e; bool r = w_decode_bom(i, &e); if (r) { CANARY("decode_bom true"); } else { CANARY("decode_bom false"); } }
void h_decode_unicode() { vector_UINT8 i; deque_int o; unsigned e; bool b; bool r = w_decode_unicode(i, o, &e, &b); if (r) { CANARY("decode_unicode true"); } else { CANARY("decode_unicode false"); } }
void h_write_byte() { write_byte(nondet_int()); CANARY("write_byte returns"); }
void h_write_utf8() { write_utf8(nondet_int()); CANARY("write_utf8 returns"); }
void h_write_utf16() { int ch = nondet_int(); write_utf16(ch, nondet_bool()); if (ch >= 0x10000 && ch < 0x110000) { CANARY("write_utf16 surrogate pair"); } }
void h_write_bom() { write_bom(); CANARY("write_bom returns"); }
void h_write_char() { write_char(nondet_int()); CANARY("write_char returns"); }
void h_write_string() { UncText t; write_string(t); CANARY("write_string returns"); }

// Lemma (property C09, "every Unicode scalar value ... is reproduced unchanged"): composition of the
// encoder's and the decoder's contracts, both replaced by their contracts here.
void h_lemma_utf8_roundtrip()
{
   int c = nondet_int();
   __CPROVER_assume(c >= 0 && c != 0xFEFF);   // a leading U+FEFF *is* the BOM (see decode_utf8_bom_single_contract)
   UINT8 vbuf[16]; int obuf[16];
   vector_UINT8 v; v.m_size = 0; v.m_cap = 16; v.m_data = vbuf;
   deque_int o; o.m_size = nondet_size_t(); o.m_cap = 16; o.m_data = obuf;
   __CPROVER_assume(o.m_size <= 16);
   g_ch = c;
   encode_utf8(c, v);
   bool ok = decode_utf8(v, o);
   __CPROVER_assert(ok, "lemma utf8 round trip: decode accepts what encode produced");
   __CPROVER_assert(o.m_size == 1 && o.m_data[0] == c, "lemma utf8 round trip: decode(encode(c)) == [c]");
   CANARY("utf8 round trip lemma end");
}
}
