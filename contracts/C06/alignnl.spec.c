/* align_nl_cont() terminates on every (finite) chunk list, including a list whose last line has no newline chunk (C06). */
#include "common.h"
#include "options_c.h"
extern struct Chunk *const P0, *const P1, *const P2, *const PN;
extern const unsigned CT_NEWLINE_V, CT_COMMENT_MULTI_V;
extern size_t g_dist, g_stack_n, g_added, g_popped;
#define IN_POOL(p) ((p) == P0 || (p) == P1 || (p) == P2 || (p) == PN)
/* the successor of a chunk: the sentinel stays the sentinel; otherwise one step closer to the end of the list */
struct Chunk *get_next_contract(const struct Chunk *c)
__CPROVER_requires(IN_POOL(c))
__CPROVER_assigns(g_dist)
__CPROVER_ensures(IN_POOL(__CPROVER_return_value))
__CPROVER_ensures(c == PN ==> (__CPROVER_return_value == PN && g_dist == __CPROVER_old(g_dist)))
__CPROVER_ensures((c != PN && __CPROVER_old(g_dist) == 0) ==> (__CPROVER_return_value == PN && g_dist == 0))
__CPROVER_ensures((c != PN && __CPROVER_old(g_dist) > 0) ==> g_dist == __CPROVER_old(g_dist) - 1)
;
void align_add_contract(struct Chunk *pc)
__CPROVER_requires(g_stack_n < (1UL << 40))
__CPROVER_assigns(g_stack_n)
__CPROVER_ensures(g_stack_n == __CPROVER_old(g_stack_n) + 1)
;
struct Chunk *pop_back_contract(void)
__CPROVER_assigns(g_stack_n)
__CPROVER_ensures(IN_POOL(__CPROVER_return_value))
__CPROVER_ensures(__CPROVER_old(g_stack_n) == 0 ==> (__CPROVER_return_value == PN && g_stack_n == 0))
__CPROVER_ensures(__CPROVER_old(g_stack_n) > 0 ==> (__CPROVER_return_value != PN && g_stack_n == __CPROVER_old(g_stack_n) - 1))
;
struct Chunk *align_nl_cont_contract(struct Chunk *start)
__CPROVER_requires(IN_POOL(start) && !Chunk_m_nullChunk(P0) && !Chunk_m_nullChunk(P1) && !Chunk_m_nullChunk(P2) && Chunk_m_nullChunk(PN))
__CPROVER_requires(g_dist < (1UL << 40) && g_stack_n == 0 && OPT_RANGE_align_nl_cont && OPT_RANGE_align_nl_cont_spaces)
__CPROVER_assigns(g_dist, g_stack_n, Chunk_m_flags(P0), Chunk_m_flags(P1), Chunk_m_flags(P2), Chunk_m_column(P0), Chunk_m_column(P1), Chunk_m_column(P2))
/* (termination is the loop_decreases obligations of the two loops) it stops at the end of the logical line or of the list */
__CPROVER_ensures(__CPROVER_return_value == PN || Chunk_m_type(__CPROVER_return_value) == CT_NEWLINE_V || Chunk_m_type(__CPROVER_return_value) == CT_COMMENT_MULTI_V)
__CPROVER_ensures(g_stack_n == 0)
;
