/* C06 "any input terminates": align_nl_cont() (src/align/nl_cont.cpp) ends on every chunk list - at the newline or multi-line comment that ends the continued line,
 * or at the end of the list (a file whose last line is a backslash-continued #define without a final newline) - and leaves its stack empty. */
#include "common.h"
#include "options_c.h"
extern struct Chunk *const P0, *const P1, *const P2, *const PN; extern const unsigned CT_NEWLINE_V, CT_COMMENT_MULTI_V; extern unsigned g_nav_fuel; extern size_t g_stack_n, g_added, g_popped;
struct Chunk *align_nl_cont(struct Chunk *start);
void h_align_nl_cont(void)
{
   __CPROVER_havoc_object(P0); __CPROVER_havoc_object(PN);
   Chunk_m_nullChunk(P0) = 0; Chunk_m_nullChunk(P1) = 0; Chunk_m_nullChunk(P2) = 0; Chunk_m_nullChunk(PN) = 1;
   __CPROVER_assume(g_nav_fuel <= 5 && OPT_RANGE_align_nl_cont && OPT_RANGE_align_nl_cont_spaces);
   g_stack_n = 0; g_added = 0; g_popped = 0;
   struct Chunk *r = align_nl_cont(P0);
   __CPROVER_assert(r == PN || Chunk_m_type(r) == CT_NEWLINE_V || Chunk_m_type(r) == CT_COMMENT_MULTI_V, "postcondition: align_nl_cont stops at the end of the continued line or of the list");
   __CPROVER_assert(g_stack_n == 0 && g_popped == g_added, "postcondition: align_nl_cont every chunk put on the stack is taken off again");
   if (r == PN) { __CPROVER_assert(0, "VACUITY_CANARY align_nl_cont: reached the end of the list"); }
   if (r != PN && g_added > 1) { __CPROVER_assert(0, "VACUITY_CANARY align_nl_cont: several continuations aligned"); }
}
