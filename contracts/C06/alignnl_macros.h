#ifndef ALIGNNL_MACROS_H
#define ALIGNNL_MACROS_H
extern struct Chunk *const P0, *const P1, *const P2, *const PN;
extern unsigned long g_dist, g_stack_n;
#endif
