// Translation unit for align_nl_cont() (C06-K7: termination of a chunk-list walk), src/align/nl_cont.cpp, sliced verbatim.
// The chunk list is finite: the environment's GetNext() moves towards the end of the list (ghost distance g_dist) and
// returns the NullChunk sentinel there; GetNext() of the sentinel is the sentinel (as in the real Chunk class).
#include "token_enum.h"      /* from the working tree: -I <repo>/src */
#define VERIF_E_TOKEN
#include "base.h"
#include "containers.h"
#include "unctext.h"
#include "cpd.h"
#include "chunk.h"
#include "logger.h"
//@slice src/option.h struct iarf_e
//@slice src/option.h struct line_end_e
//@slice src/option.h struct token_pos_e
#include "options_gen.h"
#include "space_gen.h"
using namespace uncrustify;
static Chunk g_pool[3];
static Chunk g_null_chunk;
Chunk *const Chunk::NullChunkPtr = &g_null_chunk;
extern "C" {
size_t g_dist;        // ghost: number of chunks between the cursor and the end of the list
size_t g_stack_n;     // ghost: number of entries on the ChunkStack
size_t g_added, g_popped;
Chunk *c_get_next(const Chunk *c) { return 0; }                 // replaced by get_next_contract
void c_align_add(Chunk *pc) { }                                 // replaced by align_add_contract
Chunk *c_pop_back() { return 0; }                               // replaced by pop_back_contract
}
Chunk *Chunk::GetNext(const E_Scope) const { return c_get_next(this); }
void Chunk::SetFlagBits(unsigned long b) { if (IsNotNullChunk()) { m_flags |= b; } }        // src/chunk.cpp SetResetFlags(PCF_NONE, b)
struct ChunkStack { Chunk *Pop_Back() { return c_pop_back(); } };
static void align_add(ChunkStack &cs, Chunk *pc, size_t &max_col) { c_align_add(pc); max_col = nondet_size_t(); }
static inline size_t min(size_t a, size_t b) { return (a < b) ? a : b; }
static inline size_t max(size_t a, size_t b) { return (a > b) ? a : b; }
//@slice src/chunk.h fn Chunk::Is
//@slice src/chunk.h fn Chunk::IsNot
//@slice src/chunk.h fn Chunk::GetType
//@slice src/chunk.h fn Chunk::GetColumn
//@slice src/chunk.h fn Chunk::SetColumn
extern "C" {
//@slice src/align/nl_cont.cpp fn align_nl_cont
}
#include "offsets_cpp.h"
#define CANARY(msg) __CPROVER_assert(0, "VACUITY_CANARY " msg)
extern "C" {
extern Chunk *const P0 = &g_pool[0]; extern Chunk *const P1 = &g_pool[1]; extern Chunk *const P2 = &g_pool[2]; extern Chunk *const PN = &g_null_chunk;
extern const unsigned CT_NEWLINE_V = CT_NEWLINE, CT_COMMENT_MULTI_V = CT_COMMENT_MULTI;
void h_align_nl_cont() { Chunk *s; Chunk *r = align_nl_cont(s); if (r == &g_null_chunk) { CANARY("align_nl_cont: reached the end of the list"); } else { CANARY("align_nl_cont: stopped at a newline"); } }
}
