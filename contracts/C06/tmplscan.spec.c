/* C06 "any input terminates cleanly: formatted, or refused with a diagnostic" - memory safety of the bracket stack of check_template() for every token sequence:
 * the scan keeps the open `<` and `(` it has seen in `E_Token tokens[max_token_count]`; however many of them the input nests, no index leaves the array.
 * Loop rule by hand: one iteration from any state satisfying the invariant INV; array accesses are checked by --bounds-check; INV must hold again if the loop goes on. */
#include "common.h"
extern struct Chunk *const P0, *const P1, *const P2, *const PN; extern unsigned *const TOKENS; extern const unsigned CT_ANGLE_OPEN_V; extern _Bool g_left_loop;
void check_template_scan_step(struct Chunk *start, struct Chunk **pcp, size_t *num_tokens_p, _Bool in_if, _Bool in_type_cast);
void setup_pool(void);
_Bool nondet_bool(void); size_t nondet_size_t(void); unsigned nondet_uint(void);
#define INV(n) ((n) >= 1 && (n) <= MAX_TOKEN_COUNT - 1 && TOKENS[0] == CT_ANGLE_OPEN_V)
static struct Chunk *pick(void) { unsigned k = nondet_uint(); return k == 0 ? P0 : k == 1 ? P1 : k == 2 ? P2 : PN; }
void h_check_template_scan(void)
{
   __CPROVER_havoc_object(P0); __CPROVER_havoc_object(PN);     /* every attribute of every chunk is arbitrary ... */
   __CPROVER_havoc_object(TOKENS);                              /* ... the stack holds anything ... */
   setup_pool();                                                /* ... texts are valid (short) texts, the sentinel is the sentinel */
   struct Chunk *pc = pick(), *start = pick();
   size_t n = nondet_size_t();
   __CPROVER_assume(!Chunk_m_nullChunk(pc));                    /* loop condition pc->IsNotNullChunk() */
   __CPROVER_assume(INV(n));
   check_template_scan_step(start, &pc, &n, nondet_bool(), nondet_bool());
   __CPROVER_assert(g_left_loop || INV(n), "postcondition: check_template scan invariant 1 <= num_tokens <= max_token_count - 1, tokens[0] == CT_ANGLE_OPEN holds after an iteration that stays in the loop");
   __CPROVER_assert(pc == P0 || pc == P1 || pc == P2 || pc == PN, "postcondition: check_template scan stays on the list");
   if (!g_left_loop && n == MAX_TOKEN_COUNT - 1) { __CPROVER_assert(0, "VACUITY_CANARY template scan: stack full, loop goes on"); }
   if (g_left_loop) { __CPROVER_assert(0, "VACUITY_CANARY template scan: loop left"); }
}
