"""C06 Any input terminates cleanly -- kernel: memory safety, absence of undefined arithmetic and termination of the
decoders (unicode.cpp) and of the tokenizer white-space primitives, for inputs of any length; progress contracts."""
import os
import sys
here = os.path.dirname(os.path.abspath(__file__))
sys.path.insert(0, os.path.join(here, '..', 'shared'))
import importlib.util  # noqa: E402
import tokenizer_proofs  # noqa: E402
spec = importlib.util.spec_from_file_location('c09proofs', os.path.join(here, '..', 'C09', 'proofs.py'))
c09 = importlib.util.module_from_spec(spec)
spec.loader.exec_module(c09)
NEED_OPTIONS = True
MACRO_HEADERS = ['tokenizer_macros.h']
_dec = ['is_ascii', 'decode_bytes', 'decode_utf8_safe', 'get_word', 'decode_utf16_safe', 'decode_bom', 'decode_unicode', 'decode_utf8_malformed', 'decode_utf16_malformed']
_sp = importlib.util.spec_from_file_location('c20proofs_for_c06', os.path.join(here, '..', 'C20', 'proofs.py'))
c20 = importlib.util.module_from_spec(_sp)
_sp.loader.exec_module(c20)
_sp16 = importlib.util.spec_from_file_location('c16opt_for_c06', os.path.join(here, '..', 'C16', 'opt_proofs.py'))
c16opt = importlib.util.module_from_spec(_sp16)
_sp16.loader.exec_module(c16opt)
PROOFS = ([p for p in c09.PROOFS if p.name in _dec] + tokenizer_proofs.select(['tok_layout', 'parse_whitespace', 'parse_newline', 'parse_bs_newline', 'parse_off_newlines', 'parse_next_head', 'parse_cr_string', 'tag_compare'])
          + [p for p in c20.all_proofs() if p.name in ('newlines_eat_start_end', 'newlines_eat_start_end_single')]
          + [p for p in c16opt.all_proofs() if p.name in ('read_number_signed', 'read_number_unsigned', 'bool_read')])
from prover import Proof, REPO  # noqa: E402
_POOL = '(pc == P0 || pc == P1 || pc == P2 || pc == PN)'
# WIP (contract + loop contracts written, solver does not finish in 10 min): termination of align_nl_cont; NOT part of the check
def _max_token_count():
    import re
    t = open(os.path.join(REPO, 'src/tokenizer/check_template.cpp')).read()
    mo = re.search(r'const int max_token_count = (\d+);\n      E_Token   tokens\[max_token_count\];\n      size_t    num_tokens = 1;\n\n      tokens\[0\] = CT_ANGLE_OPEN;\n\n      for \(pc = start->GetNextNcNnl\(E_Scope::PREPROC\);\n           pc->IsNotNullChunk\(\);\n           pc = pc->GetNextNcNnl\(E_Scope::PREPROC\)\)', t)
    return int(mo.group(1)) if mo else None


_MTC = _max_token_count()
TMPL_SCAN = Proof('check_template_scan', impl='contracts/C06/tmplscan.impl.cpp', spec='contracts/C06/tmplscan.spec.c', harness='h_check_template_scan', plain=True, no_contract=True,
                  canaries=2, defines=['MAX_TOKEN_COUNT=%d' % (_MTC or 1024)], nondet_static=None, slice_formula=True,
                  rules={'check_template_scan': [('D8', [(r'auto brace_open  = pc->GetNextNcNnl\(\);', 'Chunk *brace_open  = pc->GetNextNcNnl();', 'auto of Chunk*', True), (r'auto brace_close = brace_open->GetClosingParen\(\);', 'Chunk *brace_close = brace_open->GetClosingParen();', 'auto of Chunk*', True)])]},
                  functions=['check_template.cpp:check_template (fragment: one iteration of the forward scan with the bracket stack tokens[max_token_count])'], drop_flags=['--conversion-check'],
                  assumed=['chunk navigation: an arbitrary chunk of the pool per step (any token sequence of any length)', 'split_off_angle_close, handle_double_angle_close, invalid_open_angle_template, detect_cpp_braced_init_list: no effect on the stack',
                           'termination of the scan (finiteness of the chunk list) is not part of this contract'],
                  expect=['postcondition: check_template scan'],
                  mutants=[('angle_push_unguarded', r'(            else\n            \{\n)               if \(num_tokens >= max_token_count - 1\)\n               \{\n                  break;\n               \}\n(               tokens\[num_tokens\] = CT_ANGLE_OPEN;)', r'\1\2', 'postcondition|bounds|array'),
                           ('paren_push_unguarded', r'if \(num_tokens >= max_token_count - 1\)\n            \{\n               break;\n            \}\n            tokens\[num_tokens\] = CT_PAREN_OPEN;', 'tokens[num_tokens] = CT_PAREN_OPEN;', 'postcondition|bounds|array')])
PROOFS.append(TMPL_SCAN)
PROOFS.append(Proof('align_nl_cont_walk', impl='contracts/C06/alignnl2.impl.cpp', spec='contracts/C06/alignnl2.spec.c', harness='h_align_nl_cont', plain=True, no_contract=True, canaries=2,
                    rules={'align_nl_cont': [('D8', [(r'numeric_limits<size_t>::max\(\)', '((size_t)-1)', 'std::numeric_limits<size_t>::max() (class templates with static members crash goto-cc)')])]},
                    nondet_static='.*(optv_|g_nav_fuel).*', unwind=8, expect=['postcondition: align_nl_cont'], drop_flags=['--conversion-check'], functions=['align/nl_cont.cpp:align_nl_cont'],
                    cbmc_flags=['--bounds-check', '--pointer-check', '--div-by-zero-check', '--undefined-shift-check', '--unwinding-assertions'],
                    assumed=['chunk navigation (fuel 5); stepping forward from the NullChunk is an assertion', 'ChunkStack: holds what align_add put on it'],
                    note='size_t arithmetic `align_col - 1 + spaces` wraps by design of the code (unsigned); walks unwound completely with unwinding assertions',
                    mutants=[('walk_ignores_end_of_list', r'while \(  pc->IsNotNullChunk\(\)\n         && pc->IsNot\(CT_NEWLINE\)', 'while (  pc->IsNot(CT_NEWLINE)', 'sentinel|unwinding')]))
PROOFS.append(Proof('find_start_brace', impl='contracts/C06/findbrace.impl.cpp', spec='contracts/C06/findbrace.spec.c', harness='h_find_start_brace', plain=True, no_contract=True, canaries=2, rules={},
                    nondet_static='.*(g_nav_fuel).*', unwind=9, expect=['postcondition: find_start_brace'], functions=['rewrite_infinite_loops.cpp:find_start_brace'],
                    assumed=['chunk navigation: an arbitrary chunk per step, the NullChunk after at most 6 steps (navigation fuel); stepping forward from the NullChunk is an assertion'],
                    note='the walk is unwound completely (fuel + 2) with unwinding assertions',
                    mutants=[('walk_ignores_end_of_list', r'while \(  pc->IsNotNullChunk\(\)\n         && !pc->IsBraceOpen\(\)\)', 'while (!pc->IsBraceOpen())', 'sentinel|unwinding')]))
WIP_PROOFS = []
WIP_PROOFS.append(Proof('align_nl_cont', impl='contracts/C06/alignnl.impl.cpp', spec='contracts/C06/alignnl.spec.c', enforce='align_nl_cont/align_nl_cont_contract',
                    replace=['c_get_next/get_next_contract', 'c_align_add/align_add_contract', 'c_pop_back/pop_back_contract'], canaries=2,
                    loops=[dict(fn='align_nl_cont', id=0, vars=['pc', 'min_col', 'max_col', 'align_col'], assigns='pc, min_col, max_col, align_col, g_dist, g_stack_n',
                                inv=_POOL + ' && g_stack_n < (1UL << 41)', decreases='g_dist + (pc == PN ? 0 : 1)'),
                           dict(fn='align_nl_cont', id=1, vars=['tmp'], assigns='tmp, g_stack_n, Chunk_m_flags(P0), Chunk_m_flags(P1), Chunk_m_flags(P2), Chunk_m_column(P0), Chunk_m_column(P1), Chunk_m_column(P2)',
                                inv='g_stack_n < (1UL << 41)', decreases='g_stack_n')],
                    rules={'align_nl_cont': [('D8', [(r'numeric_limits<size_t>::max\(\)', '((size_t)-1)', 'std::numeric_limits<size_t>::max(): class templates with static members crash goto-cc')])]}, functions=['align/nl_cont.cpp:align_nl_cont'], expect=['align_nl_cont_contract.postcondition', 'loop_decreases'],
                    assumed=['get_next_contract: the list is finite (ghost distance to its end) and the successor of the NullChunk sentinel is the sentinel', 'align_add / ChunkStack::Pop_Back: a finite stack'],
                    mutants=[('null_test_dropped', r'while \(  pc->IsNotNullChunk\(\)\n         && pc->IsNot\(CT_NEWLINE\)', 'while (  pc->IsNot(CT_NEWLINE)', 'loop_decreases|postcondition')]))
WIP_PROOFS[-1].macro_headers = ['../C06/alignnl_macros.h']
EXPLANATION = ('Kernel of C06. CBMC\'s automatic obligations (container preconditions of the vector/deque models, pointer validity, signed overflow, shifts, division by zero) '
               'are the property\'s "never by a memory-safety/undefined-behaviour fault", and the decreases clauses of the loop contracts its "terminates", for every byte '
               'vector / code-point sequence of any length: all decoders of src/unicode.cpp and the white-space primitives of the tokenizer, with progress contracts '
               '(true => cursor advanced, false => cursor restored exactly). Malformed UTF-8/UTF-16 is refused.')
K = ['K10 align_nl_cont: the walk along a continued line ends on every list (also when the file ends inside the continued #define), the stack is emptied', 'K9 parse_cr_string (raw string literals): progress or restore, termination of all four loops (also when the data ends inside the literal), tag_compare only called with both delimiters inside the data', 'K8 find_start_brace (mod_infinite_loop): the walk to the body of a loop ends on every list', 'K7 check_template (forward scan, one iteration under the loop invariant): no access to the bracket stack tokens[max_token_count] leaves the array, however deeply the input nests < and (', 'K5 newlines_eat_start_end: no chunk is deleted twice or touched after its deletion, also when the file is a single newline chunk (head == tail)',
     'K6 configuration values: read_number / Option<bool>::read never read outside the value text, for every text (including the empty one)',
     'K4 uncrustify_file: output_text exactly once and last; an embedded NUL exits before uncrustify_start', 'K1 unicode.cpp decoders: safe and terminating for any length; |out| <= |in|', 'K2 tokenizer white-space primitives: safe, terminating, progress/restore']
G = ['tokenize() main loop terminates given progress of parse_next: parse_next\'s progress contract is proved only for the leaf callees listed here; for parse_number, parse_string, parse_word, parse_comment, ... it is an ASSUMED contract',
     'after output_text only the optional -p dump can still exit non-zero (its fopen is assumed to succeed: environment faults are C13\'s quantifier)',
     'brace_cleanup, combine, indent and the three hangs quoted in the property live in passes outside the kernel: NOT covered',
     'int <-> size_t conversions of code points in the tokenizer are implementation-defined, not undefined (conversion check off there)',
     'inputs smaller than 2^26 code points (column arithmetic proved for columns < 2^32)']


def proofs(tier, workroot):
    """static list + the driver proof (uncrustify_file: shared with C04; its pass stubs are generated per run)"""
    import importlib.util
    here = os.path.dirname(os.path.abspath(__file__))
    sp = importlib.util.spec_from_file_location('c04proofs', os.path.join(here, '..', 'C04', 'proofs.py'))
    c04 = importlib.util.module_from_spec(sp)
    sp.loader.exec_module(c04)
    return list(PROOFS) + [q for q in c04.proofs(tier, workroot) if q.name == 'uncrustify_file']      # only the driver proof (C04's own kernels stay with C04)

sys.path.insert(0, os.path.join(os.path.dirname(os.path.abspath(__file__)), '..', '..', 'tools'))
import replay_lib  # noqa: E402
REPLAY = replay_lib.make_replay(replay_lib.scenario_deep_angles, replay_lib.scenario_loop_without_body, replay_lib.scenario_encoding, replay_lib.scenario_line_endings)


def static_facts(repo):
    """What the one-iteration extraction of the check_template scan drops: the declaration of the stack, the initialisation that establishes the invariant and the for header."""
    return [('check_template: `const int max_token_count = N; E_Token tokens[max_token_count]; size_t num_tokens = 1; tokens[0] = CT_ANGLE_OPEN;` directly precede the for loop over GetNextNcNnl(PREPROC)', _MTC is not None, '')]
