// Translation unit for align_nl_cont() (src/align/nl_cont.cpp, whole function; C06-K10): the walk along a backslash-continued line ends on every chunk list.
// Direct verification conditions.  GetNext() answers with an arbitrary chunk at most g_nav_fuel times, then with the NullChunk sentinel; stepping forward FROM the
// sentinel stays there for ever, so it is an assertion of the navigation model (see find_start_brace).  The ChunkStack holds what align_add() put on it.
#include "token_enum.h"      /* from the working tree: -I <repo>/src */
#define VERIF_E_TOKEN
#include "base.h"
#include "containers.h"
#include "unctext.h"
#include "cpd.h"
#include "chunk.h"
#include "logger.h"
//@slice src/option.h struct iarf_e
//@slice src/option.h struct line_end_e
//@slice src/option.h struct token_pos_e
#include "options_gen.h"
#include "space_gen.h"
using namespace uncrustify;
static Chunk g_pool[3];
static Chunk g_null_chunk;
Chunk *const Chunk::NullChunkPtr = &g_null_chunk;
extern "C" { unsigned g_nav_fuel; size_t g_stack_n, g_added, g_popped; }
Chunk *Chunk::GetNext(const E_Scope) const
{
   VASSERT(!m_nullChunk, "a walk along the chunk list steps forward from the NullChunk sentinel: it stays there, the loop never ends");
   if (g_nav_fuel == 0) { return &g_null_chunk; }
   g_nav_fuel--;
   unsigned k = nondet_uint();
   return (k < 3) ? &g_pool[k] : &g_null_chunk;
}
void Chunk::SetFlagBits(unsigned long b) { if (IsNotNullChunk()) { m_flags |= b; } }        // src/chunk.cpp SetResetFlags(PCF_NONE, b)
struct ChunkStack { Chunk *Pop_Back() { if (g_stack_n == 0) { return &g_null_chunk; } g_stack_n--; g_popped++; unsigned k = nondet_uint(); return &g_pool[k % 3]; } };
static void align_add(ChunkStack &cs, Chunk *pc, size_t &max_col) { g_stack_n++; g_added++; max_col = nondet_size_t(); }
template<typename T> struct numeric_limits { static T max() { return (T)-1; } };
static inline size_t min(size_t a, size_t b) { return (a < b) ? a : b; }
static inline size_t max(size_t a, size_t b) { return (a > b) ? a : b; }
//@slice src/chunk.h fn Chunk::Is
//@slice src/chunk.h fn Chunk::IsNot
//@slice src/chunk.h fn Chunk::GetType
//@slice src/chunk.h fn Chunk::GetColumn
//@slice src/chunk.h fn Chunk::SetColumn
extern "C" {
//@slice src/align/nl_cont.cpp fn align_nl_cont
extern Chunk *const P0 = &g_pool[0]; extern Chunk *const P1 = &g_pool[1]; extern Chunk *const P2 = &g_pool[2]; extern Chunk *const PN = &g_null_chunk;
extern const unsigned CT_NEWLINE_V = CT_NEWLINE, CT_COMMENT_MULTI_V = CT_COMMENT_MULTI;
}
#include "offsets_cpp.h"
