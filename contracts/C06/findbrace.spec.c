/* C06 "any input terminates": find_start_brace() (src/rewrite_infinite_loops.cpp) ends on every chunk list - with the brace that opens the loop body, or, when
 * the list ends first (a `do` that is the last token of the file or of a #define), with the NullChunk sentinel. */
#include "common.h"
extern struct Chunk *const P0, *const P1, *const P2, *const PN; extern const unsigned CT_BRACE_OPEN_V, CT_VBRACE_OPEN_V; extern unsigned g_nav_fuel;
struct Chunk *w_find_start_brace(struct Chunk *pc);
void h_find_start_brace(void)
{
   __CPROVER_havoc_object(P0); __CPROVER_havoc_object(PN);
   Chunk_m_nullChunk(P0) = 0; Chunk_m_nullChunk(P1) = 0; Chunk_m_nullChunk(P2) = 0; Chunk_m_nullChunk(PN) = 1;
   __CPROVER_assume(g_nav_fuel <= 6);
   struct Chunk *r = w_find_start_brace(P0);
   __CPROVER_assert(Chunk_m_nullChunk(r) || Chunk_m_type(r) == CT_BRACE_OPEN_V || Chunk_m_type(r) == CT_VBRACE_OPEN_V, "postcondition: find_start_brace returns an open brace, or the NullChunk when the list ends first");
   if (Chunk_m_nullChunk(r)) { __CPROVER_assert(0, "VACUITY_CANARY find_start_brace: list ended"); }
   if (!Chunk_m_nullChunk(r) && r != P0) { __CPROVER_assert(0, "VACUITY_CANARY find_start_brace: brace found after a walk"); }
}
