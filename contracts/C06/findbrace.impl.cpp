// Translation unit for find_start_brace() (src/rewrite_infinite_loops.cpp, whole function; C06-K8): the walk from a loop keyword to the brace that opens its body.
// Chunk navigation answers with an arbitrary chunk, at most g_nav_fuel times, then with the NullChunk sentinel - and going forward FROM the sentinel stays on the
// sentinel for ever: a walk that does that never ends, so it is an assertion of the navigation model here.
#include "token_enum.h"      /* from the working tree: -I <repo>/src */
#define VERIF_E_TOKEN
#include "base.h"
#include "containers.h"
#include "unctext.h"
#include "cpd.h"
#include "chunk.h"
#include "logger.h"
static Chunk g_pool[3];
static Chunk g_null_chunk;
Chunk *const Chunk::NullChunkPtr = &g_null_chunk;
extern "C" { unsigned g_nav_fuel; }
Chunk *Chunk::GetNextNcNnl(const E_Scope) const
{
   VASSERT(!m_nullChunk, "a walk along the chunk list steps forward from the NullChunk sentinel: it stays there, the loop never ends");
   if (g_nav_fuel == 0) { return &g_null_chunk; }
   g_nav_fuel--;
   unsigned k = nondet_uint();
   return (k < 3) ? &g_pool[k] : &g_null_chunk;
}
//@slice src/chunk.h fn Chunk::Is
//@slice src/chunk.h fn Chunk::GetType
//@slice src/chunk.h fn Chunk::IsBraceOpen
extern "C" {
//@slice src/rewrite_infinite_loops.cpp fn find_start_brace
Chunk *w_find_start_brace(Chunk *pc) { return(find_start_brace(pc)); }
extern Chunk *const P0 = &g_pool[0]; extern Chunk *const P1 = &g_pool[1]; extern Chunk *const P2 = &g_pool[2]; extern Chunk *const PN = &g_null_chunk;
extern const unsigned CT_BRACE_OPEN_V = CT_BRACE_OPEN, CT_VBRACE_OPEN_V = CT_VBRACE_OPEN;
}
#include "offsets_cpp.h"
