// Translation unit for the forward scan of check_template() (src/tokenizer/check_template.cpp; C06-K7): the loop that walks from a `<` to the matching `>`
// and keeps the open brackets seen so far on the local stack `E_Token tokens[1024]`, sliced verbatim as a fragment (from `const int max_token_count = 1024;`
// to `end = pc;`) and wrapped into a function of the locals it uses (start, in_if, in_type_cast).  What the extraction drops: the rest of check_template().
// The chunk list is the environment: every navigation step answers with an arbitrary chunk of the pool (any sequence of tokens, of any length); the helpers that
// retype or split chunks are no-ops on this model.  The contract is memory safety of the stack for every input, by the loop rule applied by hand: ONE ITERATION of the
// loop body (fragment from `log_rule_B("tok_split_gte");` to the brace that closes the for) is run from an arbitrary state that satisfies the invariant
// (1 <= num_tokens <= max_token_count - 1, tokens[0] == CT_ANGLE_OPEN, everything else arbitrary); every array access inside must be in bounds and, unless the
// iteration leaves the loop, the invariant must hold again.  What the extraction drops: the for header and the initialisation `num_tokens = 1; tokens[0] =
// CT_ANGLE_OPEN;` (which establishes the invariant; static fact re-checked on every run, as is the value of max_token_count).
#include "token_enum.h"      /* from the working tree: -I <repo>/src */
#define VERIF_E_TOKEN
#include "base.h"
#include "containers.h"
#include "unctext.h"
#include "cpd.h"
#include "chunk.h"
#include "logger.h"
//@slice src/option.h struct iarf_e
//@slice src/option.h struct line_end_e
//@slice src/option.h struct token_pos_e
//@slice src/language_names.h struct lang_flag_e
#include "options_gen.h"
#include "space_gen.h"     /* generated on this run from src/pcf_flags.h: the PCF_* constants */
using namespace uncrustify;
#define EX_SOFTWARE 70
#define fprintf(...) ((void)0)
#define log_flush(x) ((void)0)
static Chunk g_pool[3];
static Chunk g_null_chunk;
Chunk *const Chunk::NullChunkPtr = &g_null_chunk;
extern "C" { extern bool g_left_loop; }
static Chunk *any_chunk() { unsigned k = nondet_uint(); return (k < 3) ? &g_pool[k] : &g_null_chunk; }
Chunk *Chunk::GetNextNcNnl(const E_Scope) const { return any_chunk(); }
Chunk *Chunk::GetNext(const E_Scope) const { return any_chunk(); }
Chunk *Chunk::GetPrev(const E_Scope) const { return any_chunk(); }
Chunk *Chunk::GetClosingParen(E_Scope) const { return any_chunk(); }
bool Chunk::IsString(const char *, bool) const { return nondet_bool(); }
bool Chunk::TestFlags(unsigned long f) const { return (m_flags & f) == f; }   // flags<>::test of src/enum_flags.h
void Chunk::SetType(const E_Token) { }
void Chunk::SetParentType(const E_Token) { }
extern "C" void exit(int) { __CPROVER_assume(0); }
static void split_off_angle_close(Chunk *) { }
static bool invalid_open_angle_template(Chunk *) { return nondet_bool(); }
static void handle_double_angle_close(Chunk *) { }
static bool detect_cpp_braced_init_list(Chunk *, Chunk *) { return nondet_bool(); }
//@slice src/chunk.h fn Chunk::Is
//@slice src/chunk.h fn Chunk::GetType
//@slice src/chunk.h fn Chunk::GetParentType
//@slice src/chunk.h fn Chunk::Len
//@slice src/unc_text.cpp fn UncText::size
//@slice src/unc_text.cpp fn UncText::operator[]
//@slice src/language_tools.cpp fn language_is_set
extern "C" {
bool g_left_loop;
static E_Token tokens[MAX_TOKEN_COUNT];       // `E_Token tokens[max_token_count];` of check_template() (size read from the working tree on this run)
void check_template_scan_step(Chunk *start, Chunk **pcp, size_t *num_tokens_p, bool in_if, bool in_type_cast)
{
   const int max_token_count = MAX_TOKEN_COUNT;
   Chunk     *pc        = *pcp;
   size_t    num_tokens = *num_tokens_p;
   g_left_loop = true;
   do
   {
      {   // closed by the last line of the fragment (the brace that closes the for of check_template())
//@slice src/tokenizer/check_template.cpp frag check_template_scan /^         log_rule_B\("tok_split_gte"\);$/ /^      \}$/
      g_left_loop = false;      // the iteration ran to its end: the loop goes on
   }
   while (0);
   *pcp = pc; *num_tokens_p = num_tokens;
}
E_Token *const TOKENS = &tokens[0];
// the texts of the pool chunks: the scan looks at the first character and at "longer than one character" only: up to 4 arbitrary characters each
static int g_txt[4][4];
static void setup_text(Chunk *c, int *buf) { c->m_str.m_chars.m_data = buf; c->m_str.m_chars.m_cap = 4; size_t n = nondet_size_t(); __CPROVER_assume(n <= 4); c->m_str.m_chars.m_size = n; }
void setup_pool()
{
   setup_text(&g_pool[0], g_txt[0]); setup_text(&g_pool[1], g_txt[1]); setup_text(&g_pool[2], g_txt[2]); setup_text(&g_null_chunk, g_txt[3]);
   g_pool[0].m_nullChunk = false; g_pool[1].m_nullChunk = false; g_pool[2].m_nullChunk = false; g_null_chunk.m_nullChunk = true;
}
extern Chunk *const P0 = &g_pool[0]; extern Chunk *const P1 = &g_pool[1]; extern Chunk *const P2 = &g_pool[2]; extern Chunk *const PN = &g_null_chunk;
extern const unsigned CT_ANGLE_OPEN_V = CT_ANGLE_OPEN;
}
#include "offsets_cpp.h"
