"""C14 The backup always holds the last text uncrustify did not write itself -- per-run protocol."""
import os
import sys
sys.path.insert(0, os.path.join(os.path.dirname(os.path.abspath(__file__)), '..', 'fileio'))
import fileio_proofs  # noqa: E402
PROOFS = [fileio_proofs.dsf_proof(), fileio_proofs.bcf_proof(), fileio_proofs.md5file_proof(), fileio_proofs.loadmem_proof()]
EXPLANATION = ('Kernel of C14: in do_source_file() the md5 file is written only when the target already holds the bytes this run produced (after the rename, or after the '
               '"no change" unlink) -- precondition g_target_is_final of backup_create_md5_file_contract -- and it is written whenever an in-place run with backups completes.')
K = ['K4 load_mem_file: 0 means every byte of the file (st_size of them) was read into fm.raw - the text that is formatted and the bytes the backup receives - and decoded; a short read or an undecodable text never returns; a file that cannot be opened gives -1; the stream is closed', 'K1 backup_copy_file: md5 of the data equals the recorded md5 (32 hex digits, case-insensitive) => EX_OK without touching the backup; otherwise the backup receives exactly data (pointer and length handed to fwrite, result checked) or the process exits non-zero',
     'K2 backup_create_md5_file: whatever is written to the md5 file is the digest of the WHOLE file - every byte read and fed to the digest in order; a read error never leaves the digest of a prefix behind',
     'K3 md5 recorded after the target is final, and always recorded on a completed in-place run with backups']
G = ['MD5::Calc is an arbitrary fixed digest (the first line of the md5 file, if present, is arbitrary text)',
     'MD5::Update / MD5::Final compute a digest of the bytes fed to them in order (the MD5 implementation itself, src/md5.cpp, is not verified)',
     'histories: the one-step invariant "md5 slot == md5(file) => backup slot holds the pre-uncrustify content" is argued in DESIGN.md, not machine checked; crash points not covered']

sys.path.insert(0, os.path.join(os.path.dirname(os.path.abspath(__file__)), '..', '..', 'tools'))
import replay_lib  # noqa: E402
REPLAY = replay_lib.make_replay(replay_lib.scenario_md5_after_rename, replay_lib.scenario_md5_read_fault, replay_lib.scenario_corrupt_md5_file)
