// Translation unit for the newline add/remove switch (C07-K9): newline_iarf(), newline_iarf_pair() (src/newlines/iarf.cpp) and newlines_remove_newlines()
// (src/newlines/remove.cpp; nl_remove_extra_newlines=2), whole functions, sliced verbatim.  newline_add_between / newline_del_between are recorders; deleting the newline
// in front of disabled-region text (CT_IGNORED) is an assertion of the recorder: it would join the lines of a region.  Direct verification conditions, navigation fuel.
#include "token_enum.h"      /* from the working tree: -I <repo>/src */
#define VERIF_E_TOKEN
#include "base.h"
#include "containers.h"
#include "unctext.h"
#include "cpd.h"
#include "chunk.h"
#include "logger.h"
//@slice src/option.h struct iarf_e
//@slice src/option.h struct line_end_e
//@slice src/option.h struct token_pos_e
#include "options_gen.h"
#include "space_gen.h"
using namespace uncrustify;
inline int operator&(iarf_e a, iarf_e b) { return (int)a & (int)b; }     // flags<iarf_e> bit test
#define log_func_stack(...) ((void)0)
static Chunk g_pool[3];
static Chunk g_null_chunk;
Chunk *const Chunk::NullChunkPtr = &g_null_chunk;
extern "C" { unsigned g_nav_fuel, g_add_n, g_del_n; Chunk *g_add_before, *g_add_after, *g_del_before, *g_del_after; }
static Chunk *nav_chunk() { if (g_nav_fuel == 0) { return &g_null_chunk; } g_nav_fuel--; unsigned k = nondet_uint(); return (k < 3) ? &g_pool[k] : &g_null_chunk; }
Chunk *Chunk::GetHead() { return &g_pool[0]; }
Chunk *Chunk::GetNext(const E_Scope) const { return nav_chunk(); }
Chunk *Chunk::GetPrev(const E_Scope) const { return nav_chunk(); }
Chunk *Chunk::GetNextNl(const E_Scope) const { Chunk *r = nav_chunk(); __CPROVER_assume(r->m_nullChunk || r->m_type == CT_NEWLINE || r->m_type == CT_NL_CONT); return r; }
Chunk *Chunk::GetNextNnl(const E_Scope) const { Chunk *r = nav_chunk(); __CPROVER_assume(r->m_nullChunk || (r->m_type != CT_NEWLINE && r->m_type != CT_NL_CONT)); return r; }
bool Chunk::TestFlags(unsigned long f) const { return (m_flags & f) == f; }   // flags<>::test of src/enum_flags.h
static Chunk *newline_add_between(Chunk *start, Chunk *end) { g_add_n++; g_add_before = start; g_add_after = end; return nav_chunk(); }
static void newline_del_between(Chunk *start, Chunk *end)
{
   VASSERT(end->m_nullChunk || end->m_type != CT_IGNORED, "the newline in front of disabled-region text (CT_IGNORED) is deleted: the lines of a disabled region are joined");
   g_del_n++; g_del_before = start; g_del_after = end;
}
//@slice src/chunk.h fn Chunk::Is
//@slice src/chunk.h fn Chunk::GetType
//@slice src/chunk.h fn Chunk::GetParentType
//@slice src/chunk.h fn Chunk::IsNewline
//@slice src/chunk.h fn Chunk::GetNlCount
//@slice src/chunk.h fn Chunk::SetNlCount
extern "C" {
void newline_iarf_pair(Chunk *before, Chunk *after, iarf_e av, bool check_nl_assign_leave_one_liners = false);
//@slice src/newlines/iarf.cpp fn newline_iarf
//@slice src/newlines/iarf.cpp fn newline_iarf_pair
//@slice src/newlines/remove.cpp fn newlines_remove_newlines
void w_newline_iarf_pair(Chunk *b, Chunk *a, int av, bool chk) { newline_iarf_pair(b, a, (iarf_e)av, chk); }
extern Chunk *const P0 = &g_pool[0]; extern Chunk *const P1 = &g_pool[1]; extern Chunk *const P2 = &g_pool[2]; extern Chunk *const PN = &g_null_chunk;
extern const unsigned CT_IGNORED_V = CT_IGNORED;
}
#include "offsets_cpp.h"
