/* C07 "Disabled regions are copied through untouched": which comment opens and which closes a region (tail of parse_comment()).
 * Within one comment the marker that comes last decides: a comment holding only the disable marker, or the enable marker BEFORE the disable marker,
 * opens a region; the enable marker after the disable marker closes it again within the same comment; inside a region only the enable marker counts. */
#include "common.h"
extern int g_pos_enable, g_pos_disable; extern unsigned g_find_enable_n, g_find_disable_n;
_Bool parse_comment_markers(struct Chunk *pc);
_Bool nondet_bool(void);
void h_parse_comment_markers(void)
{
   struct Chunk *pc = malloc(SIZEOF_Chunk);
   __CPROVER_assume(pc != 0 && g_pos_enable >= -1 && g_pos_disable >= -1);
   __CPROVER_assume(g_pos_enable < 0 || g_pos_disable < 0 || g_pos_enable != g_pos_disable);    /* two different markers do not start at the same place */
   _Bool off0 = CPD(unc_off), used0 = CPD(unc_off_used);
   _Bool r = parse_comment_markers(pc);
   __CPROVER_assert(r, "postcondition: parse_comment tail returns true");
   /* inside a region: it ends exactly when the enable marker occurs in the comment */
   __CPROVER_assert(off0 ==> (!CPD(unc_off) == (g_pos_enable >= 0)), "postcondition: parse_comment inside a disabled region only the enable marker ends it");
   /* outside: a region begins exactly when the disable marker occurs and no enable marker follows it in the same comment */
   __CPROVER_assert(!off0 ==> (!!CPD(unc_off) == (g_pos_disable >= 0 && g_pos_enable < g_pos_disable)), "postcondition: parse_comment a region begins iff the disable marker is the last marker of the comment");
   __CPROVER_assert((!off0 && CPD(unc_off)) ==> CPD(unc_off_used), "postcondition: parse_comment opening a region is recorded in unc_off_used");
   __CPROVER_assert(!(!off0 && CPD(unc_off)) ==> (!CPD(unc_off_used) == !used0), "postcondition: parse_comment unc_off_used otherwise untouched");
   if (!off0 && CPD(unc_off)) { __CPROVER_assert(0, "VACUITY_CANARY region opened"); }
   if (off0 && !CPD(unc_off)) { __CPROVER_assert(0, "VACUITY_CANARY region closed"); }
   if (!off0 && !CPD(unc_off) && g_pos_disable >= 0) { __CPROVER_assert(0, "VACUITY_CANARY region opened and closed in one comment"); }
}
