/* C07 "Disabled regions are copied through untouched": the line breaks of a region are part of it.  Every newline removal that goes through newline_iarf() /
 * newline_iarf_pair() (src/newlines/iarf.cpp) stops at the guard `after->Is(CT_IGNORED)`; newlines_remove_newlines() (nl_remove_extra_newlines=2) removes newlines only
 * through it.  Also C19-like: the pair function does what the IARF value says (Ignore: nothing; Add/Force: one newline_add_between; Remove: one newline_del_between). */
#include "common.h"
extern unsigned g_nav_fuel, g_add_n, g_del_n; extern struct Chunk *g_add_before, *g_add_after, *g_del_before, *g_del_after;
extern struct Chunk *const P0, *const P1, *const P2, *const PN; extern const unsigned CT_IGNORED_V;
void w_newline_iarf_pair(struct Chunk *b, struct Chunk *a, int av, _Bool chk);
void newlines_remove_newlines(void);
_Bool nondet_bool(void); int nondet_int(void);
static void setup(void)
{
   __CPROVER_havoc_object(P0); __CPROVER_havoc_object(PN);
   Chunk_m_nullChunk(P0) = 0; Chunk_m_nullChunk(P1) = 0; Chunk_m_nullChunk(P2) = 0; Chunk_m_nullChunk(PN) = 1;
   g_add_n = 0; g_del_n = 0;
}
void h_newline_iarf_pair(void)
{
   setup();
   __CPROVER_assume(g_nav_fuel <= 2);
   int av = nondet_int(); __CPROVER_assume(av >= 0 && av <= 3);
   _Bool b_null = nondet_bool(), a_null = nondet_bool();
   struct Chunk *before = b_null ? PN : P0, *after = a_null ? PN : P1;
   w_newline_iarf_pair(before, after, av, nondet_bool());
   __CPROVER_assert((b_null || a_null || Chunk_m_type(after) == CT_IGNORED_V) ==> (g_add_n == 0 && g_del_n == 0), "postcondition: newline_iarf_pair does nothing next to the end of the list or in front of disabled-region text");
   __CPROVER_assert(av == 0 ==> (g_add_n == 0 && g_del_n == 0), "postcondition: newline_iarf_pair Ignore changes nothing");
   __CPROVER_assert(g_del_n > 0 ==> (av == 2 && g_del_n == 1 && g_del_before == before && g_del_after == after), "postcondition: newline_iarf_pair deletes only for Remove, once, between the two chunks given");
   __CPROVER_assert(g_add_n > 0 ==> ((av & 1) && g_add_n == 1 && g_add_before == before && g_add_after == after), "postcondition: newline_iarf_pair adds only for Add/Force, once, between the two chunks given");
   __CPROVER_assert((av == 2 && !b_null && !a_null && Chunk_m_type(after) != CT_IGNORED_V) ==> g_del_n == 1, "postcondition: newline_iarf_pair Remove removes");
   if (g_del_n == 1) { __CPROVER_assert(0, "VACUITY_CANARY iarf_pair: removed"); }
   if (g_add_n == 1) { __CPROVER_assert(0, "VACUITY_CANARY iarf_pair: added"); }
}
void h_newlines_remove_newlines(void)
{
   setup();
   __CPROVER_assume(g_nav_fuel <= 7);
   newlines_remove_newlines();
   __CPROVER_assert(g_add_n == 0, "postcondition: newlines_remove_newlines adds no newline");
   if (g_del_n > 1) { __CPROVER_assert(0, "VACUITY_CANARY remove_newlines: several newlines removed"); }
   if (g_del_n == 0) { __CPROVER_assert(0, "VACUITY_CANARY remove_newlines: nothing removed"); }
}
