"""C07 Disabled regions are copied through untouched (raw emission + blank-line path of the capture)."""
import os
import sys
sys.path.insert(0, os.path.join(os.path.dirname(os.path.abspath(__file__)), '..', 'shared'))
import output_proofs  # noqa: E402
import tokenizer_proofs  # noqa: E402
import outtext_proofs  # noqa: E402
import end_proof  # noqa: E402
NEED_OPTIONS = True
PROOFS = output_proofs.select(['add_text_ignored']) + tokenizer_proofs.select(['tok_layout', 'parse_off_newlines', 'parse_newline', 'parse_next_head']) + [outtext_proofs.iteration_proof(), end_proof.end_proof()]
EXPLANATION = ('Kernel of C07: add_text(text, is_ignored=true) hands text[0..n) to write_char unchanged and in order and touches neither cpd.column, cpd.spaces nor '
               'cpd.last_char (frame); the blank-line path of parse_ignored (parse_off_newlines) consumes only blanks and terminators and reports their exact count.')
K = ['K2 add_text(is_ignored): raw emission, frame excludes column logic', 'K5 parse_next (head): while cpd.unc_off is set parse_ignored is the first tokenizer tried, and when it takes the text no other tokenizer is consulted; outside a region it is not consulted',
     'K6 uncrustify_end: cpd.unc_off is cleared after every file (a region left open does not disable processing of the next file)',
     'K1b parse_off_newlines: only blanks/terminators consumed, nl_count exact',
     'K3 output_text (one iteration of the chunk loop): a CT_IGNORED / CT_JUNK chunk is written by exactly one add_text(str, is_ignored=true) and nothing else (no output_to_column, no add_char, column/pending blanks/line state untouched)']
G = ['parse_ignored line path (pc.str == data[old idx .. new idx), no CR/LF inside): not yet under contract',
     'no later pass edits or deletes CT_IGNORED chunks or inserts chunks between them (the two defects quoted in the property live there and are not in this kernel)',
     'write_char encodes each code point exactly (C09)']
MACRO_HEADERS = ['output_macros.h', 'tokenizer_macros.h']

sys.path.insert(0, os.path.join(os.path.dirname(os.path.abspath(__file__)), '..', '..', 'tools'))
import replay_lib  # noqa: E402
REPLAY = replay_lib.make_replay(replay_lib.scenario_ignored_region)


def static_facts(repo):
    return outtext_proofs.static_facts(repo)
