"""C07 Disabled regions are copied through untouched (raw emission + blank-line path of the capture)."""
import os
import sys
sys.path.insert(0, os.path.join(os.path.dirname(os.path.abspath(__file__)), '..', 'shared'))
import output_proofs  # noqa: E402
import tokenizer_proofs  # noqa: E402
import outtext_proofs  # noqa: E402
import end_proof  # noqa: E402
NEED_OPTIONS = True
sys.path.insert(0, os.path.join(os.path.dirname(os.path.abspath(__file__)), '..', '..', 'tools'))
from prover import Proof  # noqa: E402


def nliarf_proofs():
    common = dict(impl='contracts/C07/nliarf.impl.cpp', spec='contracts/C07/nliarf.spec.c', plain=True, no_contract=True, canaries=2, rules={}, nondet_static='.*(optv_|g_nav_fuel).*',
                  drop_flags=['--conversion-check'], assumed=['chunk navigation (fuel)', 'newline_add_between / newline_del_between: recorded, not verified here'])
    return [Proof('newline_iarf_pair', harness='h_newline_iarf_pair', unwind=4, expect=['postcondition: newline_iarf_pair'], functions=['newlines/iarf.cpp:newline_iarf_pair'],
                  mutants=[('ignored_guard_dropped', r'\n      \|\| after->Is\(CT_IGNORED\)\)', ')', 'postcondition|disabled region'),
                           ('remove_adds', r'      newline_del_between\(before, after\);', '      newline_add_between(before, after);', 'postcondition')], **common),
            Proof('newlines_remove_newlines', harness='h_newlines_remove_newlines', unwind=10, slice_formula=True, expect=['postcondition: newlines_remove_newlines'],
                  functions=['newlines/remove.cpp:newlines_remove_newlines', 'newlines/iarf.cpp:newline_iarf', 'newlines/iarf.cpp:newline_iarf_pair'],
                  mutants=[('deletes_directly', r'newline_iarf\(pc, IARF_REMOVE\);', 'newline_del_between(pc, pc->GetNextNnl());', 'disabled region|assertion')], **common)]


def marker_proof():
    return Proof('parse_comment_markers', impl='contracts/C07/marker.impl.cpp', spec='contracts/C07/marker.spec.c', harness='h_parse_comment_markers', plain=True, no_contract=True, canaries=3,
                 rules={'parse_comment_markers': [('D8', [(r'const auto &ontext(\s*)= ', r'const verif_string &ontext\1= ', 'auto of the option text (used for logging only)', True),
                                                          (r'const auto &offtext(\s*)= ', r'const verif_string &offtext\1= ', 'auto of the option text (used for logging only)', True)])]},
                 nondet_static='.*(cpd|g_pos_|g_find_).*', expect=['postcondition: parse_comment'],
                 functions=['tokenize.cpp:parse_comment (fragment: region marker decision)'],
                 assumed=['find_enable_/find_disable_processing_comment_marker: position of the marker in the comment text, or -1'],
                 mutants=[('enable_anywhere_blocks_region', r'if \(position_enable_processing_cmt < position_disable_processing_cmt\)', 'if (position_enable_processing_cmt < 0)', 'postcondition'),
                          ('region_never_ends', r'cpd\.unc_off = false;', '', 'postcondition'),
                          ('used_flag_forgotten', r'cpd\.unc_off_used = true;', '', 'postcondition')])


PROOFS = output_proofs.select(['add_text_ignored']) + tokenizer_proofs.select(['tok_layout', 'parse_off_newlines', 'parse_newline', 'parse_next_head', 'tokenize_strip']) + [outtext_proofs.iteration_proof(), end_proof.end_proof(), marker_proof()] + nliarf_proofs()
EXPLANATION = ('Kernel of C07: add_text(text, is_ignored=true) hands text[0..n) to write_char unchanged and in order and touches neither cpd.column, cpd.spaces nor '
               'cpd.last_char (frame); the blank-line path of parse_ignored (parse_off_newlines) consumes only blanks and terminators and reports their exact count.')
K = ['K9 newline_iarf / newline_iarf_pair / newlines_remove_newlines: no newline in front of disabled-region text is deleted through the IARF switch (guard after->Is(CT_IGNORED)), and nl_remove_extra_newlines=2 deletes only through that switch; the pair function does what the IARF value says', 'K8 tokenize() strip loop: the text of a CT_IGNORED chunk (disabled region) is never stripped', 'K7 parse_comment (tail): a region begins exactly at a comment whose last marker is the disable marker, ends exactly at a comment holding the enable marker, and opening one is recorded in unc_off_used', 'K2 add_text(is_ignored): raw emission, frame excludes column logic', 'K5 parse_next (head): while cpd.unc_off is set parse_ignored is the first tokenizer tried, and when it takes the text no other tokenizer is consulted; outside a region it is not consulted',
     'K6 uncrustify_end: cpd.unc_off is cleared after every file (a region left open does not disable processing of the next file)',
     'K1b parse_off_newlines: only blanks/terminators consumed, nl_count exact',
     'K3 output_text (one iteration of the chunk loop): a CT_IGNORED / CT_JUNK chunk is written by exactly one add_text(str, is_ignored=true) and nothing else (no output_to_column, no add_char, column/pending blanks/line state untouched)']
G = ['parse_ignored line path (pc.str == data[old idx .. new idx), no CR/LF inside): not yet under contract',
     'no later pass edits or deletes CT_IGNORED chunks or inserts chunks between them (the two defects quoted in the property live there and are not in this kernel)',
     'write_char encodes each code point exactly (C09)']
MACRO_HEADERS = ['output_macros.h', 'tokenizer_macros.h']

sys.path.insert(0, os.path.join(os.path.dirname(os.path.abspath(__file__)), '..', '..', 'tools'))
import replay_lib  # noqa: E402
REPLAY = replay_lib.make_replay(replay_lib.scenario_ignored_region)


def static_facts(repo):
    return outtext_proofs.static_facts(repo)
