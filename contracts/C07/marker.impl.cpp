// Translation unit for the region markers (C07-K7): the tail of parse_comment() (src/tokenizer/tokenize.cpp) that decides, for the comment just
// captured, whether a disabled region begins or ends - fragment from `if (cpd.unc_off)` to the end of the function, sliced verbatim.
// find_enable_/find_disable_processing_comment_marker (text search) answer arbitrarily: a position >= 0, or -1 for "not in this comment".
#include "token_enum.h"      /* from the working tree: -I <repo>/src */
#define VERIF_E_TOKEN
#include "base.h"
#include "containers.h"
#include "unctext.h"
#include "cpd.h"
#include "chunk.h"
#include "logger.h"
//@slice src/option.h struct iarf_e
//@slice src/option.h struct line_end_e
//@slice src/option.h struct token_pos_e
#include "options_gen.h"
using namespace uncrustify;
extern "C" { int g_pos_enable, g_pos_disable; unsigned g_find_enable_n, g_find_disable_n; }
static int find_enable_processing_comment_marker(const UncText &text) { g_find_enable_n++; return(g_pos_enable); }
static int find_disable_processing_comment_marker(const UncText &text) { g_find_disable_n++; return(g_pos_disable); }
const UncText &Chunk::GetStr() const { return(m_str); }
size_t Chunk::GetOrigLine() const { return(m_origLine); }
extern "C" {
bool parse_comment_markers(Chunk &pc)
{
//@slice src/tokenizer/tokenize.cpp frag parse_comment_markers /^   if \(cpd\.unc_off\)\n   \{\n      bool found_enable_marker/ /^\} \/\/ parse_comment$/
}
#include "offsets_cpp.h"
