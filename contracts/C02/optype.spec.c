/* C02 "no two tokens fuse": tokenize_cleanup() merges the tokens of a conversion operator's type into one chunk text, with as many blanks between two of them as
 * space_needed() says.  Whatever the spacing options say, two words (`const` `char`, `unsigned` `int`) must not be joined into one. */
#include "common.h"
extern size_t g_blanks_appended, g_space_needed; extern unsigned g_texts_appended; extern _Bool g_blank_after_text, g_last_is_word, g_first_is_word;
extern struct Chunk *const NEXTC, *const TMP2C, *const TMPC;
void collect_operator_type_step(struct Chunk *next, struct Chunk *tmp2, struct Chunk *tmp);
static void mk_text(struct Chunk *p)
{
   size_t cap = nondet_size_t();
   __CPROVER_assume(cap >= 1 && cap <= 8);
   DI_cap(UT_chars(Chunk_m_str(p))) = cap; __CPROVER_assume(DI_size(UT_chars(Chunk_m_str(p))) >= 1 && DI_size(UT_chars(Chunk_m_str(p))) <= cap);
   DI_data(UT_chars(Chunk_m_str(p))) = malloc(cap * sizeof(int));
   __CPROVER_assume(DI_data(UT_chars(Chunk_m_str(p))) != (int *)0);
}
size_t nondet_size_t(void);
void h_collect_operator_type_step(void)
{
   __CPROVER_havoc_object(NEXTC); __CPROVER_havoc_object(TMP2C); __CPROVER_havoc_object(TMPC);
   Chunk_m_nullChunk(NEXTC) = 0; Chunk_m_nullChunk(TMP2C) = 0; Chunk_m_nullChunk(TMPC) = 0;
   mk_text(NEXTC); mk_text(TMPC);        /* tokens have a text of at least one character */
   g_blanks_appended = 0; g_texts_appended = 0; g_blank_after_text = 0;
   __CPROVER_assume(g_space_needed <= 4);
   collect_operator_type_step(NEXTC, TMP2C, TMPC);
   __CPROVER_assert(g_texts_appended == 1 && !g_blank_after_text, "postcondition: operator type: the token is appended once, after the blanks");
   __CPROVER_assert((g_last_is_word && g_first_is_word) ==> g_blanks_appended >= 1, "postcondition: operator type: two words are never joined (at least one blank between a text ending in a word character and a token starting with one)");
   __CPROVER_assert(g_blanks_appended >= g_space_needed, "postcondition: operator type: at least the blanks the spacing options ask for");
   if (g_blanks_appended == 0) { __CPROVER_assert(0, "VACUITY_CANARY operator type: tokens joined (e.g. char + *)"); }
   if (g_blanks_appended > 1) { __CPROVER_assert(0, "VACUITY_CANARY operator type: several blanks"); }
}
