// Translation unit for the chunk-list primitives (C02-K1, C04-K4): class ChunkListManager of src/ListManager.h,
// sliced whole.  Nodes live in a pool of 8 Chunk objects with arbitrary links between them (every aliasing
// pattern of the arguments and their neighbours occurs); see the small-model argument in contracts/C02/proofs.py.
#include "base.h"
// Environment: the only members of Chunk that ChunkListManager touches are m_next, m_prev and the NullChunk
// sentinel; a Chunk reduced to these keeps the symbolic heap small (the real class has ~25 further members).
class Chunk                              //@struct-local
{
public:
   static Chunk *const NullChunkPtr;
   Chunk *m_next;
   Chunk *m_prev;
};
// 8 separate objects (an array indexed by a symbolic value makes every link access a byte-level array read)
static Chunk n0, n1, n2, n3, n4, n5, n6, n7;
static Chunk g_null_chunk;
Chunk *const Chunk::NullChunkPtr = &g_null_chunk;
//@slice src/ListManager.h struct ChunkListManager
struct LM : ChunkListManager { Chunk *&head() { return m_head; } Chunk *&tail() { return m_tail; } };
static LM g_lm;
#define CANARY(msg) __CPROVER_assert(0, "VACUITY_CANARY " msg)
#define ENSURE(c, msg) __CPROVER_assert((c), "postcondition: " msg)
// ---------------------------------------------------------------------------------------------------------------
// Contracts of the primitives, checked as direct verification conditions: assume(requires); snapshot; call the real
// member function; assert(ensures).  (goto-instrument's DFCC instrumentation of a heap with symbolic links does not
// terminate within the time budget: each store is compared against every assigns target of every candidate object.
// The functions are loop free and all inputs are fully symbolic, so this harness form is a complete proof of the
// contract; the frame is part of the postcondition: "every link of an untouched observer node is unchanged".)
// ---------------------------------------------------------------------------------------------------------------
#define NIL (&g_null_chunk)
#define HEAD (g_lm.head())
#define TAIL (g_lm.tail())
#define NEXT(p) ((p)->m_next)
#define PREV(p) ((p)->m_prev)
#define IMP(a, b) (!(a) || (b))
// representation invariant at node x (links mutually consistent; head/tail are exactly the linked nodes without predecessor/successor)
static bool INV(const Chunk *x)
{
   return IMP(NEXT(x) != NIL, PREV(NEXT(x)) == x) && IMP(PREV(x) != NIL, NEXT(PREV(x)) == x)
          && IMP(PREV(x) == NIL && (NEXT(x) != NIL || TAIL == x), HEAD == x)
          && IMP(NEXT(x) == NIL && (PREV(x) != NIL || HEAD == x), TAIL == x)
          && IMP(HEAD == x, PREV(x) == NIL) && IMP(TAIL == x, NEXT(x) == NIL);
}
static bool INV_LM() { return ((HEAD == NIL) == (TAIL == NIL)) && IMP(HEAD != NIL, INV(HEAD)) && IMP(TAIL != NIL, INV(TAIL)); }
static bool INV_NB(const Chunk *p) { return p == NIL || (INV(p) && (NEXT(p) == NIL || INV(NEXT(p))) && (PREV(p) == NIL || INV(PREV(p)))); }
static bool UNLINKED(const Chunk *x) { return NEXT(x) == NIL && PREV(x) == NIL && HEAD != x && TAIL != x; }
// 8 nodes and NIL; every link, head, tail, the observer X and the arguments are arbitrary members
static Chunk *pick()
{
   switch (nondet_uint())
   {
   case 0: return &n0; case 1: return &n1; case 2: return &n2; case 3: return &n3;
   case 4: return &n4; case 5: return &n5; case 6: return &n6; case 7: return &n7;
   default: return NIL;
   }
}
// ghost ranking that makes the *input* heap acyclic (a real chunk list is NIL-terminated in both directions):
// following m_next strictly increases the rank.  Used in preconditions only.
static unsigned r0, r1, r2, r3, r4, r5, r6, r7;
static unsigned rank(const Chunk *p) { return p == &n0 ? r0 : p == &n1 ? r1 : p == &n2 ? r2 : p == &n3 ? r3 : p == &n4 ? r4 : p == &n5 ? r5 : p == &n6 ? r6 : r7; }
static bool RANKED(const Chunk *x) { return IMP(NEXT(x) != NIL, rank(NEXT(x)) > rank(x)); }
static Chunk *X;                                        // arbitrary observer node ("for all X")
static Chunk *oHEAD, *oTAIL, *oXn, *oXp;                // snapshots ("old")
static void setup_pool()
{
   n0.m_next = pick(); n0.m_prev = pick(); n1.m_next = pick(); n1.m_prev = pick(); n2.m_next = pick(); n2.m_prev = pick();
   n3.m_next = pick(); n3.m_prev = pick(); n4.m_next = pick(); n4.m_prev = pick(); n5.m_next = pick(); n5.m_prev = pick();
   n6.m_next = pick(); n6.m_prev = pick(); n7.m_next = pick(); n7.m_prev = pick();
   g_null_chunk.m_next = NIL; g_null_chunk.m_prev = NIL;
   HEAD = pick(); TAIL = pick(); X = pick();
   r0 = nondet_uint(); r1 = nondet_uint(); r2 = nondet_uint(); r3 = nondet_uint(); r4 = nondet_uint(); r5 = nondet_uint(); r6 = nondet_uint(); r7 = nondet_uint();
   __CPROVER_assume(RANKED(&n0) && RANKED(&n1) && RANKED(&n2) && RANKED(&n3) && RANKED(&n4) && RANKED(&n5) && RANKED(&n6) && RANKED(&n7));
   __CPROVER_assume(X != NIL && INV_LM() && INV(X));
   oHEAD = HEAD; oTAIL = TAIL; oXn = NEXT(X); oXp = PREV(X);
}
#define X_UNTOUCHED (NEXT(X) == oXn && PREV(X) == oXp)
#define NULL_UNTOUCHED ENSURE(NEXT(NIL) == NIL && PREV(NIL) == NIL, "the NullChunk sentinel is never written")
extern "C" {
void h_lm_layout() { CANARY("layout end"); }

// Remove(obj): the sequence without obj; order of all others kept
void h_Remove()
{
   setup_pool(); Chunk *obj = pick(); __CPROVER_assume(INV_NB(obj));
   Chunk *oN = NEXT(obj), *oP = PREV(obj);
   g_lm.Remove(obj);
   ENSURE(INV_LM() && INV(X), "Remove preserves the list invariant");
   if (obj != NIL)
   {
      ENSURE(UNLINKED(obj), "Remove: obj is out of the list");
      ENSURE(IMP(oP != NIL, NEXT(oP) == oN) && IMP(oN != NIL, PREV(oN) == oP), "Remove: predecessor and successor are joined");
      ENSURE(HEAD == (oHEAD == obj ? oN : oHEAD) && TAIL == (oTAIL == obj ? oP : oTAIL), "Remove: head/tail");
      ENSURE(IMP(X != obj && X != oP && X != oN, X_UNTOUCHED), "Remove: nothing else moves");
      ENSURE(IMP(X != obj && X == oP, PREV(X) == oXp) && IMP(X != obj && X == oN, NEXT(X) == oXn), "Remove: outer links of the neighbours unchanged");
      CANARY("Remove non-null");
   }
   else
   {
      ENSURE(X_UNTOUCHED && HEAD == oHEAD && TAIL == oTAIL, "Remove(NullChunk) is a no-op");
   }
   NULL_UNTOUCHED;
}
// AddAfter(obj, ref): obj (not in the list) is inserted directly after ref (in the list)
void h_AddAfter()
{
   setup_pool(); Chunk *obj = pick(), *ref = pick();
   __CPROVER_assume(INV_NB(obj) && INV_NB(ref) && IMP(obj != NIL && ref != NIL, obj != ref && UNLINKED(obj) && !UNLINKED(ref)));
   Chunk *oRN = NEXT(ref), *oRP = PREV(ref);
   g_lm.AddAfter(obj, ref);
   ENSURE(INV_LM() && INV(X), "AddAfter preserves the list invariant");
   if (obj != NIL && ref != NIL)
   {
      ENSURE(NEXT(ref) == obj && PREV(obj) == ref && NEXT(obj) == oRN && PREV(ref) == oRP, "AddAfter: ref obj old-next(ref)");
      ENSURE(HEAD == oHEAD && TAIL == (oTAIL == ref ? obj : oTAIL), "AddAfter: head/tail");
      ENSURE(IMP(X != obj && X != ref && X != oRN, X_UNTOUCHED) && IMP(X != obj && X != ref && X == oRN, NEXT(X) == oXn), "AddAfter: nothing else moves");
      CANARY("AddAfter inserts");
   }
   else
   {
      ENSURE(X_UNTOUCHED && HEAD == oHEAD && TAIL == oTAIL, "AddAfter with a NullChunk argument is a no-op");
   }
   NULL_UNTOUCHED;
}
// AddBefore(obj, ref): obj is taken out of wherever it is and inserted directly before ref
void h_AddBefore()
{
   setup_pool(); Chunk *obj = pick(), *ref = pick();
   __CPROVER_assume(INV_NB(obj) && INV_NB(ref) && IMP(obj != NIL && ref != NIL, obj != ref && !UNLINKED(ref)));
   Chunk *oON = NEXT(obj), *oOP = PREV(obj), *oRP = PREV(ref), *oRN = NEXT(ref);
   g_lm.AddBefore(obj, ref);
   ENSURE(INV_LM() && INV(X), "AddBefore preserves the list invariant");
   if (obj != NIL && ref != NIL)
   {
      ENSURE(PREV(ref) == obj && NEXT(obj) == ref, "AddBefore: obj ref");
      ENSURE(PREV(obj) == (oON == ref ? oOP : (oRP == obj ? oOP : oRP)), "AddBefore: predecessor of obj is the old predecessor of ref");
      ENSURE(NEXT(ref) == (oRN == obj ? oON : oRN), "AddBefore: successor of ref (obj's old successor if obj followed ref)");
      ENSURE(IMP(X != obj && X != ref && X != oRP && X != oOP && X != oON, X_UNTOUCHED), "AddBefore: nothing else moves");
      CANARY("AddBefore inserts");
   }
   else
   {
      ENSURE(X_UNTOUCHED && HEAD == oHEAD && TAIL == oTAIL, "AddBefore with a NullChunk argument is a no-op");
   }
   NULL_UNTOUCHED;
}
// AddTail / AddHead: obj (a real node, not in the list) becomes the last / first element
void h_AddTail()
{
   setup_pool(); Chunk *obj = pick(); __CPROVER_assume(obj != NIL && INV_NB(obj) && UNLINKED(obj));
   g_lm.AddTail(obj);
   ENSURE(INV_LM() && INV(X), "AddTail preserves the list invariant");
   ENSURE(TAIL == obj && NEXT(obj) == NIL && PREV(obj) == oTAIL && HEAD == (oHEAD == NIL ? obj : oHEAD), "AddTail: obj is the new tail");
   ENSURE(IMP(oTAIL != NIL, NEXT(oTAIL) == obj), "AddTail: old tail points to obj");
   ENSURE(IMP(X != obj && X != oTAIL, X_UNTOUCHED) && IMP(X != obj && X == oTAIL, PREV(X) == oXp), "AddTail: nothing else moves");
   NULL_UNTOUCHED;
   CANARY("AddTail returns");
}
void h_AddHead()
{
   setup_pool(); Chunk *obj = pick(); __CPROVER_assume(obj != NIL && INV_NB(obj) && UNLINKED(obj));
   g_lm.AddHead(obj);
   ENSURE(INV_LM() && INV(X), "AddHead preserves the list invariant");
   ENSURE(HEAD == obj && PREV(obj) == NIL && NEXT(obj) == oHEAD && TAIL == (oTAIL == NIL ? obj : oTAIL), "AddHead: obj is the new head");
   ENSURE(IMP(oHEAD != NIL, PREV(oHEAD) == obj), "AddHead: old head points back to obj");
   ENSURE(IMP(X != obj && X != oHEAD, X_UNTOUCHED) && IMP(X != obj && X == oHEAD, NEXT(X) == oXn), "AddHead: nothing else moves");
   NULL_UNTOUCHED;
   CANARY("AddHead returns");
}
// Swap(a, b): a and b (both in the list, distinct) exchange positions; everything else keeps its place
void h_Swap()
{
   setup_pool(); Chunk *a = pick(), *b = pick();
   __CPROVER_assume(INV_NB(a) && INV_NB(b) && IMP(a != NIL && b != NIL, a != b && !UNLINKED(a) && !UNLINKED(b)));
   // neighbours of neighbours are read by the inner Remove/AddAfter calls
   __CPROVER_assume(IMP(a != NIL, INV_NB(NEXT(a)) && INV_NB(PREV(a))) && IMP(b != NIL, INV_NB(NEXT(b)) && INV_NB(PREV(b))));
   Chunk *aN = NEXT(a), *aP = PREV(a), *bN = NEXT(b), *bP = PREV(b);
   // call-site precondition: in the non-adjacent case neither argument is the head of the list.  (Without it the proof
   // fails: Swap() re-inserts with AddAfter(obj, old predecessor), which is a no-op when that predecessor is the
   // NullChunk, so the other node would be dropped from the list.  Callers: class_colon_pos.cpp swaps adjacent chunks,
   // Chunk::SwapLines swaps the two newline chunks that end the lines; see DESIGN.md, latent hazards.)
   __CPROVER_assume(IMP(a != NIL && b != NIL && aN != b && bN != a, aP != NIL && bP != NIL));
   // exhaustive case split over the three shapes the code distinguishes (one proof per case, run in parallel):
   //   SWAP_CASE 0: an argument is the NullChunk, or the two nodes are not adjacent;  1: a directly before b;  2: b directly before a
#if SWAP_CASE == 0
   __CPROVER_assume(a == NIL || b == NIL || (aN != b && bN != a));
#elif SWAP_CASE == 1
   __CPROVER_assume(a != NIL && b != NIL && aN == b);
#else
   __CPROVER_assume(a != NIL && b != NIL && aN != b && bN == a);
#endif
   g_lm.Swap(a, b);
   ENSURE(INV_LM() && INV(X), "Swap preserves the list invariant");
   if (a != NIL && b != NIL)
   {
      ENSURE(IMP(aN != b && bN != a, NEXT(a) == bN && PREV(a) == bP && NEXT(b) == aN && PREV(b) == aP), "Swap (not adjacent): each takes the other's neighbours");
      ENSURE(IMP(aN == b, PREV(b) == aP && NEXT(b) == a && PREV(a) == b && NEXT(a) == bN), "Swap (a directly before b): P a b N -> P b a N");
      ENSURE(IMP(bN == a, PREV(a) == bP && NEXT(a) == b && PREV(b) == a && NEXT(b) == aN), "Swap (b directly before a): P b a N -> P a b N");
      ENSURE(IMP(X != a && X != b && X != aP && X != aN && X != bP && X != bN, X_UNTOUCHED), "Swap: nothing else moves");
      CANARY("Swap exchanges");
   }
   else
   {
      ENSURE(X_UNTOUCHED && HEAD == oHEAD && TAIL == oTAIL, "Swap with a NullChunk argument is a no-op");
   }
   NULL_UNTOUCHED;
}
}
