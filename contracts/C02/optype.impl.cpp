// Translation unit for the operator-type collection of tokenize_cleanup() (src/tokenizer/tokenize_cleanup.cpp; C02-K7): the tokens of a conversion operator's type
// (`operator const char *`) are merged into ONE chunk text.  One iteration of the collecting loop, sliced verbatim as a fragment (from `make_type(tmp);` to
// `tmp2 = tmp;`) and wrapped into a function of the locals it uses (next = the chunk that collects, tmp2 = the previous token, tmp = the token being added).
// What the extraction drops: the loop header and the rest of tokenize_cleanup().  UncText::append records what is appended to the collected text; space_needed()
// answers with any number of blanks (its own contract - C19/C02-K3 - gives a blank only for a pair flagged PCF_FORCE_SPACE, and no flag is set this early).
#include "token_enum.h"      /* from the working tree: -I <repo>/src */
#define VERIF_E_TOKEN
#include "base.h"
#include "containers.h"
#include "unctext.h"
#include "cpd.h"
#include "chunk.h"
#include "logger.h"
static Chunk g_next, g_tmp2, g_tmp, g_null_chunk;
Chunk *const Chunk::NullChunkPtr = &g_null_chunk;
extern "C" {
size_t g_blanks_appended; unsigned g_texts_appended; bool g_blank_after_text, g_last_is_word, g_first_is_word; size_t g_space_needed;
}
static void make_type(Chunk *) { }
static size_t space_needed(Chunk *, Chunk *) { return(g_space_needed); }
// the lexical table: is the character a word character (CharTable::IsKw1: may start a word, IsKw2: may continue one) - arbitrary, but one answer per question
namespace CharTable
{
static inline bool IsKw1(size_t) { return(g_first_is_word); }
static inline bool IsKw2(size_t) { return(g_last_is_word); }
}
void UncText::append(const char *t) { VASSERT(t[0] == ' ' && t[1] == 0, "model: the literal appended is one blank"); if (g_texts_appended > 0) { g_blank_after_text = true; } g_blanks_appended++; }
void UncText::append(const UncText &ref) { g_texts_appended++; }
//@slice src/chunk.h fn Chunk::Str
//@slice src/unc_text.cpp fn UncText::size
//@slice src/unc_text.cpp fn UncText::operator[]
extern "C" {
void collect_operator_type_step(Chunk *next, Chunk *tmp2, Chunk *tmp)
{
//@slice src/tokenizer/tokenize_cleanup.cpp frag collect_operator_type_step /^               make_type\(tmp\);$/ /^               tmp2 = tmp;$/
}
extern Chunk *const NEXTC = &g_next; extern Chunk *const TMP2C = &g_tmp2; extern Chunk *const TMPC = &g_tmp;
}
#include "offsets_cpp.h"
