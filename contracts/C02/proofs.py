"""C02 Token stream is preserved exactly under whitespace-only configurations -- kernel:
chunk-list primitives (no node lost, duplicated or reordered) + tokenizer white-space primitives (only white space discarded)."""
import os
import sys
here = os.path.dirname(os.path.abspath(__file__))
sys.path.insert(0, os.path.join(here, '..', '..', 'tools'))
sys.path.insert(0, os.path.join(here, '..', 'shared'))
from prover import Proof  # noqa: E402
import tokenizer_proofs  # noqa: E402
import output_proofs  # noqa: E402
import outtext_proofs  # noqa: E402
import nlguard_proofs  # noqa: E402
NEED_OPTIONS = True
MACRO_HEADERS = ['tokenizer_macros.h']   # proofs from output_proofs carry their own macro_headers
IMPL, SPEC = 'contracts/C02/list.impl.cpp', 'contracts/C02/list.spec.c'


def LP(name, fn=None, **kw):
    return Proof(name, impl=IMPL, spec=None, harness='h_' + (fn or name), plain=True, no_contract=True,
                 functions=['ListManager.h:ChunkListManager::' + (fn or name)], expect=['postcondition: ' + (fn or name)], solver='--sat-solver cadical',
                 note='contract checked as a direct verification condition (assume requires / call / assert ensures) in contracts/C02/list.impl.cpp; '
                      'loop free, fully symbolic 8-node heap: complete; no DFCC (does not terminate on the symbolic heap)', **kw)


PROOFS = [
    LP('Remove', mutants=[('forgets_prev_link', r'obj->m_prev->m_next = obj->m_next;', ';', 'postcondition'),
                          ('tail_not_updated', r'm_tail = obj->m_prev;', ';', 'postcondition')]),
    LP('AddAfter', mutants=[('tail_not_updated', r'm_tail = obj;\n         \}\n         ref->m_next = obj;', ';\n         }\n         ref->m_next = obj;', 'postcondition'),
                            ('backlink_missing', r'ref->m_next->m_prev = obj;', ';', 'postcondition')]),
    LP('AddBefore', mutants=[('no_remove_first', r'Remove\(obj\);\n         obj->m_next = ref;', 'obj->m_next = ref;', 'postcondition')]),
    LP('AddTail', mutants=[('old_tail_not_linked', r'm_tail->m_next = obj;', ';', 'postcondition')]),
    LP('AddHead', mutants=[('head_not_set', r'm_head->m_prev = obj;\n      \}\n      m_head = obj;', 'm_head->m_prev = obj;\n      }', 'postcondition')]),
    LP('Swap_apart_or_null', fn='Swap', defines=['SWAP_CASE=0'], timeout=1200),
    LP('Swap_a_before_b', fn='Swap', defines=['SWAP_CASE=1'], timeout=1200, mutants=[('adjacent_case_wrong', r'Remove\(obj2\);\n            AddBefore\(obj2, obj1\);', 'Remove(obj2);\n            AddAfter(obj2, obj1);', 'postcondition')]),
    LP('Swap_b_before_a', fn='Swap', defines=['SWAP_CASE=2'], timeout=1200),
] + tokenizer_proofs.select(['tok_layout', 'parse_whitespace', 'parse_newline', 'parse_bs_newline', 'parse_off_newlines'])


def _c19():
    import importlib.util
    sp = importlib.util.spec_from_file_location('c19proofs', os.path.join(here, '..', 'C19', 'proofs.py'))
    m = importlib.util.module_from_spec(sp)
    sp.loader.exec_module(m)
    return [p for p in m.PROOFS + m.EXTRA_PROOFS if p.name in ('ensure_force_space', 'space_needed', 'space_text_apply', 'do_space_no_glue')]


PROOFS += output_proofs.select(['add_text_ascii', 'output_to_column'])   # K4: columns never move left, only blanks/tabs are written while advancing
PROOFS += [outtext_proofs.iteration_proof()]   # K5: every chunk's text is written once, at or right of where the previous text ended
PROOFS += nlguard_proofs.all_proofs()   # K6: a newline is deleted / crossed only if SafeToDeleteNl()
sys.path.insert(0, os.path.join(os.path.dirname(os.path.abspath(__file__)), '..', '..', 'tools'))
from prover import Proof  # noqa: E402
PROOFS.append(Proof('collect_operator_type_step', impl='contracts/C02/optype.impl.cpp', spec='contracts/C02/optype.spec.c', harness='h_collect_operator_type_step', plain=True, no_contract=True, canaries=2, rules={},
                    nondet_static='.*(g_space_needed|g_last_is_word|g_first_is_word).*', unwind=6, expect=['postcondition: operator type'], drop_flags=['--conversion-check'],
                    functions=['tokenize_cleanup.cpp:tokenize_cleanup (fragment: one iteration of the operator-type collection)'],
                    assumed=['space_needed: any number of blanks up to 4 (no PCF_FORCE_SPACE flag exists when tokenize_cleanup runs)', 'CharTable::IsKw1 / IsKw2: one arbitrary answer each'],
                    note='the loop that appends the blanks is unwound 6 (complete for up to 4 blanks) with unwinding assertions',
                    mutants=[('word_guard_dropped', r'if \(  num_sp == 0\n', 'if (  false\n', 'postcondition')]))   # K7
PROOFS += _c19()   # K3: the fusion guard (PCF_FORCE_SPACE) overrides Remove
EXPLANATION = ('Kernel of C02. (1) ChunkListManager: every primitive preserves the doubly-linked-list representation invariant and changes the sequence exactly as '
               'specified (Remove: sequence minus obj; AddAfter/AddBefore/AddTail/AddHead: obj inserted at the stated place; Swap: the two exchanged), stated for an '
               'arbitrary observer node. Small-model argument: the primitives are loop free and dereference only their arguments and those arguments\' direct '
               'neighbours (at most 6 nodes); with one arbitrary observer the restriction of any heap to the touched nodes embeds into the pool of 8 nodes with '
               'arbitrary links used here, so the pool is exhaustive, not a bound. (2) the tokenizer white-space primitives consume only white space.')
K = ['K7 tokenize_cleanup (operator-type collection, one iteration): two words merged into the text of a conversion operator\'s type keep at least one blank between them, whatever space_needed() answers', 'K1 ChunkListManager::{Remove, AddAfter, AddBefore, AddTail, AddHead, Swap}', 'K3 ensure_force_space / space_needed: a pair flagged PCF_FORCE_SPACE always gets at least one space', 'K3b space_text (core of one iteration): two chunks whose boundary characters are both keyword characters, or \'/\' followed by \'*\' or \'/\' (a comment opener), or whose concatenation lexes to a punctuator of another length (except > > closing template lists, and []), get PCF_FORCE_SPACE, and a forced space yields at least one column between them', 'K3c do_space: between a brace-less else/do and the word that starts its statement (an empty virtual brace stands between them, and the fusion guard only compares direct neighbours) the answer is never REMOVE', 'K2 parse_whitespace / parse_newline / parse_bs_newline / parse_off_newlines discard only white space',
     'K5 output_text (one iteration): a chunk with text is written exactly once by add_text(its own str) after output_to_column(its column); when not first on the line the column is first pushed right to cpd.column (reindent_line) so texts never overlap; chunks without text write nothing',
     'K6 newline deletion guard: Chunk::SafeToDeleteNl() is false after a // comment and across a preprocessor boundary; convert_brace() and the class/constructor-colon pass delete or cross a newline only under that guard',
     'K4 output_to_column: the column never moves left (exactly max(old, requested)) and only blanks/tabs are issued']
G = ['every other pass that deletes or moves newline chunks (newlines/remove.cpp, newlines/cleanup.cpp, ...) honours Chunk::SafeToDeleteNl(): only convert_brace and the class-colon pass are under contract',
     'combine/brace_cleanup/newline/align passes change the list only through these primitives (static fact: m_next/m_prev are written only in ListManager.h and chunk.cpp) and do not edit m_str of non-comment chunks',
     'space_text: the parts of the loop body around the sliced core (choice of next, trailing-comment adjustment, SetColumn of the following chunk) are not under contract; CharTable::IsKw1/IsKw2 and find_punctuator (the lexical tables) answer arbitrarily: whether they classify every character / punctuator pair correctly (e.g. \'/\' + \'*\') is NOT covered',
     'AddAfter requires obj to be unlinked (it does not call Remove itself): a caller-side precondition, callers not verified',
     '"every directive stays on its logical line" (newline passes) and nine-language lexing: NOT covered']


def static_facts(repo):
    import re
    import subprocess
    out = subprocess.run(['grep', '-rnE', r'\bm_(next|prev)\s*=[^=]', os.path.join(repo, 'src'), '--include=*.cpp', '--include=*.h'], stdout=subprocess.PIPE, text=True).stdout
    bad = [l for l in out.splitlines() if not re.search(r'/(ListManager\.h|chunk\.cpp|chunk\.h):', l)]
    return [('Chunk::m_next / m_prev are assigned only in ListManager.h, chunk.cpp, chunk.h', not bad, '; '.join(bad)[:300])] + outtext_proofs.static_facts(repo)

sys.path.insert(0, os.path.join(os.path.dirname(os.path.abspath(__file__)), '..', '..', 'tools'))
import replay_lib  # noqa: E402
REPLAY = replay_lib.make_replay(replay_lib.scenario_comment_opener, replay_lib.scenario_operator_type_words, replay_lib.scenario_gating_default, replay_lib.scenario_line_endings)
