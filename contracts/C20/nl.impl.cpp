// Translation unit for the blank-line limiters (C20-K1..K3, C16-K4, C17-K5): blank_line_max, blank_line_set
// (src/newlines/blank_line.cpp), newlines_eat_start_end (src/newlines/eat_start_end.cpp), too_big_for_nl_max
// (src/too_big_for_nl_max.cpp), sliced verbatim.
#include "token_enum.h"      /* from the working tree: -I <repo>/src */
#define VERIF_E_TOKEN
#include "base.h"
#include "containers.h"
#include "sink.h"
#include "unctext.h"
#include "cpd.h"
#include "chunk.h"
#include "logger.h"
//@slice src/option.h struct iarf_e
//@slice src/option.h struct line_end_e
//@slice src/option.h struct token_pos_e
#include "options_gen.h"
using namespace uncrustify;
// iarf_e & iarf_e is used in boolean context only in these slices (UNC_DECLARE_OPERATORS_FOR_FLAGS of the real build)
inline int operator&(iarf_e a, iarf_e b) { return (int)a & (int)b; }
#define EX_CONFIG 78
#define log_ruleNL(rule, pc) ((void)0)
#define MARK_CHANGE() (cpd.changes++)
// Option<unsigned> (src/option.h), renamed by D9: value + name, as used by blank_line_max / blank_line_set
struct Option_unsigned                  //@struct-local
{
   unsigned m_val;
   unsigned operator()() const { return(m_val); }
   const char *name() const { return ""; }
};
extern "C" {
FILE g_stdout_obj2; FILE *stdout = &g_stdout_obj2;
int g_msgs;                 // ghost: number of fprintf(stdout, ...) calls
int g_exit_status;          // ghost
void exit(int status) { }   // replaced by exit_contract (never returns)
// ghost model of the chunk list ends for newlines_eat_start_end
Chunk g_head_chunk, g_tail_chunk, g_nullc;
bool  g_deleted_head, g_deleted_tail;
bool  g_added_before_head, g_added_at_tail;
size_t g_added_nl_count; unsigned g_added_type;
}
#define fprintf(stream, ...) (g_msgs++)
Chunk *const Chunk::NullChunkPtr = &g_nullc;
#ifdef SINGLE_CHUNK_LIST
// a list with exactly one chunk: head and tail are the same chunk; once it is deleted the list is empty.  Deleting a chunk
// that is not in the list (any more) is the memory-safety fault a stale pointer causes (C06): the model asserts it.
Chunk *Chunk::GetHead() { return g_deleted_head ? &g_nullc : &g_head_chunk; }
Chunk *Chunk::GetTail() { return g_deleted_head ? &g_nullc : &g_head_chunk; }
void Chunk::Delete(Chunk * &pc) { VASSERT(pc == &g_head_chunk && !g_deleted_head, "Chunk::Delete: the chunk is (still) in the list"); g_deleted_head = true; pc = NullChunkPtr; }
#else
Chunk *Chunk::GetHead() { return &g_head_chunk; }
Chunk *Chunk::GetTail() { return &g_tail_chunk; }
void Chunk::Delete(Chunk * &pc)
{
   VASSERT((pc == &g_head_chunk && !g_deleted_head) || (pc == &g_tail_chunk && !g_deleted_tail), "Chunk::Delete: the chunk is (still) in the list");
   if (pc == &g_head_chunk) { g_deleted_head = true; } if (pc == &g_tail_chunk) { g_deleted_tail = true; } pc = NullChunkPtr;
}
#endif
Chunk *Chunk::CopyAndAddBefore(Chunk *pos) const
{
   if (pos == &g_head_chunk) { g_added_before_head = true; } else if (pos == NullChunkPtr) { g_added_at_tail = true; } else { VASSERT(0, "CopyAndAddBefore at an unexpected position"); }
   g_added_nl_count = m_nlCount; g_added_type = (unsigned)m_type;
   return NullChunkPtr;
}
Chunk *Chunk::GetPrev(const E_Scope) const { return NullChunkPtr; }
//@slice src/chunk.h fn Chunk::Is
//@slice src/chunk.h fn Chunk::GetNlCount
//@slice src/chunk.h fn Chunk::SetNlCount
//@slice src/chunk.h fn Chunk::GetOrigLine
//@slice src/chunk.h fn Chunk::GetOrigCol
//@slice src/chunk.h fn Chunk::SetOrigLine
//@slice src/chunk.h fn Chunk::SetOrigCol
//@slice src/chunk.h fn Chunk::GetPpLevel
//@slice src/chunk.h fn Chunk::SetPpLevel
//@slice src/chunk.cpp fn Chunk::SetType
extern "C" {
//@slice src/newlines/blank_line.cpp fn blank_line_max
//@slice src/newlines/blank_line.cpp fn blank_line_set
//@slice src/newlines/eat_start_end.cpp fn newlines_eat_start_end
//@slice src/too_big_for_nl_max.cpp fn too_big_for_nl_max
}
#include "offsets_cpp.h"
#define CANARY(msg) __CPROVER_assert(0, "VACUITY_CANARY " msg)
extern "C" {
extern Chunk *const HEADC = &g_head_chunk; extern Chunk *const TAILC = &g_tail_chunk; extern Chunk *const NULLC = &g_nullc;
extern const unsigned CT_NEWLINE_V = CT_NEWLINE;
extern const unsigned long OFF_Option_unsigned_m_val = (unsigned long)&(((Option_unsigned*)0)->m_val);
extern const unsigned long SIZEOF_Option_unsigned = sizeof(Option_unsigned);
void h_blank_line_max() { Chunk *pc; Option_unsigned o; blank_line_max(pc, o); CANARY("blank_line_max returns"); }
void h_blank_line_set() { Chunk *pc; Option_unsigned o; blank_line_set(pc, o); CANARY("blank_line_set returns"); }
void h_newlines_eat_start_end() { newlines_eat_start_end(); if (g_added_at_tail) { CANARY("eat_start_end adds a newline at the end"); } if (g_deleted_head) { CANARY("eat_start_end deletes the leading newline"); } }
void h_too_big_for_nl_max() { too_big_for_nl_max(); CANARY("too_big_for_nl_max returns normally"); }
}
