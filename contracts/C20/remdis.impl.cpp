// Translation unit for newlines_remove_disallowed() (src/newlines/remove.cpp, whole function; C20-K6): the clean-up that runs after a code_width split and sets blank-line
// counts back to 1 where can_increase_nl() forbids blank lines.  Direct verification conditions; the chunk list is the environment (navigation fuel); list fact used:
// the head of the list is nobody's successor.
#include "token_enum.h"      /* from the working tree: -I <repo>/src */
#define VERIF_E_TOKEN
#include "base.h"
#include "containers.h"
#include "unctext.h"
#include "cpd.h"
#include "chunk.h"
#include "logger.h"
#define MARK_CHANGE() (cpd.changes++)
static Chunk g_pool[3];            // g_pool[0] is the head of the list
static Chunk g_null_chunk;
Chunk *const Chunk::NullChunkPtr = &g_null_chunk;
extern "C" { unsigned g_nav_fuel; bool g_can_increase[3]; unsigned g_asked[3]; }
static Chunk *succ_chunk() { if (g_nav_fuel == 0) { return &g_null_chunk; } g_nav_fuel--; unsigned k = nondet_uint(); return (k == 1) ? &g_pool[1] : (k == 2) ? &g_pool[2] : &g_null_chunk; }
Chunk *Chunk::GetHead() { return &g_pool[0]; }
Chunk *Chunk::GetNext(const E_Scope) const { return succ_chunk(); }
// GetNextNl: the next newline chunk
Chunk *Chunk::GetNextNl(const E_Scope) const { Chunk *r = succ_chunk(); __CPROVER_assume(r->m_nullChunk || r->m_type == CT_NEWLINE || r->m_type == CT_NL_CONT); return r; }
static bool can_increase_nl(Chunk *nl) { unsigned k = (unsigned)(nl - &g_pool[0]); VASSERT(k < 3, "can_increase_nl: asked about a chunk of the list"); g_asked[k]++; return g_can_increase[k]; }
//@slice src/chunk.h fn Chunk::Is
//@slice src/chunk.h fn Chunk::GetType
//@slice src/chunk.h fn Chunk::GetNlCount
//@slice src/chunk.h fn Chunk::SetNlCount
//@slice src/chunk.h fn Chunk::GetOrigLine
//@slice src/chunk.h fn Chunk::GetOrigCol
extern "C" {
//@slice src/newlines/remove.cpp fn newlines_remove_disallowed
extern Chunk *const P0 = &g_pool[0]; extern Chunk *const P1 = &g_pool[1]; extern Chunk *const P2 = &g_pool[2]; extern Chunk *const PN = &g_null_chunk;
}
#include "offsets_cpp.h"
