// Translation unit for can_increase_nl() (C20-K5), src/newlines/can_increase_nl.cpp, sliced verbatim.
// The three neighbours the function looks at (previous non-comment chunk, previous chunk, next chunk) are three fixed but
// arbitrary chunks; every attribute of every chunk is unconstrained.
#include "token_enum.h"      /* from the working tree: -I <repo>/src */
#define VERIF_E_TOKEN
#include "base.h"
#include "containers.h"
#include "unctext.h"
#include "cpd.h"
#include "chunk.h"
#include "logger.h"
//@slice src/option.h struct iarf_e
//@slice src/option.h struct line_end_e
//@slice src/option.h struct token_pos_e
#include "options_gen.h"
#include "space_gen.h"
using namespace uncrustify;
inline bool operator!=(iarf_e a, iarf_e b) { return (int)a != (int)b; }
static Chunk g_prevnc, g_prev, g_next, g_ppstart, g_null_chunk;
Chunk *const Chunk::NullChunkPtr = &g_null_chunk;
Chunk *Chunk::GetPrevNc(const E_Scope) const { return &g_prevnc; }
Chunk *Chunk::GetPrev(const E_Scope) const { return &g_prev; }
Chunk *Chunk::GetNext(const E_Scope) const { return &g_next; }
Chunk *Chunk::GetPpStart() const { return &g_ppstart; }
bool Chunk::TestFlags(unsigned long f) const { return (m_flags & f) == f; }   // flags<>::test of src/enum_flags.h
extern "C" { bool ifdef_over_whole_file() { return nondet_bool(); } }
//@slice src/chunk.h fn Chunk::Is
//@slice src/chunk.h fn Chunk::GetType
//@slice src/chunk.h fn Chunk::GetParentType
//@slice src/chunk.h fn Chunk::GetLevel
//@slice src/chunk.h fn Chunk::GetOrigLine
//@slice src/chunk.h fn Chunk::GetPpLevel
extern "C" {
//@slice src/newlines/can_increase_nl.cpp fn can_increase_nl
}
#include "offsets_cpp.h"
#define CANARY(msg) __CPROVER_assert(0, "VACUITY_CANARY " msg)
extern "C" {
extern Chunk *const PREVNC = &g_prevnc; extern Chunk *const PREVC = &g_prev; extern Chunk *const NEXTC = &g_next; extern Chunk *const PPSTART = &g_ppstart;
extern const unsigned CT_BRACE_OPEN_V = CT_BRACE_OPEN, CT_BRACE_CLOSE_V = CT_BRACE_CLOSE, CT_NAMESPACE_V = CT_NAMESPACE, CT_FUNC_DEF_V = CT_FUNC_DEF, CT_FUNC_CLASS_DEF_V = CT_FUNC_CLASS_DEF;
void h_can_increase_nl() { Chunk *nl; bool r = can_increase_nl(nl); if (r) { CANARY("can_increase_nl true"); } else { CANARY("can_increase_nl false"); } }
}
