"""C20 Blank-line limits are respected -- kernel: the limiters and the start/end-of-file policy."""
import os
import sys
sys.path.insert(0, os.path.join(os.path.dirname(os.path.abspath(__file__)), '..', '..', 'tools'))
from prover import Proof  # noqa: E402
NEED_OPTIONS = True
IMPL, SPEC = 'contracts/C20/nl.impl.cpp', 'contracts/C20/nl.spec.c'


def P(name, **kw):
    kw.setdefault('rules', {'blank_line_max': [('D8', [(r'const auto optval = opt\(\);', 'const unsigned optval = opt();', 'auto: the C++ front end deduces int for an unsigned initialiser; the declared type of Option<unsigned>::operator() is unsigned')])]})
    return Proof(name, impl=IMPL, spec=SPEC, enforce='%s/%s_contract' % (name, name), expect=['%s_contract.postcondition' % name], **kw)


def all_proofs():
    return [
        Proof('newlines_remove_disallowed', impl='contracts/C20/remdis.impl.cpp', spec='contracts/C20/remdis.spec.c', harness='h_newlines_remove_disallowed', plain=True, no_contract=True, canaries=2, rules={},
              nondet_static='.*(g_nav_fuel|g_can_increase|cpd).*', unwind=7, slice_formula=True, expect=['postcondition: newlines_remove_disallowed'], drop_flags=['--conversion-check'],
              functions=['newlines/remove.cpp:newlines_remove_disallowed'],
              assumed=['chunk navigation (fuel 4); the head of the list is nobody\'s successor', 'can_increase_nl: its own contract (C20-K3); here one arbitrary answer per chunk'],
              mutants=[('also_visits_the_head', r'Chunk \*pc = Chunk::GetHead\(\);\n   Chunk \*next;\n\n   while \(\(pc = pc->GetNextNl\(\)\)->IsNotNullChunk\(\)\)\n   \{', 'Chunk *pc = Chunk::GetHead();\n   Chunk *next;\n\n   for ( ; pc->IsNotNullChunk(); pc = pc->GetNextNl())\n   {', 'postcondition'),
                       ('lowers_everywhere', r'&& !can_increase_nl\(pc\)\)', '&& (can_increase_nl(pc) || true))', 'postcondition')]),
        P('blank_line_max', functions=['newlines/blank_line.cpp:blank_line_max', 'chunk.h:Chunk::GetNlCount', 'chunk.h:Chunk::SetNlCount'],
          mutants=[('cap_off_by_one', r'pc->GetNlCount\(\) > optval\)', 'pc->GetNlCount() > optval + 1)', 'postcondition'),
                   ('set_instead_of_max', r'&& \(pc->GetNlCount\(\) > optval\)\)', '&& (pc->GetNlCount() != optval))', 'postcondition')]),
        P('blank_line_set', functions=['newlines/blank_line.cpp:blank_line_set'],
          mutants=[('max_instead_of_set', r'&& \(pc->GetNlCount\(\) != optval\)\)', '&& (pc->GetNlCount() > optval))', 'postcondition')]),
        P('newlines_eat_start_end', canaries=2, functions=['newlines/eat_start_end.cpp:newlines_eat_start_end', 'chunk.cpp:Chunk::SetType'],
          mutants=[('eof_force_keeps_more', r'options::nl_end_of_file\(\) == IARF_FORCE\n', 'false\n', 'postcondition'),
                   ('eof_min_from_sof', r'pc->SetNlCount\(options::nl_end_of_file_min\(\)\);', 'pc->SetNlCount(options::nl_start_of_file_min());', 'postcondition'),
                   ('frag_ignored', r'if \(  cpd.frag_cols == 0\n      && \(  \(options::nl_end_of_file\(\) & IARF_REMOVE\)', 'if (  true\n      && (  (options::nl_end_of_file() & IARF_REMOVE)', 'postcondition')]),
        Proof('newlines_eat_start_end_single', impl=IMPL, spec=SPEC, harness='h_newlines_eat_start_end', enforce='newlines_eat_start_end/newlines_eat_start_end_single_contract',
              defines=['SINGLE_CHUNK_LIST'], canaries=2, dead_ok=['adds a newline at the end'], expect=['newlines_eat_start_end_single_contract.postcondition'],
              functions=['newlines/eat_start_end.cpp:newlines_eat_start_end (on a list of one chunk: head == tail)'],
              mutants=[('cached_list_ends', r'(?s)(   Chunk \*pc;\n)(.*?)pc = Chunk::GetTail\(\);', r'\1   Chunk *cached_tail = Chunk::GetTail();\n\2pc = cached_tail;', 'Chunk::Delete')]),
        Proof('can_increase_nl', impl='contracts/C20/cinl.impl.cpp', spec=SPEC, enforce='can_increase_nl/can_increase_nl_contract', canaries=2,
              rules={'can_increase_nl': []}, expect=['can_increase_nl_contract.postcondition'], functions=['newlines/can_increase_nl.cpp:can_increase_nl'],
              assumed=['the previous non-comment chunk / previous chunk / next chunk of the newline are three arbitrary chunks (navigation not under contract); nl_squeeze_ifdef off'],
              mutants=[('namespace_rule_first', r'(?s)(   if \(next->Is\(CT_BRACE_CLOSE\)\)\n   \{.*?\n   \}\n\n)(   if \(prev->Is\(CT_BRACE_CLOSE\)\)\n   \{.*?\n   \}\n\n)', r'\2\1', 'postcondition'),
                       ('eat_after_open_dropped', r'if \(options::eat_blanks_after_open_brace\(\)\)', 'if (false)', 'postcondition')]),
        Proof('do_blank_lines_iteration', impl='contracts/C20/dbl.impl.cpp', spec=SPEC, harness='h_do_blank_lines_iteration', plain=True, no_contract=True,
              defines=['DBL_VC'], canaries=3, unwind=8, slice_formula=True, timeout=1200,
              nondet_static='.*(optv_|cpd|g_nav_fuel|g_first_prevnc).*',
              rules={'blank_line_max': [('D8', [(r'void blank_line_max\(Chunk \*pc, Option<unsigned> &opt\)', 'void blank_line_max_v(Chunk *pc, unsigned opt_value)', 'the Option<unsigned>& argument is replaced by its value: the function only calls opt()'),
                                                (r'const auto optval = opt\(\);', 'const unsigned optval = opt_value;', 'value of the option')])],
                     'blank_line_set': [('D8', [(r'void blank_line_set\(Chunk \*pc, Option<unsigned> &opt\)', 'void blank_line_set_v(Chunk *pc, unsigned opt_value)', 'the Option<unsigned>& argument is replaced by its value'),
                                                (r'const unsigned optval = opt\(\);', 'const unsigned optval = opt_value;', 'value of the option')])],
                     'do_blank_lines_body': [('D8', [(r'blank_line_(set|max)\((\w+), options::(\w+)\);', r'blank_line_\1_v(\2, options::\3());', 'option object -> its value'),
                                                     (r'auto &opt = \(prev->GetParentType\(\) == CT_CLASS\n\s*\? options::nl_after_class\n\s*: options::nl_after_struct\);', 'const unsigned opt_v = (prev->GetParentType() == CT_CLASS ? options::nl_after_class() : options::nl_after_struct());', 'reference to an option object -> its value'),
                                                     (r'if \(opt\(\) > pc->GetNlCount\(\)\)', 'if (opt_v > pc->GetNlCount())', 'value of the option'),
                                                     (r'blank_line_set\(pc, opt\);', 'blank_line_set_v(pc, opt_v);', 'value of the option')])]},
              cbmc_flags=['--bounds-check', '--pointer-check', '--signed-overflow-check', '--div-by-zero-check', '--undefined-shift-check', '--unwinding-assertions'],
              expect=['postcondition: do_blank_lines'], functions=['newlines/blank_line.cpp:do_blank_lines (one iteration of the chunk loop, sliced as a fragment)', 'newlines/blank_line.cpp:blank_line_max', 'newlines/blank_line.cpp:blank_line_set'],
              assumed=['can_increase_nl / is_func_proto_group / ifdef_over_whole_file answer arbitrarily; chunk navigation returns arbitrary chunks and every backward walk ends (navigation fuel)'],
              note='direct VC; the five inner chunk walks are bounded by the navigation fuel (<= 4 steps) and unwound 8 with unwinding assertions',
              mutants=[('cap_skipped_for_var_def', r'&& \(pc->GetNlCount\(\) > options::nl_max\(\)\)\)', '&& (pc->GetNlCount() > options::nl_max())\n         && !pc->TestFlags(PCF_VAR_DEF))', 'postcondition'),
                       ('added_line_not_removed', r'pc->SetNlCount\(pc->GetNlCount\(\) - 1\);', ';', 'postcondition')]),
        P('too_big_for_nl_max', replace=['exit/exit_contract'], functions=['too_big_for_nl_max.cpp:too_big_for_nl_max'],
          assumed=['exit_contract (never returns)'],
          mutants=[('one_comparison_dropped', r'if \(options::nl_after_class\(\) > nl_max_local\)', 'if (false)', 'postcondition'),
                   ('wrong_exit', r'exit\(EX_CONFIG\);', 'return;', 'postcondition|precondition')]),
    ]


PROOFS = all_proofs()
EXPLANATION = ('Kernel of C20: blank_line_max caps nl_count at the option value (min), blank_line_set sets it, both only when the option is > 0 and the chunk is real; '
               'newlines_eat_start_end implements the documented ignore/add/remove/force policy with the _min values at both ends of the file (ghost list ends); '
               'too_big_for_nl_max returns normally only if every blank-line count option (set generated from the option documentation) is <= nl_max.')
K = ['K6 newlines_remove_disallowed (runs after a code_width split): a count is only lowered to 1, only where can_increase_nl() forbids blank lines, and the first chunk of the file (nl_start_of_file_min) is left alone', 'K4 do_blank_lines (one iteration of the chunk loop): with nl_max = N > 0 and every documented count option <= N, a newline chunk that is touched ends with at most N line breaks (the +-1 bookkeeping of the first / last newline included)',
     'K5 can_increase_nl: with eat_blanks_before_close_brace / eat_blanks_after_open_brace a newline next to the brace may not grow (result false => do_blank_lines forces one line break), except for the documented overrides nl_inside_namespace > 0 and nl_inside_empty_func > 0',
     'K1 blank_line_max / blank_line_set', 'K2 newlines_eat_start_end: exact start/end-of-file policy; on a one-chunk file the chunk is deleted at most once and not touched afterwards', 'K3 too_big_for_nl_max covers every count option of the registry']
G = [
     'newlines_cleanup_braces, newline_add_*, eat_blanks_* (brace_pair.cpp) and the four-pass loop in uncrustify_file: not under contract',
     'main() calls too_big_for_nl_max() iff nl_max > 0, after the config is loaded and before any source is read (10-line call site, read, not sliced)',
     'Chunk::GetHead/GetTail/Delete/CopyAndAddBefore are ghost models of the list ends; the list primitives themselves are C02-K1']



def static_facts(repo):
    import re
    t = open(os.path.join(repo, 'src/newlines/blank_line.cpp')).read()
    a = t.find('void do_blank_lines()')
    head = re.search(r'for \(Chunk \*pc = Chunk::GetHead\(\); pc->IsNotNullChunk\(\); pc = pc->GetNext\(\)\)\n   \{\n(.*?)\n      if \(pc->IsNot\(CT_NEWLINE\)\)\n', t[a:], re.S) if a >= 0 else None
    pre_ok = bool(head) and not re.search(r'^\s*(?!if \(pc->Is\(CT_NEWLINE\)\)|else|\{|\}|char copy\[1000\];|LOG_FMT|__func__|pc->|get_token_name)\S', head.group(1), re.M)
    tail = re.search(r'pc->SetNlCount\(pc->GetNlCount\(\) - 1\);\n(.*?)\n\} // do_blank_lines', t, re.S)
    body = re.sub(r'LOG_FMT\([^;]*;', '', tail.group(1), flags=re.S) if tail else 'x'
    tail_ok = bool(tail) and re.sub(r'\s+', '', body) == '}}'
    return [('do_blank_lines: only the for header and log statements precede the sliced loop body', pre_ok, ''),
            ('do_blank_lines: the sliced loop body ends the loop and the function', tail_ok, '')]


sys.path.insert(0, os.path.join(os.path.dirname(os.path.abspath(__file__)), '..', '..', 'tools'))
import replay_lib  # noqa: E402
REPLAY = replay_lib.make_replay(replay_lib.scenario_blank_lines, replay_lib.scenario_too_big)
