"""C20 Blank-line limits are respected -- kernel: the limiters and the start/end-of-file policy."""
import os
import sys
sys.path.insert(0, os.path.join(os.path.dirname(os.path.abspath(__file__)), '..', '..', 'tools'))
from prover import Proof  # noqa: E402
NEED_OPTIONS = True
IMPL, SPEC = 'contracts/C20/nl.impl.cpp', 'contracts/C20/nl.spec.c'


def P(name, **kw):
    kw.setdefault('rules', {'blank_line_max': [('D8', [(r'const auto optval = opt\(\);', 'const unsigned optval = opt();', 'auto: the C++ front end deduces int for an unsigned initialiser; the declared type of Option<unsigned>::operator() is unsigned')])]})
    return Proof(name, impl=IMPL, spec=SPEC, enforce='%s/%s_contract' % (name, name), expect=['%s_contract.postcondition' % name], **kw)


def all_proofs():
    return [
        P('blank_line_max', functions=['newlines/blank_line.cpp:blank_line_max', 'chunk.h:Chunk::GetNlCount', 'chunk.h:Chunk::SetNlCount'],
          mutants=[('cap_off_by_one', r'pc->GetNlCount\(\) > optval\)', 'pc->GetNlCount() > optval + 1)', 'postcondition'),
                   ('set_instead_of_max', r'&& \(pc->GetNlCount\(\) > optval\)\)', '&& (pc->GetNlCount() != optval))', 'postcondition')]),
        P('blank_line_set', functions=['newlines/blank_line.cpp:blank_line_set'],
          mutants=[('max_instead_of_set', r'&& \(pc->GetNlCount\(\) != optval\)\)', '&& (pc->GetNlCount() > optval))', 'postcondition')]),
        P('newlines_eat_start_end', canaries=2, functions=['newlines/eat_start_end.cpp:newlines_eat_start_end', 'chunk.cpp:Chunk::SetType'],
          mutants=[('eof_force_keeps_more', r'options::nl_end_of_file\(\) == IARF_FORCE\n', 'false\n', 'postcondition'),
                   ('eof_min_from_sof', r'pc->SetNlCount\(options::nl_end_of_file_min\(\)\);', 'pc->SetNlCount(options::nl_start_of_file_min());', 'postcondition'),
                   ('frag_ignored', r'if \(  cpd.frag_cols == 0\n      && \(  \(options::nl_end_of_file\(\) & IARF_REMOVE\)', 'if (  true\n      && (  (options::nl_end_of_file() & IARF_REMOVE)', 'postcondition')]),
        Proof('can_increase_nl', impl='contracts/C20/cinl.impl.cpp', spec=SPEC, enforce='can_increase_nl/can_increase_nl_contract', canaries=2,
              rules={'can_increase_nl': []}, expect=['can_increase_nl_contract.postcondition'], functions=['newlines/can_increase_nl.cpp:can_increase_nl'],
              assumed=['the previous non-comment chunk / previous chunk / next chunk of the newline are three arbitrary chunks (navigation not under contract); nl_squeeze_ifdef off'],
              mutants=[('namespace_rule_first', r'(?s)(   if \(next->Is\(CT_BRACE_CLOSE\)\)\n   \{.*?\n   \}\n\n)(   if \(prev->Is\(CT_BRACE_CLOSE\)\)\n   \{.*?\n   \}\n\n)', r'\2\1', 'postcondition'),
                       ('eat_after_open_dropped', r'if \(options::eat_blanks_after_open_brace\(\)\)', 'if (false)', 'postcondition')]),
        P('too_big_for_nl_max', replace=['exit/exit_contract'], functions=['too_big_for_nl_max.cpp:too_big_for_nl_max'],
          assumed=['exit_contract (never returns)'],
          mutants=[('one_comparison_dropped', r'if \(options::nl_after_class\(\) > nl_max_local\)', 'if (false)', 'postcondition'),
                   ('wrong_exit', r'exit\(EX_CONFIG\);', 'return;', 'postcondition|precondition')]),
    ]


PROOFS = all_proofs()
EXPLANATION = ('Kernel of C20: blank_line_max caps nl_count at the option value (min), blank_line_set sets it, both only when the option is > 0 and the chunk is real; '
               'newlines_eat_start_end implements the documented ignore/add/remove/force policy with the _min values at both ends of the file (ghost list ends); '
               'too_big_for_nl_max returns normally only if every blank-line count option (set generated from the option documentation) is <= nl_max.')
K = ['K5 can_increase_nl: with eat_blanks_before_close_brace / eat_blanks_after_open_brace a newline next to the brace may not grow (result false => do_blank_lines forces one line break), except for the documented overrides nl_inside_namespace > 0 and nl_inside_empty_func > 0',
     'K1 blank_line_max / blank_line_set', 'K2 newlines_eat_start_end: exact start/end-of-file policy', 'K3 too_big_for_nl_max covers every count option of the registry']
G = ['do_blank_lines applies blank_line_max(pc, nl_max) to every newline chunk not after CT_IGNORED and the +-1 line_added bookkeeping stays within nl_max (600-line function, not under contract)',
     'newlines_cleanup_braces, newline_add_*, eat_blanks_* (brace_pair.cpp) and the four-pass loop in uncrustify_file: not under contract',
     'main() calls too_big_for_nl_max() iff nl_max > 0, after the config is loaded and before any source is read (10-line call site, read, not sliced)',
     'Chunk::GetHead/GetTail/Delete/CopyAndAddBefore are ghost models of the list ends; the list primitives themselves are C02-K1']

sys.path.insert(0, os.path.join(os.path.dirname(os.path.abspath(__file__)), '..', '..', 'tools'))
import replay_lib  # noqa: E402
REPLAY = replay_lib.make_replay(replay_lib.scenario_blank_lines, replay_lib.scenario_too_big)
