// Translation unit for ONE ITERATION of the chunk loop of do_blank_lines() (C20-K4), src/newlines/blank_line.cpp: the loop body
// from `if (pc->IsNot(CT_NEWLINE))` to the final `pc->SetNlCount(pc->GetNlCount() - 1);`, sliced verbatim as a fragment and
// wrapped into `do { ... } while (0)` inside a function of its own (a `continue` of the body then ends the iteration, as in the
// for loop).  What the extraction drops: the for header `for (Chunk *pc = Chunk::GetHead(); pc->IsNotNullChunk(); pc = pc->GetNext())`
// and the log statements in front of the fragment (a static supporting fact checks that nothing else precedes / follows it).
// blank_line_max / blank_line_set are the real functions (proved separately), called with the option's value instead of the
// Option<unsigned> object (rule D8: they only ever call opt()).  Checked as a direct verification condition (no goto-instrument pass).
#include "token_enum.h"      /* from the working tree: -I <repo>/src */
#define VERIF_E_TOKEN
#include "base.h"
#include "containers.h"
#include "unctext.h"
#include "cpd.h"
#include "chunk.h"
#include "logger.h"
//@slice src/option.h struct iarf_e
//@slice src/option.h struct line_end_e
//@slice src/option.h struct token_pos_e
#include "options_gen.h"
#include "space_gen.h"
using namespace uncrustify;
#define MARK_CHANGE() (cpd.changes++)
static Chunk g_pool[3];
static Chunk g_null_chunk;
Chunk *const Chunk::NullChunkPtr = &g_null_chunk;
extern "C" { unsigned g_nav_fuel; }       // every backward walk reaches the NullChunk sentinel: navigation fuel (see C19 do_space)
static Chunk *any_chunk() { unsigned k = nondet_uint(); return (k < 3) ? &g_pool[k] : &g_null_chunk; }
static Chunk *nav_chunk() { if (g_nav_fuel == 0) { return &g_null_chunk; } g_nav_fuel--; return any_chunk(); }
extern "C" { Chunk *g_first_prevnc; bool g_have_first; }   // ghost: the chunk the first GetPrevNc() query returned (= prev of the loop body)
Chunk *Chunk::GetPrevNc(const E_Scope) const { Chunk *r = nav_chunk(); if (!g_have_first) { g_have_first = true; g_first_prevnc = r; } return r; }
Chunk *Chunk::GetPrev(const E_Scope) const { return nav_chunk(); }
Chunk *Chunk::GetNext(const E_Scope) const { return nav_chunk(); }
Chunk *Chunk::GetPrevType(const E_Token, int, E_Scope) const { return nav_chunk(); }
Chunk *Chunk::GetPpStart() const { return any_chunk(); }
Chunk *Chunk::GetHead() { return any_chunk(); }
bool Chunk::TestFlags(unsigned long f) const { return (m_flags & f) == f; }   // flags<>::test of src/enum_flags.h
extern "C" {
bool g_cinl;                 // ghost: what can_increase_nl answered for this newline
bool can_increase_nl(Chunk *nl) { g_cinl = nondet_bool(); return g_cinl; }
bool is_func_proto_group(Chunk *pc, E_Token one_liner_type) { return nondet_bool(); }
bool ifdef_over_whole_file() { return nondet_bool(); }
}
//@slice src/chunk.h fn Chunk::Is
//@slice src/chunk.h fn Chunk::IsNot
//@slice src/chunk.h fn Chunk::GetType
//@slice src/chunk.h fn Chunk::GetParentType
//@slice src/chunk.h fn Chunk::GetLevel
//@slice src/chunk.h fn Chunk::GetNlCount
//@slice src/chunk.h fn Chunk::SetNlCount
//@slice src/chunk.h fn Chunk::IsComment nth=0
//@slice src/chunk.h fn Chunk::IsBraceClose
extern "C" {
//@slice src/newlines/blank_line.cpp fn blank_line_max
//@slice src/newlines/blank_line.cpp fn blank_line_set
void do_blank_lines_iteration(Chunk *pc)
{
   do
   {
//@slice src/newlines/blank_line.cpp frag do_blank_lines_body /^      if \(pc->IsNot\(CT_NEWLINE\)\)$/ /pc->SetNlCount\(pc->GetNlCount\(\) - 1\);/
      }  // closes the `if (line_added && ...)` block whose last statement ends the fragment
   } while (0);
}
}
#include "offsets_cpp.h"
extern "C" {
extern Chunk *const P0 = &g_pool[0]; extern Chunk *const P1 = &g_pool[1]; extern Chunk *const P2 = &g_pool[2]; extern Chunk *const PN = &g_null_chunk;
extern const unsigned CT_NEWLINE_V = CT_NEWLINE, CT_IGNORED_V = CT_IGNORED;
}
