/* Contracts for the blank-line limiters (C20, C16-K4, C17-K5). Postconditions are written from the option
 * documentation in src/options.h ("The maximum number of consecutive newlines", "nl_end_of_file: add or remove
 * newline at the end of the file", "nl_end_of_file_min: the minimum number of newlines at the end of the file
 * (only used if nl_end_of_file is add or force)") and from the statement of C20. */
#include "common.h"
#include "options_c.h"
struct Option_unsigned;
extern const unsigned long OFF_Option_unsigned_m_val, SIZEOF_Option_unsigned;
#define OPTVAL(o) (*(unsigned*)((char*)(o) + OFF_Option_unsigned_m_val))
extern struct Chunk *const HEADC, *const TAILC, *const NULLC;
extern const unsigned CT_NEWLINE_V;
extern int g_msgs, g_exit_status;
extern _Bool g_deleted_head, g_deleted_tail, g_added_before_head, g_added_at_tail;
extern size_t g_added_nl_count; extern unsigned g_added_type;
#define MIN(a, b) ((a) < (b) ? (a) : (b))

/* blank_line_max: cap nl_count at opt() when opt() > 0; MARK_CHANGE iff changed */
void blank_line_max_contract(struct Chunk *pc, struct Option_unsigned *opt)
__CPROVER_requires(__CPROVER_is_fresh(pc, SIZEOF_Chunk) && __CPROVER_is_fresh(opt, SIZEOF_Option_unsigned) && CPD(changes) < 1000000)
__CPROVER_assigns(Chunk_m_nlCount(pc), CPD(changes))
__CPROVER_ensures(Chunk_m_nullChunk(pc) ==> (Chunk_m_nlCount(pc) == __CPROVER_old(Chunk_m_nlCount(pc)) && CPD(changes) == __CPROVER_old(CPD(changes))))
__CPROVER_ensures((!Chunk_m_nullChunk(pc) && OPTVAL(opt) > 0) ==> Chunk_m_nlCount(pc) == MIN(__CPROVER_old(Chunk_m_nlCount(pc)), (size_t)OPTVAL(opt)))
__CPROVER_ensures((!Chunk_m_nullChunk(pc) && OPTVAL(opt) == 0) ==> Chunk_m_nlCount(pc) == __CPROVER_old(Chunk_m_nlCount(pc)))
__CPROVER_ensures(CPD(changes) == __CPROVER_old(CPD(changes)) + (Chunk_m_nlCount(pc) != __CPROVER_old(Chunk_m_nlCount(pc)) ? 1 : 0))
;
/* blank_line_set: nl_count := opt() when opt() > 0 */
void blank_line_set_contract(struct Chunk *pc, struct Option_unsigned *opt)
__CPROVER_requires(__CPROVER_is_fresh(pc, SIZEOF_Chunk) && __CPROVER_is_fresh(opt, SIZEOF_Option_unsigned) && CPD(changes) < 1000000)
__CPROVER_assigns(Chunk_m_nlCount(pc), CPD(changes))
__CPROVER_ensures(Chunk_m_nullChunk(pc) ==> (Chunk_m_nlCount(pc) == __CPROVER_old(Chunk_m_nlCount(pc)) && CPD(changes) == __CPROVER_old(CPD(changes))))
__CPROVER_ensures((!Chunk_m_nullChunk(pc) && OPTVAL(opt) > 0) ==> Chunk_m_nlCount(pc) == (size_t)OPTVAL(opt))
__CPROVER_ensures((!Chunk_m_nullChunk(pc) && OPTVAL(opt) == 0) ==> Chunk_m_nlCount(pc) == __CPROVER_old(Chunk_m_nlCount(pc)))
__CPROVER_ensures(CPD(changes) == __CPROVER_old(CPD(changes)) + (Chunk_m_nlCount(pc) != __CPROVER_old(Chunk_m_nlCount(pc)) ? 1 : 0))
;

/* newlines_eat_start_end: how many line breaks open and close the file.
 * ghost list ends: HEADC / TAILC are the first / last chunk (non-null), deletions and insertions are recorded. */
#define IARF_ADD_B 1
#define IARF_REMOVE_B 2
#define H_IS_NL (__CPROVER_old(Chunk_m_type(HEADC)) == CT_NEWLINE_V)
#define T_IS_NL (__CPROVER_old(Chunk_m_type(TAILC)) == CT_NEWLINE_V)
#define SOF optv_nl_start_of_file
#define SOFMIN ((size_t)optv_nl_start_of_file_min)
#define EOFO optv_nl_end_of_file
#define EOFMIN ((size_t)optv_nl_end_of_file_min)
#define OLD_HN __CPROVER_old(Chunk_m_nlCount(HEADC))
#define OLD_TN __CPROVER_old(Chunk_m_nlCount(TAILC))
void newlines_eat_start_end_contract(void)
__CPROVER_requires(OPT_RANGE_nl_start_of_file && OPT_RANGE_nl_end_of_file && OPT_RANGE_nl_start_of_file_min && OPT_RANGE_nl_end_of_file_min)
__CPROVER_requires(!Chunk_m_nullChunk(HEADC) && !Chunk_m_nullChunk(TAILC) && Chunk_m_nullChunk(NULLC) && CPD(changes) < 1000000)
__CPROVER_requires(!g_deleted_head && !g_deleted_tail && !g_added_before_head && !g_added_at_tail)
__CPROVER_assigns(Chunk_m_nlCount(HEADC), Chunk_m_nlCount(TAILC), CPD(changes), g_deleted_head, g_deleted_tail, g_added_before_head, g_added_at_tail, g_added_nl_count, g_added_type)
/* fragments are left alone */
__CPROVER_ensures(CPD(frag_cols) != 0 ==> (!g_deleted_head && !g_deleted_tail && !g_added_before_head && !g_added_at_tail
                                           && Chunk_m_nlCount(HEADC) == OLD_HN && Chunk_m_nlCount(TAILC) == OLD_TN))
/* ---- end of file ---- */
__CPROVER_ensures((CPD(frag_cols) == 0 && EOFO == 0) ==> (!g_deleted_tail && !g_added_at_tail && Chunk_m_nlCount(TAILC) == OLD_TN))
__CPROVER_ensures((CPD(frag_cols) == 0 && EOFO == IARF_REMOVE_B) ==> (g_deleted_tail == T_IS_NL && !g_added_at_tail))
__CPROVER_ensures((CPD(frag_cols) == 0 && EOFO == IARF_ADD_B && T_IS_NL && EOFMIN > 0) ==> (!g_deleted_tail && !g_added_at_tail && Chunk_m_nlCount(TAILC) == (OLD_TN < EOFMIN ? EOFMIN : OLD_TN)))
__CPROVER_ensures((CPD(frag_cols) == 0 && EOFO == 3 && T_IS_NL) ==> (!g_deleted_tail && !g_added_at_tail && Chunk_m_nlCount(TAILC) == EOFMIN))
__CPROVER_ensures((CPD(frag_cols) == 0 && (EOFO & IARF_ADD_B) && !T_IS_NL && EOFMIN > 0) ==> (g_added_at_tail && !g_deleted_tail))
__CPROVER_ensures((CPD(frag_cols) == 0 && (EOFO & IARF_ADD_B) && EOFMIN == 0 && EOFO != 3) ==> (!g_added_at_tail && !g_deleted_tail && Chunk_m_nlCount(TAILC) == OLD_TN))
__CPROVER_ensures(!T_IS_NL ==> (!g_deleted_tail && Chunk_m_nlCount(TAILC) == OLD_TN))
/* ---- start of file ---- */
__CPROVER_ensures((CPD(frag_cols) == 0 && SOF == 0) ==> (!g_deleted_head && !g_added_before_head && Chunk_m_nlCount(HEADC) == OLD_HN))
__CPROVER_ensures((CPD(frag_cols) == 0 && SOF == IARF_REMOVE_B) ==> (g_deleted_head == H_IS_NL && !g_added_before_head))
__CPROVER_ensures((CPD(frag_cols) == 0 && SOF == IARF_ADD_B && H_IS_NL && SOFMIN > 0) ==> (!g_deleted_head && !g_added_before_head && Chunk_m_nlCount(HEADC) == (OLD_HN < SOFMIN ? SOFMIN : OLD_HN)))
__CPROVER_ensures((CPD(frag_cols) == 0 && SOF == 3 && H_IS_NL) ==> (!g_deleted_head && !g_added_before_head && Chunk_m_nlCount(HEADC) == SOFMIN))
__CPROVER_ensures((CPD(frag_cols) == 0 && (SOF & IARF_ADD_B) && !H_IS_NL && SOFMIN > 0) ==> (g_added_before_head && !g_deleted_head))
__CPROVER_ensures(!H_IS_NL ==> (!g_deleted_head && Chunk_m_nlCount(HEADC) == OLD_HN))
/* a chunk that is added is a newline chunk carrying the configured minimum */
__CPROVER_ensures((g_added_at_tail && !g_added_before_head) ==> (g_added_type == CT_NEWLINE_V && g_added_nl_count == EOFMIN))
__CPROVER_ensures((g_added_before_head && !g_added_at_tail) ==> (g_added_type == CT_NEWLINE_V && g_added_nl_count == SOFMIN))
;

/* the same function on a list of exactly one chunk (head == tail, -DSINGLE_CHUNK_LIST): the chunk is deleted at most once and never
 * touched after its deletion (the list model asserts it), and it is deleted exactly when one of the two ends asks for removal */
void newlines_eat_start_end_single_contract(void)
__CPROVER_requires(OPT_RANGE_nl_start_of_file && OPT_RANGE_nl_end_of_file && OPT_RANGE_nl_start_of_file_min && OPT_RANGE_nl_end_of_file_min)
__CPROVER_requires(!Chunk_m_nullChunk(HEADC) && Chunk_m_nullChunk(NULLC) && CPD(changes) < 1000000)
__CPROVER_requires(!g_deleted_head && !g_deleted_tail && !g_added_before_head && !g_added_at_tail)
__CPROVER_assigns(Chunk_m_nlCount(HEADC), CPD(changes), g_deleted_head, g_added_before_head, g_added_at_tail, g_added_nl_count, g_added_type)
__CPROVER_ensures(CPD(frag_cols) != 0 ==> (!g_deleted_head && Chunk_m_nlCount(HEADC) == OLD_HN))
__CPROVER_ensures((CPD(frag_cols) == 0 && H_IS_NL && (SOF == IARF_REMOVE_B || EOFO == IARF_REMOVE_B)) ==> g_deleted_head)
__CPROVER_ensures((!H_IS_NL || (SOF != IARF_REMOVE_B && EOFO != IARF_REMOVE_B)) ==> !g_deleted_head)
;

/* too_big_for_nl_max: returns normally only if no blank-line count option exceeds nl_max (set B generated from the
 * option documentation, see tools/gen.py); otherwise names the options and exits with EX_CONFIG */
void exit_contract(int status)
__CPROVER_requires(status == 78)
__CPROVER_requires(g_msgs >= 2)    /* at least one option named, plus the closing message */
__CPROVER_assigns(g_exit_status)
__CPROVER_ensures(0)
;
void too_big_for_nl_max_contract(void)
__CPROVER_requires(g_msgs == 0)
__CPROVER_assigns(g_msgs, g_exit_status)
NL_COUNT_ENSURES
__CPROVER_ensures(g_msgs == 0)   /* nothing is printed when the configuration is consistent */
;

/* ---- can_increase_nl (C20-K5), from the statement of C20: "eat_blanks_after_open_brace and eat_blanks_before_close_brace
 * leave no blank line next to the brace" -- with the two overrides the option documentation itself states
 * (src/options.h: nl_inside_namespace "Overrides eat_blanks_after_open_brace and eat_blanks_before_close_brace";
 *  nl_inside_empty_func "This option overrides eat_blanks_after_open_brace and eat_blanks_before_close_brace").
 * can_increase_nl(nl) == false makes do_blank_lines() force the newline chunk to exactly one line break. ---- */
extern struct Chunk *const PREVNC, *const PREVC, *const NEXTC, *const PPSTART;
extern const unsigned CT_BRACE_OPEN_V, CT_BRACE_CLOSE_V, CT_NAMESPACE_V, CT_FUNC_DEF_V, CT_FUNC_CLASS_DEF_V;
#define T_(p)   Chunk_m_type(p)
#define PT_(p)  Chunk_m_parentType(p)
#define IS_FUNC_PARENT(p) (PT_(p) == CT_FUNC_DEF_V || PT_(p) == CT_FUNC_CLASS_DEF_V)
#define NS_OVERRIDE_CLOSE   (optv_nl_inside_namespace > 0 && PT_(NEXTC) == CT_NAMESPACE_V)
#define NS_OVERRIDE_OPEN    (optv_nl_inside_namespace > 0 && PT_(PREVNC) == CT_NAMESPACE_V)
#define EMPTY_FUNC_OVERRIDE (optv_nl_inside_empty_func > 0 && T_(PREVNC) == CT_BRACE_OPEN_V && T_(NEXTC) == CT_BRACE_CLOSE_V && (IS_FUNC_PARENT(NEXTC) || IS_FUNC_PARENT(PREVNC)))
_Bool can_increase_nl_contract(struct Chunk *nl)
__CPROVER_requires(__CPROVER_is_fresh(nl, SIZEOF_Chunk) && !Chunk_m_nullChunk(nl) && !Chunk_m_nullChunk(PREVNC) && !Chunk_m_nullChunk(NEXTC))
__CPROVER_assigns()
/* no blank line before '}' */
__CPROVER_ensures((!optv_nl_squeeze_ifdef && optv_eat_blanks_before_close_brace && T_(NEXTC) == CT_BRACE_CLOSE_V && !NS_OVERRIDE_CLOSE && !EMPTY_FUNC_OVERRIDE) ==> !__CPROVER_return_value)
/* no blank line after '{' (a '}' that follows directly is governed by the clause above when eat_blanks_before_close_brace is set) */
__CPROVER_ensures((!optv_nl_squeeze_ifdef && optv_eat_blanks_after_open_brace && T_(PREVNC) == CT_BRACE_OPEN_V && !NS_OVERRIDE_OPEN && !NS_OVERRIDE_CLOSE && !EMPTY_FUNC_OVERRIDE) ==> !__CPROVER_return_value)
;

#ifdef DBL_VC
/* ---- one iteration of do_blank_lines() as a direct verification condition (C20-K4), from the statement of C20: "With nl_max=N>0
 * the output contains no run of more than N consecutive line breaks ..., provided no other blank-line count option asks for more
 * than N".  The newline chunk handled by the iteration is an arbitrary chunk `pc` of the list; every neighbour query returns an
 * arbitrary chunk.  The first / last newline of the file carries one extra line break during the iteration (line_added), which the
 * iteration removes again - except on the forced-to-one path, where the count is exactly 1. ---- */
extern struct Chunk *const P0, *const P1, *const P2, *const PN;
extern const unsigned CT_NEWLINE_V, CT_IGNORED_V;
extern unsigned g_nav_fuel;
extern _Bool g_cinl, g_have_first;
extern struct Chunk *g_first_prevnc;
void do_blank_lines_iteration(struct Chunk *pc);
void h_do_blank_lines_iteration(void)
{
   struct Chunk *pc = P0;
   __CPROVER_havoc_object(P0);        /* the whole pool: every attribute of every chunk is arbitrary */
   __CPROVER_havoc_object(PN);
   Chunk_m_nullChunk(P0) = 0; Chunk_m_nullChunk(P1) = 0; Chunk_m_nullChunk(P2) = 0; Chunk_m_nullChunk(PN) = 1;
   size_t old_nl = Chunk_m_nlCount(pc);
   g_have_first = 0;
   g_cinl = 1;
   /* the property's premise: nl_max = N > 0 and no other count option asks for more (the set the option documentation defines,
    * generated from options.h - the same set too_big_for_nl_max is proved to enforce) */
   __CPROVER_assume(optv_nl_max > 0 && OPT_RANGE_nl_max && NL_COUNT_ALL_OK);
   __CPROVER_assume(old_nl >= 1 && old_nl < (1UL << 40) && g_nav_fuel <= 4 && CPD(changes) >= 0 && CPD(changes) < 1000000);
   __CPROVER_assume(Chunk_m_type(pc) == CT_NEWLINE_V);
   do_blank_lines_iteration(pc);
   /* the cap: whatever the input had, at most N line breaks remain (a newline right after disabled-region text is left alone:
    * the first early `continue`; it is the only way out with a larger count) */
#define AFTER_IGNORED (g_have_first && !Chunk_m_nullChunk(g_first_prevnc) && Chunk_m_type(g_first_prevnc) == CT_IGNORED_V)
   __CPROVER_assert(AFTER_IGNORED ? Chunk_m_nlCount(pc) == old_nl : Chunk_m_nlCount(pc) <= optv_nl_max, "postcondition: do_blank_lines nl_count <= nl_max (a newline right after disabled-region text is left alone)");
   __CPROVER_assert(Chunk_m_nlCount(pc) >= 1, "postcondition: do_blank_lines a newline chunk keeps at least one line break");
   /* with every count option off nothing but the cap applies: a count within the cap is left exactly as it was (the extra line break
    * the first / last newline of the file carries during the iteration is removed again) */
   __CPROVER_assert((NL_COUNT_ALL_ZERO && optv_nl_max_after_func_body == 0 && g_cinl && !AFTER_IGNORED && old_nl + 1 <= optv_nl_max) ==> Chunk_m_nlCount(pc) == old_nl, "postcondition: do_blank_lines leaves a count within the cap unchanged when no count option is set");
   /* where can_increase_nl() says no (eat_blanks_* next to a brace, see its contract) the chunk is forced to exactly one line break */
   __CPROVER_assert(g_cinl || Chunk_m_nlCount(pc) == 1, "postcondition: do_blank_lines forces one line break where the count may not grow");
   if (Chunk_m_nlCount(pc) > optv_nl_max) { __CPROVER_assert(0, "VACUITY_CANARY do_blank_lines: untouched newline (after ignored text)"); }
   if (Chunk_m_nlCount(pc) == optv_nl_max && old_nl > optv_nl_max) { __CPROVER_assert(0, "VACUITY_CANARY do_blank_lines: capped"); }
   if (Chunk_m_nlCount(pc) > old_nl) { __CPROVER_assert(0, "VACUITY_CANARY do_blank_lines: raised by a count option"); }
}
#endif
