/* C20 "blank-line limits are respected ... the file starts with exactly nl_start_of_file_min line breaks": newlines_remove_disallowed() (src/newlines/remove.cpp)
 * may only LOWER a blank-line count, only to 1, only where can_increase_nl() forbids blank lines - and it leaves the first chunk of the file alone (the line breaks at
 * the start of the file were set by newlines_eat_start_end(), which runs before it and is not repeated afterwards). */
#include "common.h"
extern struct Chunk *const P0, *const P1, *const P2, *const PN; extern unsigned g_nav_fuel; extern _Bool g_can_increase[3]; extern unsigned g_asked[3];
void newlines_remove_disallowed(void);
void h_newlines_remove_disallowed(void)
{
   __CPROVER_havoc_object(P0); __CPROVER_havoc_object(PN);
   Chunk_m_nullChunk(P0) = 0; Chunk_m_nullChunk(P1) = 0; Chunk_m_nullChunk(P2) = 0; Chunk_m_nullChunk(PN) = 1;
   __CPROVER_assume(g_nav_fuel <= 4 && CPD(changes) >= 0 && CPD(changes) < 1000000);     /* (the change counter of the run does not wrap) */
   size_t n0 = Chunk_m_nlCount(P0), n1 = Chunk_m_nlCount(P1), n2 = Chunk_m_nlCount(P2);
   g_asked[0] = g_asked[1] = g_asked[2] = 0;
   newlines_remove_disallowed();
   __CPROVER_assert(Chunk_m_nlCount(P0) == n0, "postcondition: newlines_remove_disallowed leaves the line breaks at the start of the file alone");
   __CPROVER_assert(Chunk_m_nlCount(P1) == n1 || (Chunk_m_nlCount(P1) == 1 && g_asked[1] > 0 && !g_can_increase[1]), "postcondition: newlines_remove_disallowed changes a count only to 1 and only where can_increase_nl() says no");
   __CPROVER_assert(Chunk_m_nlCount(P2) == n2 || (Chunk_m_nlCount(P2) == 1 && g_asked[2] > 0 && !g_can_increase[2]), "postcondition: newlines_remove_disallowed changes a count only to 1 and only where can_increase_nl() says no (2)");
   if (Chunk_m_nlCount(P1) != n1) { __CPROVER_assert(0, "VACUITY_CANARY remove_disallowed: a count lowered"); }
   if (Chunk_m_nlCount(P1) == n1 && g_asked[1] > 0 && n1 > 1) { __CPROVER_assert(0, "VACUITY_CANARY remove_disallowed: blank lines allowed to stay"); }
}
