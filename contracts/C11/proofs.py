"""C11 Files in one invocation are formatted independently of each other -- kernel: the per-file reset."""
import os
import re
import subprocess
import sys
sys.path.insert(0, os.path.join(os.path.dirname(os.path.abspath(__file__)), '..', '..', 'tools'))
from prover import Proof  # noqa: E402
sys.path.insert(0, os.path.join(os.path.dirname(os.path.abspath(__file__)), '..', 'fileio'))
import fileio_proofs  # noqa: E402

L = [dict(fn='uncrustify_end', id=0, vars=['pc'], assigns='pc, g_list_len, g_deleted',
          inv='g_list_len + g_deleted == __CPROVER_loop_entry(g_list_len) + __CPROVER_loop_entry(g_deleted) && g_list_len <= __CPROVER_loop_entry(g_list_len)',
          decreases='g_list_len')]
def end_proof():
    return Proof('uncrustify_end', impl='contracts/C11/end.impl.cpp', spec='contracts/C11/end.spec.c', enforce='uncrustify_end/uncrustify_end_contract',
          loops=L, replace=['memset/memset_contract'], assumed=['memset_contract (libc)'], functions=['uncrustify.cpp:uncrustify_end'],
          expect=['uncrustify_end_contract.postcondition', 'loop_decreases'],
          mutants=[('reset_line_removed', r'cpd.unc_off     = false;\n', '', 'postcondition'),
                   ('le_counts_not_cleared', r'memset\(cpd.le_counts, 0, sizeof\(cpd.le_counts\)\);\n', '', 'postcondition'),
                   ('list_not_always_emptied', r'while \(\(pc = Chunk::GetHead\(\)\)->IsNotNullChunk\(\)\)', 'while ((pc = Chunk::GetHead())->IsNotNullChunk() && cpd.unc_off)', 'postcondition'),
                   ('touches_other_state', r'cpd.changes     = 0;', 'cpd.changes     = 0; cpd.frag_cols = 0;', 'assigns')],
          frame_is_property=True,
          note='the assigns clause is itself a claim here: uncrustify_end() resets per-file state and touches no configuration / per-invocation state')


PROOFS = [end_proof(), fileio_proofs.dsf_proof()]
EXPLANATION = ('Kernel of C11: uncrustify_end() empties the chunk list (loop closed by invariant over a ghost list length, with termination), clears the capture buffer and '
               'resets unc_off, al_cnt, did_newline, pp_level, changes, in_preproc, le_counts[*], preproc_ncnl_count, ifdef_over_whole_file, warned_unable_string_replace_tab_chars, '
               'unc_stage; its frame (assigns clause) shows it touches nothing else. A static check recomputes, on every run, the set W of cp_data_t fields written anywhere '
               'under src/ and requires each to be reset here, re-initialised at the start of every file, or on the reviewed list of fields without cross-file effect.')
K = ['K1 uncrustify_end: reset set + frame', 'K2 do_source_file: with -l, cpd.lang_flags is the forced value at the start of every file (postcondition of do_source_file_contract)',
     'K2b do_source_file: init_keywords_for_language() has been run for the language of this file on every path that reaches uncrustify_file (precondition of uncrustify_file_contract)', 'K3 (static) every written cp_data_t field is classified: reset / per-file initialised / reviewed as harmless']
G = ['start-of-file assignments (output_text: fout, did_newline, column; uncrustify_file: bom, enc, pass_count; do_source_file: filename, lang_flags unless forced) are read, not under contract',
     'cpd.last_char and cpd.spaces are not reset between files; harmless only if every file\'s output ends with a line break / without pending blanks (not proved)',
     'state outside cp_data_t (sorting.cpp caches, options_for_QT.cpp statics, keyword tables): NOT covered',
     'independence for all histories additionally needs "passes read no other global": NOT proved']

RESET = {'unc_off', 'al_cnt', 'did_newline', 'pp_level', 'changes', 'in_preproc', 'le_counts', 'preproc_ncnl_count', 'ifdef_over_whole_file',
         'warned_unable_string_replace_tab_chars', 'unc_stage', 'bout'}
PER_FILE_INIT = {'fout', 'column', 'bom', 'enc', 'pass_count', 'filename', 'newline', 'frag_cols', 'output_tab_as_space', 'output_trailspace', 'al_c99_array'}
ARGS_ONLY = {'do_check', 'if_changed', 'lang_forced', 'frag', 'html_file', 'html_type', 'find_deprecated', 'check_fail_cnt', 'line_number'}
REVIEWED = {'unc_off_used': 'written, never read', 'lang_flags': 'modified by the ObjC probe; restored per file by do_source_file (K2)',
            'last_char': 'carried over; see G', 'spaces': 'carried over; see G', 'error_count': 'only in a comment'}


def static_facts(repo):
    out = subprocess.run(['grep', '-rnoE', r'cpd\.(\w+)(\[[^]]*\])?\s*(=[^=]|\+\+|--|\+=|-=|\|=|&=)', os.path.join(repo, 'src'), '--include=*.cpp'],
                         stdout=subprocess.PIPE, text=True).stdout
    W = set()
    for l in out.splitlines():
        if 'universalindentgui' in l or 'uncrustify_emscripten' in l:
            continue
        mo = re.search(r'cpd\.(\w+)', l)
        if mo:
            W.add(mo.group(1))
    W.add('le_counts')
    unknown = sorted(W - RESET - PER_FILE_INIT - ARGS_ONLY - set(REVIEWED))
    return [('every cp_data_t field written under src/ is classified (reset by uncrustify_end / initialised per file / argument parsing only / reviewed)',
             not unknown, 'unclassified: %s' % unknown if unknown else 'W=%d fields' % len(W))]

sys.path.insert(0, os.path.join(os.path.dirname(os.path.abspath(__file__)), '..', '..', 'tools'))
import replay_lib  # noqa: E402
REPLAY = replay_lib.make_replay(replay_lib.scenario_lang_leak)
