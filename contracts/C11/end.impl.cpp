// Translation unit for uncrustify_end() (C11-K1), sliced verbatim from src/uncrustify.cpp.  The chunk list is a
// ghost counter: Chunk::GetHead() returns a real chunk while g_list_len > 0, Chunk::Delete() removes one.
#include "token_enum.h"      /* from the working tree: -I <repo>/src */
#define VERIF_E_TOKEN
#define VERIF_UNC_STAGE_T unc_stage_e
#include "base.h"
//@slice src/uncrustify_types.h struct unc_stage_e
#include "containers.h"
#include "unctext.h"
#include "cpd.h"
#include "chunk.h"
#include "logger.h"
extern "C" {
size_t g_list_len;      // ghost: number of chunks in the list
size_t g_deleted;       // ghost: number of Chunk::Delete calls
Chunk g_some_chunk, g_nullc;
void *memset(void *s, int c, size_t n) { return s; }   // replaced by memset_contract (the one call clears cpd.le_counts)
}
Chunk *const Chunk::NullChunkPtr = &g_nullc;
Chunk *Chunk::GetHead() { return (g_list_len > 0) ? &g_some_chunk : NullChunkPtr; }
void Chunk::Delete(Chunk * &pc) { VASSERT(g_list_len > 0 && pc == &g_some_chunk, "Delete of the head chunk"); g_list_len--; g_deleted++; pc = NullChunkPtr; }
extern "C" {
//@slice src/uncrustify.cpp fn uncrustify_end
}
#include "offsets_cpp.h"
#define CANARY(msg) __CPROVER_assert(0, "VACUITY_CANARY " msg)
extern "C" {
extern Chunk *const SOMEC = &g_some_chunk; extern Chunk *const NULLC = &g_nullc;
extern const unsigned UNC_STAGE_CLEANUP = (unsigned)unc_stage_e::CLEANUP;
void h_uncrustify_end() { uncrustify_end(); CANARY("uncrustify_end returns"); }
}
