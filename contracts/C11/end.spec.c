/* Contract for uncrustify_end() (C11-K1): every per-file field it is responsible for is back at its process-start
 * value, the chunk list is empty, the capture buffer is empty -- and (frame) nothing else in cpd changes. */
#include "common.h"
extern size_t g_list_len, g_deleted;
extern struct Chunk *const SOMEC, *const NULLC;
extern const unsigned UNC_STAGE_CLEANUP;
/* libc memset, as used here: memset(cpd.le_counts, 0, sizeof(cpd.le_counts)) */
void *memset_contract(void *s, int c, size_t n)
__CPROVER_requires(s == (void*)CPD(le_counts) && c == 0 && n == 3 * sizeof(unsigned int))
__CPROVER_assigns(CPD(le_counts)[0], CPD(le_counts)[1], CPD(le_counts)[2])
__CPROVER_ensures(CPD(le_counts)[0] == 0 && CPD(le_counts)[1] == 0 && CPD(le_counts)[2] == 0 && __CPROVER_return_value == s)
;
void uncrustify_end_contract(void)
__CPROVER_requires(!Chunk_m_nullChunk(SOMEC) && Chunk_m_nullChunk(NULLC) && g_list_len < (1UL << 32) && g_deleted == 0)
__CPROVER_requires(CPD(bout) == (struct deque_UINT8*)0 || D8_FRESH(CPD(bout)))
/* the frame IS the claim "nothing else is touched": exactly these fields */
__CPROVER_assigns(CPD(unc_stage), CPD(unc_off), CPD(al_cnt), CPD(did_newline), CPD(pp_level), CPD(changes), CPD(in_preproc),
                  CPD(le_counts)[0], CPD(le_counts)[1], CPD(le_counts)[2], CPD(preproc_ncnl_count), CPD(ifdef_over_whole_file),
                  CPD(warned_unable_string_replace_tab_chars), g_list_len, g_deleted)
__CPROVER_assigns(CPD(bout) != (struct deque_UINT8*)0: D8_size(CPD(bout)))
__CPROVER_ensures(g_list_len == 0 && g_deleted == __CPROVER_old(g_list_len))
__CPROVER_ensures(CPD(bout) != (struct deque_UINT8*)0 ==> D8_size(CPD(bout)) == 0)
__CPROVER_ensures(CPD(unc_stage) == UNC_STAGE_CLEANUP)
__CPROVER_ensures(CPD(unc_off) == 0 && CPD(al_cnt) == 0 && CPD(did_newline) == 1 && CPD(pp_level) == 0 && CPD(changes) == 0)
__CPROVER_ensures(CPD(in_preproc) == 0 /* CT_NONE */ && CPD(le_counts)[0] == 0 && CPD(le_counts)[1] == 0 && CPD(le_counts)[2] == 0)
__CPROVER_ensures(CPD(preproc_ncnl_count) == 0 && CPD(ifdef_over_whole_file) == 0 && CPD(warned_unable_string_replace_tab_chars) == 0)
;
