"""C13 In-place rewriting is all-or-nothing -- safety half (order and error handling of the file operations)."""
import os
import sys
sys.path.insert(0, os.path.join(os.path.dirname(os.path.abspath(__file__)), '..', 'fileio'))
import fileio_proofs  # noqa: E402
PROOFS = [fileio_proofs.dsf_proof(), fileio_proofs.bcf_proof(), fileio_proofs.md5file_proof(), fileio_proofs.loadmem_proof()]
EXPLANATION = ('Kernel of C13: do_source_file() verified against ALL outcomes of every libc/helper call (each replaced by a contract that may succeed or fail): '
               'in place, the only file opened for writing is <target>.uncrustify; rename() over the target is reachable only after the temporary file was closed '
               'successfully with no write error; a failed backup, open, close, write or rename never leads to a normal return.')
K = ['K4 load_mem_file: 0 means every byte of the file (st_size of them) was read into fm.raw - the text that is formatted and the bytes the backup receives - and decoded; a short read or an undecodable text never returns; a file that cannot be opened gives -1; the stream is closed', 'K1c\' backup_copy_file: EX_OK => the backup was handed exactly the original bytes AND its stream was closed successfully (the buffered bytes reached the file), or the backup was legitimately skipped',
     'K1e backup_create_md5_file: a read error while digesting never leaves an md5 behind and exits non-zero', 'K1a target never opened for writing in place (fopen_contract precondition)', 'K1b rename only after successful close and no write error (rename_contract precondition)',
     'K1c target replaced only if the backup was made unless --no-backup (postcondition)', 'K1d normal return => no failure seen (postcondition)']
G = ['crash points / kill signals between calls are not expressible in a sequential function contract: NOT covered; rename(2) is assumed atomic',
     'formatting failures exit inside uncrustify_file, i.e. before the rename block (uncrustify_file_contract: may not return)',
     'the --replace loop over several files in main()/process_source_list is not covered']

sys.path.insert(0, os.path.join(os.path.dirname(os.path.abspath(__file__)), '..', '..', 'tools'))
import replay_lib  # noqa: E402
REPLAY = replay_lib.make_replay(replay_lib.scenario_failed_close, replay_lib.scenario_backup_close_fault, replay_lib.scenario_corrupt_md5_file, replay_lib.scenario_failed_backup, replay_lib.scenario_md5_after_rename, replay_lib.scenario_md5_read_fault)
