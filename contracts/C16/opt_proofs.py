"""Proofs over the value readers of the option registry (C16-K1..K3)."""
import os
import sys
sys.path.insert(0, os.path.join(os.path.dirname(os.path.abspath(__file__)), '..', '..', 'tools'))
from prover import Proof, REPO  # noqa: E402
import re

IMPL, SPEC = 'contracts/C16/opt.impl.cpp', 'contracts/C16/opt.spec.c'
# parameter type of validate() as declared in the working tree (the class shells of env/option_stub.h follow it)
_mo = re.search(r'virtual bool validate\((\w+(?: \w+)?)\)', open(os.path.join(REPO, 'src/option.h')).read())
VALIDATE_ARG_T = _mo.group(1) if _mo else 'long'


def _validate_rules(T, cls):
    why = 'textual instantiation of the class template member onto the shell %s (env/option_stub.h)' % cls
    return {
        'validate_base_%s' % T: [('D8', [(r'virtual bool validate\((\w+(?: \w+)?)\)', r'bool %s::validate_base(\1)' % cls, why)])],
        'validate_bounded_%s' % T: [('D8', [(r'protected:\n\s*bool validate\((\w+(?: \w+)?) val\) override', r'bool %s::validate_bounded(\1 val)' % cls, why),
                                            (r'static_cast<long>\(min\)', 'static_cast<long>(m_lo)', 'template argument min -> data member m_lo (any value)'),
                                            (r'static_cast<long>\(max\)', 'static_cast<long>(m_hi)', 'template argument max -> data member m_hi (any value)')]),
                                    ('D2', {'types': ['OptionWarning w']})],
    }


def _read_number_rules(T, cls):
    why = 'instantiation T = %s' % T
    return {'read_number_%s' % T: [
        ('D4', None),
        ('D8', [(r'bool read_number\(const char \*in, Option<T> &out\)', 'bool read_number_%s(const char *in, %s &out)' % (T, cls), why),
                (r'const auto val = std::strtol', 'const long val = std::strtol', 'auto of a long initialiser', True),
                (r'static_cast<T>\(', 'static_cast<%s>(' % T, why),
                (r'const auto \*const opt = find_option\(in\)', 'const GenericOption * opt = find_option(in)', 'auto of GenericOption* (top-level const of the local dropped for rule D3)'),
                (r'auto &sopt = \*static_cast<const Option<signed> \*>\(opt\);', 'const Option_signed &sopt = *static_cast<const Option_signed *>(opt);', 'Option<signed> -> shell'),
                (r'auto &uopt = \*static_cast<const Option<unsigned> \*>\(opt\);', 'const Option_unsigned &uopt = *static_cast<const Option_unsigned *>(opt);', 'Option<unsigned> -> shell'),
                (r'const auto rval = ', 'const long rval = ', 'auto of a long initialiser', True)]),
        ('D3', None)]}


RULES = {}
RULES.update(_validate_rules('signed', 'Option_signed'))
RULES.update(_validate_rules('unsigned', 'Option_unsigned'))
RULES.update(_read_number_rules('signed', 'Option_signed'))
RULES.update(_read_number_rules('unsigned', 'Option_unsigned'))
RULES['bool_read'] = [('D8', [(r'template<>\nbool Option<bool>::read\(const char \*in\)', 'bool Option_bool::read(const char *in)', 'Option<bool> -> shell'),
                              (r'const auto \*const opt = find_option\(in\)', 'const GenericOption * opt = find_option(in)', 'auto of GenericOption* (top-level const of the local dropped for rule D3)'),
                              (r'auto &bopt = \*static_cast<const Option<bool> \*>\(opt\);', 'const Option_bool &bopt = *static_cast<const Option_bool *>(opt);', 'Option<bool> -> shell')]),
                      ('D3', None)]
RULES['read_enum_iarf'] = [('D4', None),
                          ('D8', [(r'bool read_enum\(const char \*in, Option<T> &out\)', 'bool read_enum_iarf(const char *in, Option_iarf &out)', 'instantiation T = iarf_e'),
                                  (r'const auto \*const opt = find_option\(in\)', 'const GenericOption * opt = find_option(in)', 'auto of GenericOption* (top-level const of the local dropped for rule D3)'),
                                  (r'auto &topt = \*static_cast<const Option<T> \*>\(opt\);', 'const Option_iarf &topt = *static_cast<const Option_iarf *>(opt);', 'Option<T> -> shell', True)]),
                          ('D3', None)]
ENV = ['find_option/find_option_contract', 'c_warn/c_warn_contract', 'c_warn_value/c_warn_value_contract', 'c_convert_string_bool/c_convert_string_bool_contract']
ASSUMED = ['strtol: trusted body model in opt.impl.cpp (value and end pointer of the numeral prefix; ERANGE clipping)', 'find_option_contract (registry lookup: not found, or some option of any type)',
           'c_warn / c_warn_value (one diagnostic each; the text printed must be a readable string)', 'convert_string(bool): assigns only on success (proved for the generated table under C15)']


def P(name, enforce, **kw):
    kw.setdefault('unwind', 6)
    kw['defines'] = list(kw.get('defines', [])) + (['VALIDATE_ARG_T=%s' % VALIDATE_ARG_T.replace(' ', '_SP_')] if ' ' not in VALIDATE_ARG_T else [])
    kw.setdefault('replace', ENV)
    return Proof(name, impl=IMPL, spec=SPEC, enforce=enforce, rules=RULES, assumed=ASSUMED, drop_flags=['--conversion-check'],
                 note='static_cast<T>(long) is an implementation-defined conversion (not undefined): conversion check off; whether it loses information is what the postcondition decides. '
                      'strchr on the literals "-" / "~!-" is unwound 6 with unwinding assertions (complete for these literals)',
                 expect=[enforce.split('/')[1] + '.postcondition'], **kw)


POL_RULES = {'process_option_line': [
    ('D8', [(r'auto args = split_args\(', 'vec_string args = split_args(', 'auto of std::vector<std::string>'),
            (r'const auto &cmd = to_lower\(', 'const std::string cmd = to_lower(', 'auto of std::string (reference to a temporary -> value)'),
            (r'const auto token = find_token_name\(', 'const E_Token token = find_token_name(', 'auto of E_Token'),
            (r'\bauto(\s*&?\s*)this_line_number(\s*)= ', r'unsigned\1this_line_number\2= ', 'auto of unsigned'),
            (r'const auto &include_path(\s*)= args\[1\];', r'const std::string &include_path\1= args[1];', 'auto of std::string'),
            (r'auto \*const lang_arg = ', 'const char *const lang_arg = ', 'auto of const char'),
            (r'auto \*const lang_name = ', 'const char *const lang_name = ', 'auto of const char'),
            (r'auto vargs = split_args\(', 'vec_string vargs = split_args(', 'auto of std::vector<std::string>'),
            (r'const auto oi = option_map.find\(', 'const option_map_iter oi = option_map.find(', 'auto of the registry iterator')]),
    ('D2', {'types': ['std::string']})]}


def pol_proof():
    kwl = 'g_kw, g_kw_wrong_token, g_kw_misplaced'
    return Proof('process_option_line', impl='contracts/C16/pol.impl.cpp', spec='contracts/C16/pol.spec.c', harness='h_process_option_line',
                 enforce='process_option_line/process_option_line_contract', rules=POL_RULES, canaries=7,
                 loops=[dict(fn='process_option_line', id=0, vars=['i'], assigns='i, ' + kwl, decreases='g_nargs - i',
                             inv='1 <= i && i <= g_nargs && g_kw == i - 1 && g_kw_wrong_token == 0 && g_kw_misplaced == 0'),
                        dict(fn='process_option_line', id=1, vars=['i'], assigns='i, ' + kwl, decreases='g_nargs - i',
                             inv='2 <= i && i <= g_nargs && g_kw == i - 2 && g_kw_wrong_token == 0 && g_kw_misplaced == 0'),
                        dict(fn='process_option_line', id=2, vars=['i'], assigns='i, g_ext, g_ext_misplaced, g_diag', decreases='g_nargs - i',
                             inv='2 <= i && i <= g_nargs && g_ext_misplaced == 0 && g_diag == 0 && (g_lang_known ? g_ext == i - 2 : (g_ext == 0 && i == 2))')],
                 functions=['option.cpp:process_option_line', 'option.cpp:option_level'],
                 assumed=['split_args: any number of arguments of any text', 'to_lower: the lower-cased first argument (any command word)',
                          'extension_add fails exactly when the language name is unknown', 'process_option_line_compat_0_*: handle the line or not (arbitrary)',
                          'read_version_part contract (proved: proof read_version_part)', 'GenericOption::read: contracts of K2/K3', 'add_keyword, load_option_file: recorded, not verified'],
                 expect=['process_option_line_contract.postcondition', 'loop_invariant_step', 'loop_decreases'],
                 mutants=[('unknown_option_silent', r'''w\("unknown option '%s'", args\[0\]\.c_str\(\)\);''', '', 'postcondition'),
                          ('set_needs_only_two_args', r'if \(args\.size\(\) < 3\)', 'if (args.size() < 2)', 'postcondition|container precondition|pointer'),
                          ('type_skips_first_word', r'for \(size_t i = 1; i < args\.size\(\); \+\+i\)', 'for (size_t i = 2; i < args.size(); ++i)', 'postcondition|loop_invariant'),
                          ('version_part_unchecked', r'read_version_part\(vargs\[0\]\.c_str\(\), major\)', '((major = std::stoi(vargs[0])), true)', 'stoi|postcondition'),
                          ('file_ext_goes_on_after_unknown_language', r'''w\("file_ext: unknown language '%s'", lang_arg\);\n            break;''', '''w("file_ext: unknown language '%s'", lang_arg);''', 'postcondition|loop_invariant'),
                          ('line_number_not_restored', r'cpd\.line_number = this_line_number;', '', 'postcondition'),
                          ('empty_include_path_loaded', r'if \(include_path\.empty\(\)\)', 'if (false)', 'postcondition')])


def all_proofs():
    return [pol_proof(),
        P('read_version_part', 'read_version_part/read_version_part_contract', canaries=2, functions=['option.cpp:read_version_part'], defines=['VERSION_PART'],
          mutants=[('trailing_text_accepted', r'      \|\| \*c != 0\n', '', 'postcondition'),
                   ('empty_part_accepted', r'if \(  c == in\n      \|\| ', 'if (  ', 'postcondition'),
                   ('upper_bound_dropped', r'      \|\| val > 1023\)', '      )', 'postcondition')]),
        P('validate_signed', 'w_validate_signed/validate_signed_contract', canaries=2, functions=['option.h:BoundedOption<signed,min,max>::validate', 'option.h:Option<signed>::validate'],
          mutants=[('off_by_one_max', r'if \(val > static_cast<long>\(m_hi\)\)', 'if (val > static_cast<long>(m_hi) + 1)', 'postcondition'),
                   ('min_unchecked', r'if \(val < static_cast<long>\(m_lo\)\)', 'if (false)', 'postcondition')]),
        P('validate_unsigned', 'w_validate_unsigned/validate_unsigned_contract', canaries=2, functions=['option.h:BoundedOption<unsigned,min,max>::validate', 'option.h:Option<unsigned>::validate']),
        P('read_number_signed', 'read_number_signed/read_number_signed_contract', canaries=3, functions=['option.cpp:read_number<signed>', 'option.h:validate (inlined)'],
          mutants=[('assign_before_validate', r'(   // the number has to fit[^\n]*\n   if \(  \*c == 0\n)', r'   out.m_val = static_cast<signed>(val);\n\1', 'postcondition'),
                   ('validates_before_negation', r'if \(out.validate\(rval\)\)', 'if (out.validate(tval))', 'postcondition'),
                   ('partial_numeral_accepted', r'if \(  \*c == 0\n      && static_cast', 'if (  static_cast', 'postcondition'),
                   ('truncation_unchecked', r'      && static_cast<long>\(static_cast<signed>\(val\)\) == val\n', '', 'postcondition')]),
        P('read_number_unsigned', 'read_number_unsigned/read_number_unsigned_contract', canaries=3, functions=['option.cpp:read_number<unsigned>', 'option.h:validate (inlined)'],
          mutants=[('reference_not_checked', r'      if \(static_cast<long>\(static_cast<unsigned>\(rval\)\) != rval\)\n      \{\n         out.warnUnexpectedValue\(in\);\n         return\(false\);\n      \}\n', '', 'postcondition')]),
        P('read_enum_iarf', 'read_enum_iarf/read_enum_iarf_contract', canaries=3, functions=['option.cpp:read_enum<T> (instantiated for iarf_e)'],
          replace=ENV + ['c_convert_string_iarf/c_convert_string_iarf_contract', 'c_option_text/c_option_text_contract'],
          mutants=[('type_check_dropped', r'if \(opt->type\(\) != out\.type\(\)\)', 'if (false)', 'postcondition'),
                   ('reference_value_not_copied', r'out\.m_val = topt\(\);', '', 'postcondition'),
                   ('unknown_text_silent', r'out\.warnUnexpectedValue\(in\);\n   return\(false\);', 'return(false);', 'postcondition')]),
        P('bool_read', 'w_bool_read/bool_read_contract', canaries=2, functions=['option.cpp:Option<bool>::read'],
          mutants=[('inversion_lost', r'm_val = \(invert \? !bopt\(\) : bopt\(\)\);', 'm_val = bopt();', 'postcondition')]),
    ]
