/* codes of the command words process_option_line() compares a configuration line's first argument with */
#define LIT_none 0
#define LIT_set 1
#define LIT_file_ext 2
#define LIT_type 3
#define LIT_macro_open 4
#define LIT_macro_close 5
#define LIT_macro_else 6
#define LIT_include 7
#define LIT_using 8
#define LIT_other_literal 99   /* a literal in the code that is none of the documented command words: never equal to any line */
