// Translation unit for the value readers of the option registry (C16-K1..K3): BoundedOption::validate and
// Option::validate (src/option.h), read_number<signed>, read_number<unsigned> and Option<bool>::read (src/option.cpp),
// sliced verbatim and instantiated textually onto the class shells of env/option_stub.h (see there).
#include "base.h"
//@slice src/option.h struct option_type_e
//@slice src/option.h struct iarf_e
static const option_type_e OT_BOOL = option_type_e::BOOL, OT_NUM = option_type_e::NUM, OT_UNUM = option_type_e::UNUM;   // aliases of the generated option_enum.h
#include "option_stub.h"
#define assert(c) VASSERT((c), "assert() in sliced code")
#define LOG_CONFIG(...) ((void)0)
extern "C" {
int errno;
// libc strtol (TRUSTED model, C standard 7.22.1.4): the numeral prefix of the text has length g_numlen and value g_val
// (clipped to LONG_MIN/LONG_MAX with errno = ERANGE when g_erange); g_numlen, g_val, g_erange are arbitrary, constrained
// only by STRTOL_MODEL in the contracts.  A body, not a contract: an assumed equality on the pointer written through
// endptr does not give CBMC the points-to information it needs to dereference that pointer afterwards.
extern size_t g_numlen; extern long g_val; extern bool g_erange;
long strtol(const char *nptr, char **endptr, int base)
{
   VASSERT(base == 10, "strtol model: base 10");
   *endptr = (char *)nptr + g_numlen;
   if (g_erange) { errno = 34; }
   return(g_val);
}
// environment: replaced by contracts
GenericOption *find_option(const char *name) { return 0; }
void c_warn(const GenericOption *opt) { }
void c_warn_value(const GenericOption *opt, const char *actual) { }
bool c_convert_string_bool(const char *in, bool *out) { return nondet_bool(); }
bool c_convert_string_iarf(const char *in, unsigned *out) { return nondet_bool(); }
const char *c_option_text(const GenericOption *o) { return 0; }
// libc strchr, real semantics (the terminating NUL is part of the string): used on the literals "-" and "~!-"
const char *strchr(const char *s, int c)
{
   for ( ; ; s++)
   {
      if (*s == (char)c) { return(s); }
      if (*s == 0) { return(0); }
   }
}
}
namespace std { static inline long strtol(const char *a, char **b, int c) { return(::strtol(a, b, c)); } }
static bool convert_string(const char *in, bool &out) { return(c_convert_string_bool(in, &out)); }
static bool convert_string(const char *in, iarf_e &out) { unsigned v = (unsigned)out; bool r = c_convert_string_iarf(in, &v); out = (iarf_e)v; return(r); }
const char *GenericOption::text_shell::c_str() const { return(c_option_text(0)); }
// diagnostics: every path through the real bodies (src/option.cpp) constructs an OptionWarning and calls it at least once
void GenericOption::warnUnexpectedValue(const char *actual) const { c_warn_value(this, actual); }
void GenericOption::warnIncompatibleReference(const GenericOption *ref) const { c_warn(this); }
class OptionWarning
{
public:
   OptionWarning(const GenericOption *o) { m_o = (GenericOption *)o; }
   void operator()(const char *fmt, long a, const char *b, long c) { c_warn(m_o); }     // the two range diagnostics of validate(): (fmt, value, name, bound)
   GenericOption *m_o;
};
//@slice src/option.h fn validate nth=0 key=validate_base_signed
//@slice src/option.h fn validate nth=1 key=validate_bounded_signed
//@slice src/option.h fn validate nth=0 key=validate_base_unsigned
//@slice src/option.h fn validate nth=1 key=validate_bounded_unsigned
extern "C" {
//@slice src/option.cpp fn read_number key=read_number_signed
//@slice src/option.cpp fn read_number key=read_number_unsigned
#ifdef VERSION_PART
//@slice src/option.cpp fn read_version_part ifdef=VERSION_PART
#endif
}
extern "C" {
//@slice src/option.cpp fn read_enum key=read_enum_iarf
}
//@slice src/option.cpp fn Option<bool>::read key=bool_read
extern "C" {
bool w_validate_signed(Option_signed *o, long v) { return(o->validate(v)); }
bool w_validate_unsigned(Option_unsigned *o, long v) { return(o->validate(v)); }
bool w_bool_read(Option_bool *o, const char *in) { return(o->read(in)); }
}
#include "offsets_cpp.h"
#define CANARY(msg) __CPROVER_assert(0, "VACUITY_CANARY " msg)
extern "C" {
extern const unsigned OT_BOOL_V = (unsigned)option_type_e::BOOL, OT_NUM_V = (unsigned)option_type_e::NUM, OT_UNUM_V = (unsigned)option_type_e::UNUM, OT_IARF_V = (unsigned)option_type_e::IARF;
extern size_t g_warn_n; extern bool g_is_ref;
long nondet_long();
void h_validate_signed() { Option_signed *o; bool r = w_validate_signed(o, nondet_long()); if (r) { CANARY("validate accepts"); } else { CANARY("validate rejects"); } }
void h_validate_unsigned() { Option_unsigned *o; bool r = w_validate_unsigned(o, nondet_long()); if (r) { CANARY("validate accepts"); } else { CANARY("validate rejects"); } }
void h_read_number_signed() { const char *in; Option_signed *o; bool r = read_number_signed(in, *o); if (r && !g_is_ref) { CANARY("read_number: numeral accepted"); } if (r && g_is_ref) { CANARY("read_number: reference accepted"); } if (!r) { CANARY("read_number: rejected"); } }
void h_read_number_unsigned() { const char *in; Option_unsigned *o; bool r = read_number_unsigned(in, *o); if (r && !g_is_ref) { CANARY("read_number: numeral accepted"); } if (r && g_is_ref) { CANARY("read_number: reference accepted"); } if (!r) { CANARY("read_number: rejected"); } }
#ifdef VERSION_PART
void h_read_version_part() { const char *in; int *out; bool r = read_version_part(in, *out); if (r) { CANARY("version part accepted"); } else { CANARY("version part rejected"); } }
#endif
void h_read_enum_iarf() { const char *in; Option_iarf *o; bool r = read_enum_iarf(in, *o); if (r && !g_is_ref) { CANARY("read_enum: literal accepted"); } if (r && g_is_ref) { CANARY("read_enum: reference accepted"); } if (!r) { CANARY("read_enum: rejected"); } }
void h_bool_read() { const char *in; Option_bool *o; bool r = w_bool_read(o, in); if (r) { CANARY("bool read accepted"); } else { CANARY("bool read rejected"); } }
}
