"""C16 Bad configuration lines are diagnosed and have no other effect -- kernel (cross-option consistency; validators WIP)."""
import os
import sys
here = os.path.dirname(os.path.abspath(__file__))
import importlib.util
spec = importlib.util.spec_from_file_location('c20proofs', os.path.join(here, '..', 'C20', 'proofs.py'))
c20 = importlib.util.module_from_spec(spec)
spec.loader.exec_module(c20)
NEED_OPTIONS = True
PROOFS = [p for p in c20.all_proofs() if p.name == 'too_big_for_nl_max']
EXPLANATION = ('Kernel of C16 (cross-option consistency half): too_big_for_nl_max() returns normally only if every blank-line count option of the registry is <= nl_max, '
               'prints nothing in that case, and otherwise names an option and exits with EX_CONFIG.')
K = ['K4 too_big_for_nl_max']
G = ['BoundedOption::validate, read_number, read_enum (class templates with friends, std::string): contracts designed in DESIGN.md, not yet enforced',
     'process_option_line / load_option_file (unknown option => diagnostic, no effect), include cycles, over-long lines: NOT covered',
     'main() calls too_big_for_nl_max() iff nl_max > 0 before any source is read']

sys.path.insert(0, os.path.join(os.path.dirname(os.path.abspath(__file__)), '..', '..', 'tools'))
import replay_lib  # noqa: E402
REPLAY = replay_lib.make_replay(replay_lib.scenario_too_big)
