"""C16 Bad configuration lines are diagnosed and have no other effect -- kernel (cross-option consistency; validators WIP)."""
import os
import sys
here = os.path.dirname(os.path.abspath(__file__))
import importlib.util
spec = importlib.util.spec_from_file_location('c20proofs', os.path.join(here, '..', 'C20', 'proofs.py'))
c20 = importlib.util.module_from_spec(spec)
spec.loader.exec_module(c20)
NEED_OPTIONS = True
sys.path.insert(0, here)
import opt_proofs  # noqa: E402
PROOFS = [p for p in c20.all_proofs() if p.name == 'too_big_for_nl_max'] + opt_proofs.all_proofs()
EXPLANATION = ('Kernel of C16. Value readers: BoundedOption::validate accepts exactly [min, max] and emits one diagnostic otherwise; read_number<signed/unsigned> and '
               'Option<bool>::read either reject the text (at least one diagnostic, the option exactly as before) or accept it (no diagnostic; the value stored is the '
               'number written - no truncation -, or plus/minus the value of the referenced numeric option, and lies inside the documented range); every pointer handed '
               'to the registry lookup and to the diagnostic stays inside the value text (memory safety for every text, including the empty one). The line dispatcher process_option_line: a diagnosed line has no other effect, for any command word and any number of arguments. Cross-option '
               'consistency: too_big_for_nl_max() returns normally only if every blank-line count option of the registry is <= nl_max and otherwise exits with EX_CONFIG.')
K = ['K5 process_option_line (whole dispatcher, any number of arguments): too few arguments / unknown option / unknown token / unknown language / empty include path / malformed version => one diagnostic and no other effect; type, set, macro-*, file_ext register every argument once, in order, with the right token; a known option is handed with its value to that option\'s reader exactly once; no out-of-range argument access, no uncaught conversion exception, no overflow in option_level(); read_version_part accepts exactly the numerals 0..1023',
     'K1 BoundedOption::validate / Option::validate', 'K2 read_number<signed>, read_number<unsigned>: assign only on success, value == text, in range, diagnostics', 'K3 Option<bool>::read', 'K4 too_big_for_nl_max']
G = ['the class templates Option<T> / BoundedOption<T,min,max> are represented by the shells of env/option_stub.h (min/max as arbitrary data members lo <= hi, virtual dispatch as a two-way branch); only the sliced function bodies are real',
     'libc strtol is a trusted model (value + end of the numeral prefix, ERANGE clipping); find_option returns "no option" or an arbitrary option whose name starts with a letter',
     'read_enum<T> (iarf / line_end / token_pos values): convert_string tables are proved under C15; the reference branch is not under contract',
     'std::string / std::vector<std::string> / the registry map in process_option_line are ghost shells (a string = which command word it equals + emptiness + identity); split_args, to_lower, the process_option_line_compat_0_* renaming tables and add_keyword / extension_add / load_option_file are arbitrary recorders',
     'load_option_file (line reading, include cycles, over-long lines), split_args (quoting): NOT covered',
     'main() calls too_big_for_nl_max() iff nl_max > 0 before any source is read']

sys.path.insert(0, os.path.join(os.path.dirname(os.path.abspath(__file__)), '..', '..', 'tools'))
import replay_lib  # noqa: E402
REPLAY = replay_lib.make_replay(replay_lib.scenario_bad_numbers, replay_lib.scenario_bad_using, replay_lib.scenario_too_big)
