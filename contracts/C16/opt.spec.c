/* Contracts for the value readers of the option registry (C16), from the statement of C16: "every line ... carrying a
 * value of the wrong type, or a number outside the option's documented range produces a diagnostic ... and leaves that
 * option exactly as if the line were absent" -- and, for an accepted line, the value stored is the value written. */
#include "common.h"
extern const unsigned OT_BOOL_V, OT_NUM_V, OT_UNUM_V;
extern int errno;
#define INT_MIN_L (-2147483648L)
#define INT_MAX_L 2147483647L
#define UINT_MAX_L 4294967295L
#define LONG_MAX_L 9223372036854775807L
#define LONG_MIN_L (-LONG_MAX_L - 1L)
size_t g_warn_n;                 /* ghost: diagnostics emitted */
/* the text of the value: a NUL terminated string of length g_len */
size_t g_len;
/* strtol: the numeral prefix has length g_numlen (0: no digits) and mathematical value g_val clipped to long (ERANGE) */
size_t g_numlen; long g_val; _Bool g_erange;
/* the option registry as seen through find_option(): the name either is not an option, or is the option g_ref */
struct GenericOption *g_ref; _Bool g_found; _Bool g_is_ref;
#define STR_OK(p) (__CPROVER_is_fresh((p), g_len + 1) && g_len <= 24 && (p)[g_len] == 0)
#define IN_STRING(p) (__CPROVER_same_object((p), g_in) && __CPROVER_POINTER_OFFSET(p) <= g_len)
const char *g_in;

/* strtol: see the trusted body model in opt.impl.cpp */
/* find_option(name): name must be a readable NUL terminated string, i.e. point INTO the value text */
struct GenericOption *find_option_contract(const char *name)
__CPROVER_requires(IN_STRING(name))
__CPROVER_assigns(g_is_ref)
/* registry fact (ASSUMED): every option name starts with a letter, so a text that starts with a digit, '-' or NUL names no option */
#define NAME_START(ch) (((ch) >= 'a' && (ch) <= 'z') || ((ch) >= 'A' && (ch) <= 'Z') || (ch) == '_')
__CPROVER_ensures(__CPROVER_return_value == ((g_found && NAME_START(name[0])) ? g_ref : (struct GenericOption*)0) && g_is_ref == (g_found && NAME_START(name[0])))
;
void c_warn_contract(const struct GenericOption *opt)
__CPROVER_assigns(g_warn_n)
__CPROVER_ensures(g_warn_n == __CPROVER_old(g_warn_n) + 1)
;
/* the diagnostic prints the offending text with %s: it must be a readable string inside the value */
void c_warn_value_contract(const struct GenericOption *opt, const char *actual)
__CPROVER_requires(IN_STRING(actual))
__CPROVER_assigns(g_warn_n)
__CPROVER_ensures(g_warn_n == __CPROVER_old(g_warn_n) + 1)
;
_Bool c_convert_string_bool_contract(const char *in, _Bool *out)
__CPROVER_requires(IN_STRING(in))
__CPROVER_assigns(*out)
__CPROVER_ensures(!__CPROVER_return_value ==> *out == __CPROVER_old(*out))
;

/* ---- K1 validate: true <=> lo <= val <= hi (always true for an unbounded option); exactly one diagnostic on false ---- */
#define S_WF(o) (__CPROVER_is_fresh((o), SIZEOF_Option_signed) && (Option_signed_m_bounded(o) ==> Option_signed_m_lo(o) <= Option_signed_m_hi(o)))
#define U_WF(o) (__CPROVER_is_fresh((o), SIZEOF_Option_unsigned) && (Option_unsigned_m_bounded(o) ==> Option_unsigned_m_lo(o) <= Option_unsigned_m_hi(o)))
/* callers hand over values that are representable in the option's value type (read_number checks that first; proved there) */
_Bool validate_signed_contract(struct Option_signed *o, long v)
__CPROVER_requires(S_WF(o) && INT_MIN_L <= v && v <= INT_MAX_L)
__CPROVER_assigns(g_warn_n)
__CPROVER_ensures(__CPROVER_return_value == (!Option_signed_m_bounded(o) || ((long)Option_signed_m_lo(o) <= v && v <= (long)Option_signed_m_hi(o))))
__CPROVER_ensures(g_warn_n == __CPROVER_old(g_warn_n) + (__CPROVER_return_value ? 0 : 1))
;
/* registry fact (ASSUMED): every documented bound of an unsigned option fits in int (the largest in options.h is 10000) */
_Bool validate_unsigned_contract(struct Option_unsigned *o, long v)
__CPROVER_requires(U_WF(o) && 0 <= v && v <= UINT_MAX_L && (Option_unsigned_m_bounded(o) ==> (long)Option_unsigned_m_hi(o) <= INT_MAX_L))
__CPROVER_assigns(g_warn_n)
__CPROVER_ensures(__CPROVER_return_value == (!Option_unsigned_m_bounded(o) || ((long)Option_unsigned_m_lo(o) <= v && v <= (long)Option_unsigned_m_hi(o))))
__CPROVER_ensures(g_warn_n == __CPROVER_old(g_warn_n) + (__CPROVER_return_value ? 0 : 1))
;

/* ---- K2 read_number ---- */
#define REF_TYPE GenericOption_m_type(g_ref)
#define REF_OK  (__CPROVER_is_fresh(g_ref, SIZEOF_Option_signed > SIZEOF_Option_unsigned ? SIZEOF_Option_signed : SIZEOF_Option_unsigned) && REF_TYPE <= 6)
#define REF_VAL (REF_TYPE == OT_NUM_V ? (long)Option_signed_m_val(g_ref) : (long)Option_unsigned_m_val(g_ref))
#define NUMERAL (in[g_numlen] == 0)       /* the whole text is one decimal numeral: it ends where the numeral ends */
/* C standard 7.22.1.4: the subject sequence is optional white space, an optional sign and digits; on overflow the result is clipped and errno = ERANGE */
#define NUM_CHAR(ch) (((ch) >= '0' && (ch) <= '9') || (ch) == '-' || (ch) == '+' || (ch) == ' ' || ((ch) >= 9 && (ch) <= 13))
#define STRTOL_MODEL (g_numlen <= g_len && (g_erange ==> (g_val == LONG_MAX_L || g_val == LONG_MIN_L)) && \
   (0 < g_numlen ==> NUM_CHAR(in[0])) && (1 < g_numlen ==> NUM_CHAR(in[1])) && (2 < g_numlen ==> NUM_CHAR(in[2])) && (3 < g_numlen ==> NUM_CHAR(in[3])) && (4 < g_numlen ==> NUM_CHAR(in[4])) && (5 < g_numlen ==> NUM_CHAR(in[5])) && (6 < g_numlen ==> NUM_CHAR(in[6])) && (7 < g_numlen ==> NUM_CHAR(in[7])) && (8 < g_numlen ==> NUM_CHAR(in[8])) && (9 < g_numlen ==> NUM_CHAR(in[9])) && (10 < g_numlen ==> NUM_CHAR(in[10])) && (11 < g_numlen ==> NUM_CHAR(in[11])) && (12 < g_numlen ==> NUM_CHAR(in[12])) && (13 < g_numlen ==> NUM_CHAR(in[13])) && (14 < g_numlen ==> NUM_CHAR(in[14])) && (15 < g_numlen ==> NUM_CHAR(in[15])) && (16 < g_numlen ==> NUM_CHAR(in[16])) && (17 < g_numlen ==> NUM_CHAR(in[17])) && (18 < g_numlen ==> NUM_CHAR(in[18])) && (19 < g_numlen ==> NUM_CHAR(in[19])) && (20 < g_numlen ==> NUM_CHAR(in[20])) && (21 < g_numlen ==> NUM_CHAR(in[21])) && (22 < g_numlen ==> NUM_CHAR(in[22])) && (23 < g_numlen ==> NUM_CHAR(in[23])))
#define NEGATED (in[0] == '-')
_Bool read_number_signed_contract(const char *in, struct Option_signed *out)
__CPROVER_requires(STR_OK(in) && g_in == in && STRTOL_MODEL && S_WF(out) && REF_OK && g_warn_n < 1000 && !g_is_ref)
__CPROVER_assigns(Option_signed_m_val(out), g_warn_n, g_is_ref, errno)
/* rejected => a diagnostic, and the option is exactly as before */
__CPROVER_ensures(!__CPROVER_return_value ==> (Option_signed_m_val(out) == __CPROVER_old(Option_signed_m_val(out)) && g_warn_n > __CPROVER_old(g_warn_n)))
/* accepted => no diagnostic, inside the documented range, and the value stored is the value written (no truncation) */
__CPROVER_ensures(__CPROVER_return_value ==> g_warn_n == __CPROVER_old(g_warn_n))
__CPROVER_ensures((__CPROVER_return_value && Option_signed_m_bounded(out)) ==> (Option_signed_m_lo(out) <= Option_signed_m_val(out) && Option_signed_m_val(out) <= Option_signed_m_hi(out)))
__CPROVER_ensures((__CPROVER_return_value && !g_is_ref) ==> NUMERAL)
__CPROVER_ensures((__CPROVER_return_value && !g_is_ref) ==> !g_erange)
__CPROVER_ensures((__CPROVER_return_value && !g_is_ref) ==> (long)Option_signed_m_val(out) == g_val)
__CPROVER_ensures((__CPROVER_return_value && g_is_ref) ==> ((REF_TYPE == OT_NUM_V || REF_TYPE == OT_UNUM_V) && (long)Option_signed_m_val(out) == (NEGATED ? -REF_VAL : REF_VAL)))
/* a numeral outside the range of the option's type is never accepted */
__CPROVER_ensures((NUMERAL && (g_val < INT_MIN_L || g_val > INT_MAX_L)) ==> !__CPROVER_return_value)
;
_Bool read_number_unsigned_contract(const char *in, struct Option_unsigned *out)
__CPROVER_requires(STR_OK(in) && g_in == in && STRTOL_MODEL && U_WF(out) && REF_OK && g_warn_n < 1000 && !g_is_ref)
__CPROVER_assigns(Option_unsigned_m_val(out), g_warn_n, g_is_ref, errno)
__CPROVER_ensures(!__CPROVER_return_value ==> (Option_unsigned_m_val(out) == __CPROVER_old(Option_unsigned_m_val(out)) && g_warn_n > __CPROVER_old(g_warn_n)))
__CPROVER_ensures(__CPROVER_return_value ==> g_warn_n == __CPROVER_old(g_warn_n))
__CPROVER_ensures((__CPROVER_return_value && Option_unsigned_m_bounded(out)) ==> (Option_unsigned_m_lo(out) <= Option_unsigned_m_val(out) && Option_unsigned_m_val(out) <= Option_unsigned_m_hi(out)))
__CPROVER_ensures((__CPROVER_return_value && !g_is_ref) ==> NUMERAL)
__CPROVER_ensures((__CPROVER_return_value && !g_is_ref) ==> !g_erange)
__CPROVER_ensures((__CPROVER_return_value && !g_is_ref) ==> (long)Option_unsigned_m_val(out) == g_val)
__CPROVER_ensures((__CPROVER_return_value && g_is_ref) ==> ((REF_TYPE == OT_NUM_V || REF_TYPE == OT_UNUM_V) && (long)Option_unsigned_m_val(out) == (NEGATED ? -REF_VAL : REF_VAL)))
__CPROVER_ensures((NUMERAL && (g_val < 0 || g_val > UINT_MAX_L)) ==> !__CPROVER_return_value)
;
/* ---- K5 read_version_part (a part of the version of a 'using' line): accepted exactly when the whole text is one numeral in [0, 1023] ---- */
_Bool read_version_part_contract(const char *in, int *out)
__CPROVER_requires(STR_OK(in) && g_in == in && STRTOL_MODEL && __CPROVER_is_fresh(out, sizeof(int)))
__CPROVER_assigns(*out, errno)
__CPROVER_ensures(__CPROVER_return_value == (g_numlen > 0 && NUMERAL && 0 <= g_val && g_val <= 1023))
__CPROVER_ensures(__CPROVER_return_value ==> (long)*out == g_val)
__CPROVER_ensures(!__CPROVER_return_value ==> *out == __CPROVER_old(*out))
;
/* ---- K6 read_enum<iarf_e> (the same template serves line_end_e and token_pos_e): a literal, or a reference to an option OF THE SAME TYPE ---- */
extern const unsigned OT_IARF_V;
_Bool g_lit_ok; unsigned g_lit_val;       /* convert_string(value text): is it a literal of the enumeration, and which */
const char *g_ref_text;                   /* the canonical text of the referenced option's value (another string object) */
const char *c_option_text_contract(const struct GenericOption *o)
__CPROVER_assigns()
__CPROVER_ensures(__CPROVER_return_value == g_ref_text)
;
_Bool c_convert_string_iarf_contract(const char *in, unsigned *out)
__CPROVER_requires(IN_STRING(in) || in == g_ref_text)
__CPROVER_assigns(*out)
__CPROVER_ensures(!__CPROVER_return_value ==> *out == __CPROVER_old(*out))
__CPROVER_ensures(__CPROVER_same_object(in, g_in) ==> (__CPROVER_return_value == g_lit_ok && (g_lit_ok ==> *out == g_lit_val)))
;
_Bool read_enum_iarf_contract(const char *in, struct Option_iarf *out)
__CPROVER_requires(STR_OK(in) && g_in == in && __CPROVER_is_fresh(out, SIZEOF_Option_iarf) && GenericOption_m_type(out) == OT_IARF_V)
__CPROVER_requires(__CPROVER_is_fresh(g_ref, SIZEOF_Option_iarf) && REF_TYPE <= 6 && __CPROVER_is_fresh(g_ref_text, 8) && g_warn_n < 1000 && !g_is_ref)
__CPROVER_assigns(Option_iarf_m_val(out), g_warn_n, g_is_ref)
/* rejected => a diagnostic, and the option is exactly as before */
__CPROVER_ensures(!__CPROVER_return_value ==> (Option_iarf_m_val(out) == __CPROVER_old(Option_iarf_m_val(out)) && g_warn_n > __CPROVER_old(g_warn_n)))
__CPROVER_ensures(__CPROVER_return_value ==> g_warn_n == __CPROVER_old(g_warn_n))
/* a literal of the enumeration is stored as written */
__CPROVER_ensures(g_lit_ok ==> (__CPROVER_return_value && Option_iarf_m_val(out) == g_lit_val))
/* otherwise the text must name an option of the same type, whose value is taken over; "a value of the wrong type produces a diagnostic" */
__CPROVER_ensures((!g_lit_ok && __CPROVER_return_value) ==> (g_is_ref && REF_TYPE == OT_IARF_V && Option_iarf_m_val(out) == Option_iarf_m_val(g_ref)))
__CPROVER_ensures((!g_lit_ok && g_is_ref && REF_TYPE == OT_IARF_V) ==> __CPROVER_return_value)
;
/* ---- K3 Option<bool>::read ---- */
_Bool bool_read_contract(struct Option_bool *o, const char *in)
__CPROVER_requires(STR_OK(in) && g_in == in && __CPROVER_is_fresh(o, SIZEOF_Option_bool) && __CPROVER_is_fresh(g_ref, SIZEOF_Option_bool) && REF_TYPE <= 6 && g_warn_n < 1000 && !g_is_ref)
__CPROVER_assigns(Option_bool_m_val(o), g_warn_n, g_is_ref)
__CPROVER_ensures(!__CPROVER_return_value ==> (!Option_bool_m_val(o) == !__CPROVER_old(Option_bool_m_val(o)) && g_warn_n > __CPROVER_old(g_warn_n)))
__CPROVER_ensures(__CPROVER_return_value ==> g_warn_n == __CPROVER_old(g_warn_n))
__CPROVER_ensures((__CPROVER_return_value && g_is_ref) ==> (REF_TYPE == OT_BOOL_V && !Option_bool_m_val(o) == ((in[0] == '~' || in[0] == '!' || in[0] == '-') ? !!Option_bool_m_val(g_ref) : !Option_bool_m_val(g_ref))))
;
