/* Contract of process_option_line() (src/option.cpp), from the statements of
 *  C16: "Any text given as a configuration file is processed without crash ...; every line naming an unknown option, carrying a value of
 *        the wrong type ... produces a diagnostic ... and leaves that option (and every other option) exactly as if the line were absent"
 *  C15: "'name=value', 'name value' ..., custom types, 'set' keywords, macro-open/else/close words and file_ext mappings" are all loaded.
 * One configuration line = (command word, number of arguments, facts about the arguments), all arbitrary (pol.impl.cpp). */
#include "common.h"
#include "pol_lits.h"
extern unsigned g_diag, g_kw, g_kw_wrong_token, g_kw_misplaced, g_kw_first, g_ext, g_ext_misplaced, g_incl, g_incl_wrong_path, g_read, g_read_wrong, g_compat_handled, g_parts_seen;
extern unsigned g_cmd_lit; extern _Bool g_lang_known, g_token_known, g_found, g_path_relative, g_arg1_empty;
extern _Bool g_part_ok[3]; extern int g_part_val[3];
extern size_t g_nargs, g_nvargs; extern unsigned g_expected_token, g_token;
extern unsigned *const CPD_LINE_NUMBER;
extern const unsigned CT_NONE_V, CT_TYPE_V, CT_MACRO_OPEN_V, CT_MACRO_CLOSE_V, CT_MACRO_ELSE_V;

struct vstring; struct map_entry;
extern struct vstring *g_args_data, *g_vargs_data; extern struct map_entry g_the_entry;     /* ghost bookkeeping of the environment stubs */

#define CMD(x) (g_cmd_lit == LIT_ ## x)
#define KNOWN_CMD (g_cmd_lit == LIT_none || (g_cmd_lit >= LIT_set && g_cmd_lit <= LIT_using))
/* too few arguments for the command */
#define SHORT ((CMD(set) || CMD(file_ext)) ? g_nargs < 3 : g_nargs < 2)
#define EXPECTED_TOKEN (CMD(type) ? CT_TYPE_V : CMD(macro_open) ? CT_MACRO_OPEN_V : CMD(macro_close) ? CT_MACRO_CLOSE_V : CMD(macro_else) ? CT_MACRO_ELSE_V : g_token)
#define GHOST_ZERO (g_diag == 0 && g_kw == 0 && g_kw_wrong_token == 0 && g_kw_misplaced == 0 && g_ext == 0 && g_ext_misplaced == 0 && g_incl == 0 && g_incl_wrong_path == 0 \
                    && g_read == 0 && g_read_wrong == 0 && g_compat_handled == 0 && g_parts_seen == 0)
/* "no other effect": nothing registered, nothing read into an option, nothing included, compatibility level untouched */
#define NO_EFFECT(cl) (g_kw == 0 && g_ext == 0 && g_incl == 0 && g_read == 0 && *(cl) == __CPROVER_old(*(cl)))
#define NVARGS_OK (g_nvargs == 2 || g_nvargs == 3)
#define PARTS_OK (g_part_ok[0] && g_part_ok[1] && (g_nvargs == 2 || g_part_ok[2]))
#define PART_RANGE(k) (g_part_ok[k] ==> (0 <= g_part_val[k] && g_part_val[k] <= 1023))
#define LEVEL(a, b, c) (((a) << 20) | ((b) << 10) | (c))

void process_option_line_contract(const struct vstring *config_line, const char *filename, int *compat_level)
__CPROVER_requires(__CPROVER_is_fresh(compat_level, sizeof(int)) && GHOST_ZERO && KNOWN_CMD)
__CPROVER_requires(g_expected_token == EXPECTED_TOKEN && g_kw_first == (CMD(set) ? 2 : 1) && (g_token_known ==> g_token != CT_NONE_V))
__CPROVER_requires(PART_RANGE(0) && PART_RANGE(1) && PART_RANGE(2))
__CPROVER_requires(g_nargs <= 1000000 && g_nvargs <= 1000000)     /* keeps the ghost counters from wrapping; a line has fewer arguments than bytes */
__CPROVER_assigns(g_diag, g_kw, g_kw_wrong_token, g_kw_misplaced, g_ext, g_ext_misplaced, g_incl, g_incl_wrong_path, g_read, g_read_wrong, g_compat_handled, g_parts_seen, *compat_level,
                  __CPROVER_object_whole(&cpd), g_args_data, g_vargs_data, __CPROVER_object_whole(&g_the_entry))
/* an empty line (or a comment) does nothing and says nothing */
__CPROVER_ensures(g_nargs == 0 ==> (g_diag == 0 && NO_EFFECT(compat_level)))
/* a command with too few arguments: one diagnostic, no other effect */
__CPROVER_ensures((g_nargs > 0 && SHORT) ==> (g_diag == 1 && NO_EFFECT(compat_level)))
/* C16: a diagnosed line has no other effect (the option reader's own diagnostics are covered by its contracts, K2/K3) */
__CPROVER_ensures(g_diag > 0 ==> NO_EFFECT(compat_level))
/* type / macro-*: every argument (exactly one for macro-*) is registered once, in order, with the token the command names */
__CPROVER_ensures((!SHORT && CMD(type)) ==> (g_kw == g_nargs - 1 && g_diag == 0))
__CPROVER_ensures((!SHORT && (CMD(macro_open) || CMD(macro_close) || CMD(macro_else))) ==> (g_kw == 1 && g_diag == 0))
__CPROVER_ensures((!SHORT && CMD(set)) ==> (g_token_known ? (g_kw == g_nargs - 2 && g_diag == 0) : (g_diag == 1)))
__CPROVER_ensures(g_kw_wrong_token == 0 && g_kw_misplaced == 0)
__CPROVER_ensures(!(CMD(type) || CMD(set) || CMD(macro_open) || CMD(macro_close) || CMD(macro_else)) ==> g_kw == 0)
/* file_ext: every extension mapped to the language named first, or one diagnostic for an unknown language */
__CPROVER_ensures((!SHORT && CMD(file_ext)) ==> (g_lang_known ? (g_ext == g_nargs - 2 && g_diag == 0) : (g_ext == 0 && g_diag == 1)))
__CPROVER_ensures(g_ext_misplaced == 0 && (!CMD(file_ext) ==> g_ext == 0))
/* include: the named file is loaded once, or an empty path is diagnosed */
__CPROVER_ensures((!SHORT && CMD(include)) ==> (g_arg1_empty ? (g_diag == 1 && g_incl == 0) : (g_diag == 0 && g_incl == 1)))
__CPROVER_ensures(g_incl_wrong_path == 0 && (!CMD(include) ==> g_incl == 0))
/* using: MAJOR.MINOR[.PATCH] sets the compatibility level; anything else (a wrong number of parts, a part that is not a number) is diagnosed */
__CPROVER_ensures((!SHORT && CMD(using) && NVARGS_OK && PARTS_OK) ==> (g_diag == 0 && *compat_level == LEVEL(g_part_val[0], g_part_val[1], g_nvargs == 3 ? g_part_val[2] : 0)))
__CPROVER_ensures((!SHORT && CMD(using) && !(NVARGS_OK && PARTS_OK)) ==> (g_diag >= 1 && *compat_level == __CPROVER_old(*compat_level)))
__CPROVER_ensures(!CMD(using) ==> *compat_level == __CPROVER_old(*compat_level))
/* C16 "a diagnostic ... that names the file, line": the line counter of this file survives an include (the included file counts its own lines in the same variable) */
__CPROVER_ensures(*CPD_LINE_NUMBER == __CPROVER_old(*CPD_LINE_NUMBER))
/* name value: an unknown name is diagnosed; a known one is handed, with its value, to that option's reader exactly once */
__CPROVER_ensures((!SHORT && CMD(none) && g_compat_handled == 0) ==> (g_found ? (g_read == 1 && g_diag == 0) : (g_read == 0 && g_diag == 1)))
__CPROVER_ensures(g_read_wrong == 0 && g_read <= 1 && g_compat_handled <= 1 && (g_compat_handled == 1 ==> (g_read == 0 && g_diag == 0)) && (!CMD(none) ==> (g_read == 0 && g_compat_handled == 0)))
;
void process_option_line(const struct vstring *config_line, const char *filename, int *compat_level);
int nondet_int(void);
void h_process_option_line(void)
{
   const struct vstring *line; const char *fn; int cl = nondet_int();
   process_option_line(line, fn, &cl);
   if (g_diag == 0 && g_kw > 1) { __CPROVER_assert(0, "VACUITY_CANARY several keywords registered"); }
   if (g_diag == 1 && CMD(using)) { __CPROVER_assert(0, "VACUITY_CANARY using: diagnosed"); }
   if (g_diag == 0 && CMD(using) && g_nvargs == 3) { __CPROVER_assert(0, "VACUITY_CANARY using: three parts accepted"); }
   if (g_read == 1) { __CPROVER_assert(0, "VACUITY_CANARY option read"); }
   if (g_ext > 1) { __CPROVER_assert(0, "VACUITY_CANARY several extensions"); }
   if (g_incl == 1) { __CPROVER_assert(0, "VACUITY_CANARY include"); }
   if (g_diag == 1 && CMD(none)) { __CPROVER_assert(0, "VACUITY_CANARY unknown option"); }
}
