// Translation unit for the configuration-line dispatcher (C16-K5, C15-K2): process_option_line() (src/option.cpp), whole function,
// sliced verbatim.  std::string / std::vector<std::string> / the option registry are ghost shells: a string carries the facts the
// dispatcher can observe about its text (which command word it equals, whether it is empty, whether std::stoi accepts it) and
// nothing else; a vector is (elements, size) with the preconditions of the real container as assertions (env/containers.h).
// Everything the dispatcher calls is a ghost recorder (what was called, how often, with which argument).
#include "token_enum.h"      /* from the working tree: -I <repo>/src */
#define VERIF_E_TOKEN
#include "base.h"
#include "containers.h"
#include "pol_lits.h"
#define UNUSED(x) (void)(x)
#define LOG_FMT(...) ((void)0)
extern "C" {
// ghost state (see pol.spec.c)
unsigned g_diag, g_kw, g_kw_wrong_token, g_kw_misplaced, g_kw_first, g_ext, g_ext_misplaced, g_incl, g_incl_wrong_path, g_read, g_read_wrong, g_compat_handled, g_parts_seen;
unsigned g_cmd_lit; bool g_lang_known, g_token_known, g_found, g_path_relative, g_arg1_empty;
bool g_part_ok[3]; int g_part_val[3];
size_t g_nargs, g_nvargs; unsigned g_expected_token, g_token;
struct cp_data_t { unsigned line_number; } cpd;
}
struct vstring;
namespace std { typedef ::vstring string; }
extern "C" {
std::string *g_args_data;       // the elements of the argument vector of this line
std::string *g_vargs_data;      // the elements of the version vector of a 'using' line
}
static bool lit_eq(const char *a, const char *b)            // comparison of two literals, without a loop
{
#define LIT_CH(k) if (a[k] != b[k]) { return(false); } if (a[k] == 0) { return(true); }
   LIT_CH(0) LIT_CH(1) LIT_CH(2) LIT_CH(3) LIT_CH(4) LIT_CH(5) LIT_CH(6) LIT_CH(7) LIT_CH(8) LIT_CH(9) LIT_CH(10) LIT_CH(11) LIT_CH(12) LIT_CH(13) LIT_CH(14) LIT_CH(15)
   VASSERT(false, "model: a command-word literal longer than 15 characters");
   return(false);
}
static unsigned lit_code(const char *b)
{
   return(lit_eq(b, "set") ? LIT_set : lit_eq(b, "file_ext") ? LIT_file_ext : lit_eq(b, "type") ? LIT_type : lit_eq(b, "macro-open") ? LIT_macro_open
          : lit_eq(b, "macro-close") ? LIT_macro_close : lit_eq(b, "macro-else") ? LIT_macro_else : lit_eq(b, "include") ? LIT_include : lit_eq(b, "using") ? LIT_using : LIT_other_literal);
}
struct vstring          // std::string (the tag can be spelled in the C contract file)
{
   unsigned lit;       // the command word this text equals (LIT_none: none of the words the dispatcher compares with)
   bool     is_empty;  // the text is empty
   char     tag;       // c_str() = the address of this byte: one distinct pointer per string object
   vstring() { }
   vstring(const char *s) { lit = nondet_uint(); is_empty = nondet_bool(); }
   const char *c_str() const { return(&tag); }
   bool empty() const { return(is_empty); }
   bool operator==(const char *b) const { return(lit == lit_code(b)); }
};
namespace std {
// std::stoi: the k-th version part of this line; throws std::invalid_argument / std::out_of_range unless the text starts with a numeral that fits an int
static inline int stoi(const string &s)
{
   size_t k = &s - g_vargs_data;         // which part of the version
   g_parts_seen++;
   VASSERT(k < 3, "at most three version parts are converted");
   VASSERT(g_part_ok[k], "std::stoi precondition: the text starts with a numeral that fits an int (an exception nobody catches ends the process otherwise)");
   return(g_part_val[k]);
}
}
// the checked conversion of a version part (src/option.cpp read_version_part, contract proved in the proof of that name): false, or a number in [0, 1023]
static bool read_version_part(const char *in, int &out)
{
   size_t k = (const std::string *)(in - ((const char *)&g_vargs_data->tag - (const char *)g_vargs_data)) - g_vargs_data;         // which part of the version
   g_parts_seen++;
   VASSERT(k < 3, "at most three version parts are converted");
   if (!g_part_ok[k]) { return(false); }
   out = g_part_val[k];
   return(true);
}
typedef seq_t<std::string> vec_string;
// split_args(): any number of arguments, each any text
typedef bool (*sep_fn_t)(int);
static bool is_arg_sep(int ch) { return(nondet_bool()); }
static bool is_varg_sep(int ch) { return(nondet_bool()); }
static vec_string split_args(const std::string &line, const char *filename, sep_fn_t sep)
{
   vec_string r;
   size_t     n = (sep == is_arg_sep) ? g_nargs : g_nvargs;
   r.m_size = n; r.m_cap = n;
   r.m_data = (std::string *)malloc(n * sizeof(std::string));
   __CPROVER_assume(r.m_data != 0);
   if (sep == is_varg_sep) { g_vargs_data = r.m_data; }
   if (sep == is_arg_sep) { g_args_data = r.m_data; if (n > 1) { r.m_data[1].is_empty = g_arg1_empty; } }
   return(r);
}
static std::string to_lower(const std::string &s) { std::string r; r.lit = g_cmd_lit; r.is_empty = s.is_empty; r.tag = 0; return(r); }
// diagnostics
class OptionWarning
{
public:
   OptionWarning(const char *filename) { }
   void operator()(const char *fmt) { g_diag++; }
   void operator()(const char *fmt, const char *a) { g_diag++; }
   void operator()(const char *fmt, const char *a, const char *b) { g_diag++; }
};
// effects
// the k-th keyword added by this line must be argument g_kw_first + k, with the token the command names
static void add_keyword(const std::string &tag, E_Token type)
{
   if (&tag != &g_args_data[g_kw_first + g_kw]) { g_kw_misplaced++; }
   if ((unsigned)type != g_expected_token) { g_kw_wrong_token++; }
   g_kw++;
}
static E_Token find_token_name(const char *text) { if (text != g_args_data[1].c_str()) { g_kw_misplaced++; } return(g_token_known ? (E_Token)g_token : CT_NONE); }
// extension_add (src/language_names.cpp): fails exactly when the language name is unknown (ASSUMED)
static const char *extension_add(const char *ext, const char *lang)
{
   if (lang != g_args_data[1].c_str() || ext != g_args_data[2 + g_ext].c_str()) { g_ext_misplaced++; }
   if (!g_lang_known) { return(0); }
   g_ext++;
   return("LANG");
}
static bool is_path_relative(const std::string &p) { return(g_path_relative); }
static int path_dirname_len(const char *f) { int n = nondet_int(); __CPROVER_assume(n >= 0); return(n); }
class UncText
{
public:
   char tag;
   UncText(const std::string &s) { }
   void resize(unsigned n) { }
   void append(const std::string &s) { if (&s != &g_args_data[1]) { g_incl_wrong_path++; } }
   const char *c_str() const { return(&tag); }
};
// load_option_file counts the lines of the file it reads in cpd.line_number (src/option.cpp): any value afterwards
static bool load_option_file(const char *filename, int compat_level) { g_incl++; cpd.line_number = nondet_uint(); return(nondet_bool()); }
// renamed / removed options of earlier versions: handled (true) or not, any way
#define COMPAT(v) \
   static bool process_option_line_compat_0_ ## v(const std::string &cmd, const char *filename) { bool r = nondet_bool(); if (r) { g_compat_handled++; } return(r); } \
   static bool process_option_line_compat_0_ ## v(const std::string &cmd, const vec_string &args, const char *filename) { bool r = nondet_bool(); if (r) { g_compat_handled++; } return(r); }
COMPAT(68) COMPAT(70) COMPAT(73) COMPAT(74) COMPAT(75) COMPAT(76) COMPAT(78)
// the registry
class GenericOption
{
public:
   char tag;
   bool read(const char *s);
};
static GenericOption g_the_option;
bool GenericOption::read(const char *s) { g_read++; if (s != g_args_data[1].c_str() || this != &g_the_option) { g_read_wrong++; } return(nondet_bool()); }
struct map_entry { GenericOption *second; };
extern "C" { map_entry g_the_entry; }
typedef map_entry *option_map_iter;     // end() = null: dereferencing it is a failed pointer check
struct option_map_t
{
   option_map_iter find(const std::string &k) const { g_the_entry.second = &g_the_option; return(g_found ? &g_the_entry : (map_entry *)0); }
   option_map_iter end() const { return((map_entry *)0); }
} option_map;
//@slice src/option.cpp fn option_level
extern "C" {
//@slice src/option.cpp fn process_option_line
extern unsigned *const CPD_LINE_NUMBER = &cpd.line_number;
extern const unsigned CT_NONE_V = CT_NONE, CT_TYPE_V = CT_TYPE, CT_MACRO_OPEN_V = CT_MACRO_OPEN, CT_MACRO_CLOSE_V = CT_MACRO_CLOSE, CT_MACRO_ELSE_V = CT_MACRO_ELSE;
}
