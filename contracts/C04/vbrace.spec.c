/* insert_vbrace() (src/tokenizer/brace_cleanup.cpp).  C04 "code-modifying options change only the tokens they name" / C03 "comments survive intact":
 * mod_full_brace_*=add makes real braces of the virtual ones, where they stand.  A virtual OPEN brace directly behind a `//` comment would be written into that
 * comment (the comment changes, the brace is lost, the closing brace stays: unbalanced code).  So: the open brace is never inserted directly after a // comment. */
#include "common.h"
extern unsigned g_nav_fuel, g_added_n, g_added_type; extern struct Chunk *g_added_after;
extern struct Chunk *const P0, *const P1, *const P2, *const P3, *const PN; extern const unsigned CT_COMMENT_CPP_V, CT_VBRACE_OPEN_V, CT_VBRACE_CLOSE_V;
struct Chunk *w_insert_vbrace(struct Chunk *pc, _Bool after);
_Bool nondet_bool(void);
void h_insert_vbrace(void)
{
   __CPROVER_havoc_object(P0); __CPROVER_havoc_object(PN);
   Chunk_m_nullChunk(P0) = 0; Chunk_m_nullChunk(P1) = 0; Chunk_m_nullChunk(P2) = 0; Chunk_m_nullChunk(P3) = 0; Chunk_m_nullChunk(PN) = 1;
   __CPROVER_assume(g_nav_fuel <= 7 && Chunk_m_level(P0) < (1UL << 40) && Chunk_m_level(P1) < (1UL << 40) && Chunk_m_level(P2) < (1UL << 40) && Chunk_m_level(P3) < (1UL << 40));
   __CPROVER_assume(Chunk_m_braceLevel(P0) < (1UL << 40) && Chunk_m_braceLevel(P1) < (1UL << 40) && Chunk_m_braceLevel(P2) < (1UL << 40) && Chunk_m_braceLevel(P3) < (1UL << 40));
   __CPROVER_assume(Chunk_m_column(P0) < (1UL << 40) && Chunk_m_column(P1) < (1UL << 40) && Chunk_m_column(P2) < (1UL << 40) && Chunk_m_column(P3) < (1UL << 40));
   g_added_n = 0; g_added_after = 0;
   _Bool after = nondet_bool();
   struct Chunk *r = w_insert_vbrace(P0, after);
   __CPROVER_assert(g_added_n <= 1, "postcondition: insert_vbrace adds at most one chunk");
   __CPROVER_assert((g_added_n == 1 && !after) ==> (g_added_type == CT_VBRACE_OPEN_V && !Chunk_m_nullChunk(g_added_after)), "postcondition: insert_vbrace open: a CT_VBRACE_OPEN after a real chunk");
   __CPROVER_assert((g_added_n == 1 && after) ==> (g_added_type == CT_VBRACE_CLOSE_V && g_added_after == P0), "postcondition: insert_vbrace close: a CT_VBRACE_CLOSE directly after the chunk given");
   __CPROVER_assert((g_added_n == 1 && !after) ==> Chunk_m_type(g_added_after) != CT_COMMENT_CPP_V, "postcondition: insert_vbrace the open brace never directly follows a // comment (it would become part of the comment)");
   __CPROVER_assert(g_added_n == 0 ==> r == PN, "postcondition: insert_vbrace nothing added means NullChunk returned");
   if (g_added_n == 1 && !after && g_nav_fuel < 3) { __CPROVER_assert(0, "VACUITY_CANARY insert_vbrace: open brace inserted after a walk"); }
   if (g_added_n == 1 && after) { __CPROVER_assert(0, "VACUITY_CANARY insert_vbrace: close brace inserted"); }
   if (g_added_n == 0) { __CPROVER_assert(0, "VACUITY_CANARY insert_vbrace: nothing inserted"); }
}
