"""Generates, from the current text of uncrustify_file() in /repo, the ghost stubs for every pass it calls:
each pass NAME(...) becomes a macro that sets g_ran_NAME and may change cpd.changes (any pass may MARK_CHANGE)."""
import os
import re
import sys
sys.path.insert(0, os.path.join(os.path.dirname(os.path.abspath(__file__)), '..', '..', 'tools'))
import slicer  # noqa: E402

# calls in uncrustify_file that are NOT passes (handled by env code or other macros)
NOT_PASSES = {'if', 'while', 'switch', 'for', 'return', 'sizeof', 'static_cast', 'LOG_FMT', 'log_rule_B', 'log_flush', 'exit', 'language_is_set',
              'fopen', 'fclose', 'strerror', 'bout_content_matches', 'uncrustify_end', 'uncrustify_file', 'ends_with', 'size', 'empty', 'c_str',
              'utf8_force', 'utf8_byte', 'utf8_bom', 'get_token_name'}


def passes(repo):
    sl = slicer.slice_function(repo, 'src/uncrustify.cpp', 'uncrustify_file')
    m = slicer.mask(sl.text)
    names = []
    for mo in re.finditer(r'(?<![\w:.>])(\w+)\s*\(', m):
        n = mo.group(1)
        pre = m[max(0, mo.start() - 9):mo.start()]
        if n in NOT_PASSES or pre.endswith('options::') or n in names:
            continue
        names.append(n)
    return names


def generate(repo, outdir):
    names = passes(repo)
    if len(names) < 40:
        raise slicer.SliceError('uncrustify_file: only %d pass calls found' % len(names))
    h = ['// generated from the text of uncrustify_file(): one ghost flag per pass it calls', '#ifndef UF_STUBS_H', '#define UF_STUBS_H', 'extern "C" {']
    c = ['// generated', '#ifndef UF_STUBS_C_H', '#define UF_STUBS_C_H']
    for n in names:
        h.append('bool g_ran_%s;' % n)
        c.append('extern _Bool g_ran_%s;' % n)
    h.append('unsigned long g_pass_seq;          // number of pass calls so far')
    h.append('unsigned long g_output_text_at;    // value of g_pass_seq when output_text was called (0: not called)')
    h.append('unsigned long g_output_text_calls;')
    h.append('}')
    for n in names:
        if n == 'output_text':
            h.append('#define output_text(...) (g_ran_output_text = true, g_output_text_calls++, g_output_text_at = ++g_pass_seq)')
        else:
            h.append('#define %s(...) (g_ran_%s = true, ++g_pass_seq, cpd.changes = nondet_int())' % (n, n))
    c.append('extern unsigned long g_pass_seq, g_output_text_at, g_output_text_calls;')
    c.append('#define UF_GHOST_FRAME ' + ', '.join('g_ran_%s' % n for n in names) + ', g_pass_seq, g_output_text_at, g_output_text_calls')
    c.append('#define UF_NOTHING_RAN (' + ' && '.join('!g_ran_%s' % n for n in names) + ')')
    h.append('#endif')
    c.append('#endif')
    with open(os.path.join(outdir, 'uf_stubs.h'), 'w') as f:
        f.write('\n'.join(h) + '\n')
    with open(os.path.join(outdir, 'uf_stubs_c.h'), 'w') as f:
        f.write('\n'.join(c) + '\n')
    return names


if __name__ == '__main__':
    print(passes(sys.argv[1] if len(sys.argv) > 1 else '/repo'))
