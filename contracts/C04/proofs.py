"""C04 Code-modifying options change only the tokens they name -- kernel: option gating in the driver."""
import os
import sys
here = os.path.dirname(os.path.abspath(__file__))
sys.path.insert(0, os.path.join(here, '..', '..', 'tools'))
sys.path.insert(0, here)
from prover import Proof, REPO  # noqa: E402
import uf_gen  # noqa: E402
NEED_OPTIONS = True
E = lambda x: '__CPROVER_loop_entry(%s)' % x
_GATES = ('(g_ran_rewrite_infinite_loops ==> optv_mod_infinite_loop)')   # flags of passes before the loops do not change inside them


def proofs(tier, workroot):
    names = uf_gen.generate(REPO, os.path.join(workroot, 'gen'))
    in_loop1 = ['annotations_newlines', 'newlines_cleanup_dup', 'newlines_sparens', 'newlines_cleanup_braces', 'newlines_cleanup_angles', 'newline_after_multiline_comment',
                'newline_after_label_colon', 'newlines_insert_blank_lines', 'newlines_chunk_pos', 'newlines_class_colon_pos', 'newlines_squeeze_ifdef',
                'newlines_squeeze_paren_close', 'do_blank_lines', 'newlines_eat_start_end', 'newlines_functions_remove_extra_blank_lines', 'dump_step']
    in_loop2 = ['align_all', 'indent_text', 'do_code_width', 'newlines_cleanup_braces', 'newlines_insert_blank_lines', 'newlines_functions_remove_extra_blank_lines',
                'newlines_remove_disallowed', 'dump_step']
    for n in in_loop1 + in_loop2:
        if n not in names:
            raise Exception('pass %s no longer called by uncrustify_file' % n)
    L = [
        dict(fn='uncrustify_file', id=0, vars=['idx', 'count_line', 'count_column', 'data'], assigns='idx, count_line, count_column, g_exit_status, g_exited',
             inv='idx >= 0 && (g_J < (unsigned long)idx ==> !(g_J + 1 < DI_size(data) && DI_data(data)[g_J] == 0)) && (unsigned long)idx <= DI_size(data)',
             decreases='DI_size(data) - (unsigned long)idx'),
        dict(fn='uncrustify_file', id=1, vars=['old_changes', 'first'],
             assigns='old_changes, first, g_pass_seq, CPD(changes), CPD(pass_count), ' + ', '.join('g_ran_' + n for n in in_loop1),
             inv='g_output_text_calls == 0 && CPD(pass_count) >= 0 && CPD(pass_count) <= 3'),
        dict(fn='uncrustify_file', id=2, vars=['old_changes', 'first'],
             assigns='old_changes, first, g_pass_seq, CPD(changes), g_exit_status, g_exited, ' + ', '.join('g_ran_' + n for n in sorted(set(in_loop2))),
             inv='g_output_text_calls == 0'),
    ]
    env = ['exit/exit_contract', 'fopen/fopen_any_contract', 'fclose/fclose_any_contract', 'bout_content_matches/bout_content_matches_contract',
           'uncrustify_end/uncrustify_end_contract', 'ends_with/ends_with_contract']
    p = Proof('uncrustify_file', impl='contracts/C04/uf.impl.cpp', spec='contracts/C04/uf.spec.c', enforce='uncrustify_file/uncrustify_file_contract',
              replace=env, loops=L, canaries=3, rules={'uncrustify_file': [('D8', [(r'const deque<int> &data = fm.data;', 'deque<int> &data = *(deque<int> *)&fm.data;', 'const reference to a class object: front-end limitation, see env/chunk.h GetStr')])]},
              assumed=['every pass stub: sets its ghost flag, may change cpd.changes, touches nothing else of the driver state',
                       'fopen_any_contract: opening the -p / tracking file succeeds (environment faults are C13\'s quantifier)', 'exit_contract (never returns)'],
              functions=['uncrustify.cpp:uncrustify_file', 'language_tools.cpp:language_is_set'], expect=['uncrustify_file_contract.postcondition'], timeout=1500, object_bits=10,
              note='the two convergence loops carry invariants but no decreases clause: their termination is NOT proved',
              mutants=[('gate_removed', r'if \(options::mod_remove_extra_semicolon\(\)\)\n   \{', 'if (true)\n   {', 'postcondition'),
                       ('gate_wrong_option', r'if \(options::mod_remove_empty_return\(\)\)', 'if (options::mod_remove_extra_semicolon())', 'postcondition'),
                       ('sort_unconditional', r'if \(  options::mod_sort_import\(\)\n      \|\| options::mod_sort_include\(\)\n      \|\| options::mod_sort_using\(\)\)', 'if (true)', 'postcondition'),
                       ('nul_scan_off_by_one', r'idx < static_cast<int>\(data.size\(\)\) - 1; idx\+\+', 'idx < static_cast<int>(data.size()) - 2; idx++', 'postcondition|loop'),
                       ('bom_policy', r'if \(av == IARF_REMOVE\)', 'if (av == IARF_ADD)', 'postcondition'),
                       ('utf8_byte_ignored', r'&& options::utf8_byte\(\)\)\)', '&& false))', 'postcondition'),
                       ('check_not_counted', r'cpd.check_fail_cnt\+\+;', ';', 'postcondition'),
                       ('pass_after_output', r'   if \(parsed_file != nullptr\)\n   \{\n      FILE \*p_file;', '   space_text();\n   if (parsed_file != nullptr)\n   {\n      FILE *p_file;', 'postcondition')])
    sys.path.insert(0, os.path.join(here, '..', 'shared'))
    import nlguard_proofs
    # K2: brace removal (convert_brace) changes only the brace chunk and deletes the adjacent newline only under the SafeToDeleteNl() guard
    gates = [
        Proof('do_braces_gates', impl='contracts/C04/gates.impl.cpp', spec='contracts/C04/gates.spec.c', harness='h_do_braces_gates', plain=True, no_contract=True, canaries=2, rules={},
              nondet_static='.*(optv_|cpd|g_nav_fuel).*', slice_formula=True, unwind=8, expect=['postcondition: do_braces'],
              functions=['braces.cpp:do_braces (fragment: the option gates)'],
              mutants=[('removal_under_add', r'options::mod_full_brace_while\(\)\) & IARF_REMOVE\)', 'options::mod_full_brace_while()) & IARF_ADD)', 'postcondition'),
                       ('case_break_unconditional', r'if \(options::mod_move_case_break\(\)\)', 'if (true)', 'postcondition')]),
        Proof('do_parens_gates', impl='contracts/C04/gates.impl.cpp', spec='contracts/C04/gates.spec.c', harness='h_do_parens', plain=True, no_contract=True, canaries=2, rules={},
              nondet_static='.*(optv_|cpd|g_nav_fuel).*', slice_formula=True, unwind=8, expect=['postcondition: do_parens'],
              cbmc_flags=['--bounds-check', '--pointer-check', '--div-by-zero-check', '--undefined-shift-check', '--unwinding-assertions'],
              functions=['parens.cpp:do_parens', 'parens.cpp:do_parens_assign', 'parens.cpp:do_parens_return'],
              note='size_t check_level-- may wrap by design of the code (unsigned); chunk walks bounded by the navigation fuel',
              mutants=[('assign_gate_dropped', r'if \(options::mod_full_paren_assign_bool\(\)\)', 'if (true)', 'postcondition')]),
        Proof('insert_vbrace', impl='contracts/C04/vbrace.impl.cpp', spec='contracts/C04/vbrace.spec.c', harness='h_insert_vbrace', plain=True, no_contract=True, canaries=3, rules={},
              nondet_static='.*(g_nav_fuel).*', unwind=9, expect=['postcondition: insert_vbrace'], drop_flags=['--conversion-check'],
              functions=['brace_cleanup.cpp:insert_vbrace'],
              assumed=['chunk navigation: an arbitrary chunk per step, at most 7 steps (navigation fuel)', 'tokenizer invariant: the chunk after a // comment is its newline or the end of the list'],
              note='the two backward walks are bounded by the navigation fuel (complete unwinding, unwinding assertions on)',
              mutants=[('cpp_comment_guard_dropped', r'if \(ref->Is\(CT_COMMENT_CPP\)\)', 'if (false)', 'postcondition'),
                       ('close_brace_elsewhere', r'return\(chunk\.CopyAndAddAfter\(pc\)\);', 'return(chunk.CopyAndAddAfter(pc->GetPrev()));', 'postcondition')]),
        Proof('paren_multiline_before_brace', impl='contracts/C04/mlcond.impl.cpp', spec='contracts/C04/mlcond.spec.c', harness='h_paren_multiline_before_brace', plain=True, no_contract=True, canaries=2,
              rules={'paren_multiline_before_brace': [('D8', [(r'const auto paren_t = CT_SPAREN_CLOSE;', 'const E_Token paren_t = CT_SPAREN_CLOSE;', 'auto of E_Token', True),
                                                              (r'auto paren_close = ', 'Chunk *paren_close = ', 'auto of Chunk*'), (r'auto paren_open  = ', 'Chunk *paren_open  = ', 'auto of Chunk*'),
                                                              (r'auto       nl_count = size_t\{\};', 'size_t     nl_count = 0;', 'auto of size_t{}'), (r'const auto ret_flag = ', 'const bool ret_flag = ', 'auto of bool')])]},
              nondet_static='.*(g_found|g_nlb_ok|g_nlb_count).*', expect=['postcondition: paren_multiline_before_brace'], drop_flags=['--conversion-check'],
              functions=['braces.cpp:paren_multiline_before_brace'], assumed=['Chunk::GetPrevType finds the previous chunk of the type at the level it is asked for; newlines_between counts the line breaks between two chunks'],
              mutants=[('any_level', r'brace->GetPrevType\(paren_t, brace->GetLevel\(\), E_Scope::ALL\)', 'brace->GetPrevType(paren_t)', 'postcondition'),
                       ('single_line_counts', r'return\(nl_count > 0\);', 'return(true);', 'postcondition')]),
    ]
    return [p] + gates + [q for q in nlguard_proofs.all_proofs() if q.name in ('SafeToDeleteNl', 'convert_brace')]


EXPLANATION = ('Kernel of C04 (and C06-K4, C09-K6, C12-K3): the real driver uncrustify_file() with every pass replaced by a generated ghost stub: a code-modifying pass '
               '(rewrite_infinite_loops, remove_extra_semicolons, remove_extra_returns, change_int_types, remove_duplicate_include, pawn_scrub_vsemi, sort_imports, '
               'add_long_closebrace_comment, add_long_preprocessor_conditional_block_comment) runs only if the option documented to request it is set; with all of '
               'them at default none runs. output_text runs exactly once and last; an embedded NUL is refused first; encoding/BOM policy; check accounting.')
K = ['K5 paren_multiline_before_brace (mod_full_brace_nl_block_rem_mlcond): the parenthesis examined is the statement parenthesis at the level of this brace, and the answer comes from the line breaks inside that pair', 'K4 insert_vbrace (where the braces added by mod_full_brace_*=add come to stand): at most one chunk is added, the close brace directly after the statement end, the open brace after a real chunk that is never a // comment', 'K3 do_braces / do_parens / do_parens_assign / do_parens_return (called unconditionally by the driver): brace removal, brace insertion, if-chain rewriting, case braces, case-break / case-return moves and added parentheses each happen only under the option(s) documented to request them',
     'K2 convert_brace (brace -> virtual brace, used by every brace-removing option): only brace chunks are converted, at most the adjacent newline is deleted and only when SafeToDeleteNl() allows it (otherwise the statement would move into a // comment)',
     'K1 uncrustify_file: gating of the nine code-modifying passes the driver calls', 'C06-K4 output once and last; embedded-NUL scan', 'C09-K6 encoding/BOM policy', 'C12-K3 check_fail_cnt']
G = [     'what each pass does once it runs (brace pairing, can_remove_braces, sorting permutes whole lines, balanced brackets): NOT proved; the mod_full_brace_if=remove defect quoted in the property lives there and is NOT detectable by this kernel',
     'enum_cleanup (mod_enum_last_comma) runs inside tokenize_cleanup, outside the driver: not covered',
     'list primitives used by the mod passes do not lose tokens: C02-K1']

sys.path.insert(0, os.path.join(os.path.dirname(os.path.abspath(__file__)), '..', '..', 'tools'))
import replay_lib  # noqa: E402
REPLAY = replay_lib.make_replay(replay_lib.scenario_gating_default, replay_lib.scenario_vbrace_comment, replay_lib.scenario_encoding, replay_lib.scenario_check_truth)
