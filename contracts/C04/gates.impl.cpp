// Translation unit for the option gates of the brace and parenthesis passes (C04-K2, K3): the gating part of do_braces()
// (src/braces.cpp, fragment from `if (options::mod_full_brace_if_chain()` to the end of the function) and do_parens(),
// do_parens_assign(), do_parens_return() (src/parens.cpp, whole functions), sliced verbatim.  The token-editing helpers they call
// are ghost recorders.  Direct verification conditions; chunk navigation is bounded by the navigation fuel (see C19 do_space).
#include "token_enum.h"      /* from the working tree: -I <repo>/src */
#define VERIF_E_TOKEN
#include "base.h"
#include "containers.h"
#include "unctext.h"
#include "cpd.h"
#include "chunk.h"
#include "logger.h"
//@slice src/option.h struct iarf_e
//@slice src/option.h struct line_end_e
//@slice src/option.h struct token_pos_e
#include "options_gen.h"
#include "space_gen.h"
using namespace uncrustify;
inline iarf_e operator|(iarf_e a, iarf_e b) { return (iarf_e)((int)a | (int)b); }     // flags<iarf_e> of src/enum_flags.h
inline int operator&(iarf_e a, iarf_e b) { return (int)a & (int)b; }
inline bool operator!=(iarf_e a, iarf_e b) { return (int)a != (int)b; }
static Chunk g_pool[3];
static Chunk g_null_chunk;
Chunk *const Chunk::NullChunkPtr = &g_null_chunk;
extern "C" {
unsigned g_nav_fuel;
unsigned g_ran_if_chain, g_ran_examine, g_ran_convert_vbrace, g_ran_case_brace, g_ran_move_break, g_ran_move_return, g_ran_check_bool_parens;
}
static Chunk *nav_chunk() { if (g_nav_fuel == 0) { return &g_null_chunk; } g_nav_fuel--; unsigned k = nondet_uint(); return (k < 3) ? &g_pool[k] : &g_null_chunk; }
Chunk *Chunk::GetHead() { return nav_chunk(); }
Chunk *Chunk::GetNextNcNnl(const E_Scope) const { return nav_chunk(); }
Chunk *Chunk::GetPrevNc(const E_Scope) const { return nav_chunk(); }
Chunk *Chunk::GetNextType(const E_Token, int, E_Scope) const { return nav_chunk(); }
bool Chunk::TestFlags(unsigned long f) const { return (m_flags & f) == f; }   // flags<>::test of src/enum_flags.h
//@slice src/chunk.h fn Chunk::Is
//@slice src/chunk.h fn Chunk::IsNot
//@slice src/chunk.h fn Chunk::GetType
//@slice src/chunk.h fn Chunk::GetParentType
//@slice src/chunk.h fn Chunk::GetLevel
// the token-editing helpers: ghost recorders
static void mod_full_brace_if_chain() { g_ran_if_chain++; }
static void examine_braces() { g_ran_examine++; }
static void convert_vbrace_to_brace() { g_ran_convert_vbrace++; }
static void mod_case_brace() { g_ran_case_brace++; }
static void move_case_break() { g_ran_move_break++; }
static void move_case_return() { g_ran_move_return++; }
static void check_bool_parens(Chunk *popen, Chunk *pclose, int nest) { g_ran_check_bool_parens++; }
extern "C" {
void do_braces_gates()
{
//@slice src/braces.cpp frag do_braces_gates /^   if \(  options::mod_full_brace_if_chain\(\)$/ /^\} \/\/ do_braces$/
//@slice src/parens.cpp fn do_parens
//@slice src/parens.cpp fn do_parens_assign
//@slice src/parens.cpp fn do_parens_return
}
#include "offsets_cpp.h"
extern "C" { extern Chunk *const P0 = &g_pool[0]; extern Chunk *const P1 = &g_pool[1]; extern Chunk *const P2 = &g_pool[2]; extern Chunk *const PN = &g_null_chunk; }
