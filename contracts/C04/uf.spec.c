/* Contract for uncrustify_file() (src/uncrustify.cpp). Postconditions come from the property statements:
 *  C04: "With every mod_ option at its default no token is added or removed at all" -- no code-modifying pass runs
 *       unless the option documented to request it is set;
 *  C06: "When the status is non-zero no part of the source has been written" -- output_text is the last pass, runs at
 *       most once, and an embedded NUL is refused before anything else happens;
 *  C09: the encoding / BOM written are the ones read unless utf8_bom / utf8_byte / utf8_force say otherwise;
 *  C12: a --check mismatch is counted exactly once. */
#include "common.h"
#include "options_c.h"
#include "uf_stubs_c.h"
struct FILE;
extern int g_exit_status; extern _Bool g_exited, g_matches;
size_t g_J;
enum { LANG_C_B = 1, LANG_CPP_B = 2, LANG_PAWN_B = 0x80 };   /* lang_flag_e of src/language_names.h (values checked by gen_consts) */
#define FM_DATA(fm) file_mem_data(fm)

void exit_contract(int status)
__CPROVER_assigns(g_exit_status, g_exited)
__CPROVER_ensures(0)
;
/* the -p / tracking files: environment faults are C13's quantifier, not C06's -- opening them succeeds */
struct FILE *fopen_any_contract(const char *path, const char *mode)
__CPROVER_assigns()
__CPROVER_ensures(__CPROVER_return_value != (struct FILE*)0)
;
int fclose_any_contract(struct FILE *f) __CPROVER_requires(1) __CPROVER_assigns() __CPROVER_ensures(1) ;
_Bool bout_content_matches_contract(struct file_mem *fm, _Bool report_status, _Bool is_quiet)
__CPROVER_requires(report_status)
__CPROVER_assigns(g_matches)
__CPROVER_ensures(g_matches == __CPROVER_return_value)
;
void uncrustify_end_contract(void) __CPROVER_requires(1) __CPROVER_assigns() __CPROVER_ensures(1) ;
_Bool ends_with_contract(const char *value, const char *ending, _Bool cs) __CPROVER_requires(1) __CPROVER_assigns() __CPROVER_ensures(1) ;

#define DEFAULT_MOD_OPTIONS (!optv_mod_infinite_loop && !optv_mod_remove_extra_semicolon && !optv_mod_remove_empty_return \
   && optv_mod_int_short == 0 && optv_mod_short_int == 0 && optv_mod_int_long == 0 && optv_mod_long_int == 0 \
   && optv_mod_int_signed == 0 && optv_mod_signed_int == 0 && optv_mod_int_unsigned == 0 && optv_mod_unsigned_int == 0 \
   && !optv_mod_remove_duplicate_include && !optv_mod_pawn_semicolon && !optv_mod_sort_import && !optv_mod_sort_include && !optv_mod_sort_using \
   && optv_mod_add_long_switch_closebrace_comment == 0 && optv_mod_add_long_function_closebrace_comment == 0 \
   && optv_mod_add_long_class_closebrace_comment == 0 && optv_mod_add_long_namespace_closebrace_comment == 0 \
   && optv_mod_add_long_ifdef_else_comment == 0 && optv_mod_add_long_ifdef_endif_comment == 0)
#define HAS_NUL (g_J + 1 < DI_size(FM_DATA(fm)) && DI_data(FM_DATA(fm))[g_J] == 0)

void uncrustify_file_contract(struct file_mem *fm, struct FILE *pfout, const char *parsed_file, const char *dump_file, _Bool is_quiet, _Bool defer)
__CPROVER_requires(__CPROVER_is_fresh(fm, SIZEOF_file_mem) && DI_FRESH_IN(FM_DATA(fm)) && DI_size(FM_DATA(fm)) < (1UL << 31))
__CPROVER_requires(file_mem_enc(fm) <= ENC_UTF16_BE && OPT_RANGE_utf8_bom)
__CPROVER_requires(parsed_file == (const char*)0 || __CPROVER_is_fresh(parsed_file, 2))
__CPROVER_requires(g_J < (1UL << 40))
__CPROVER_requires(UF_NOTHING_RAN && g_pass_seq == 0 && g_output_text_at == 0 && g_output_text_calls == 0 && !g_exited && CPD(check_fail_cnt) < 1000000)
__CPROVER_requires(DI_cap(file_mem_data(cp_data_t_func_hdr(&cpd))) >= 0)
__CPROVER_assigns(UF_GHOST_FRAME, CPD(bom), CPD(enc), CPD(unc_stage), CPD(pass_count), CPD(changes), CPD(check_fail_cnt), g_exit_status, g_exited, g_matches)
/* ---- C04-K1: each code-modifying pass runs only if its option asks for it ---- */
__CPROVER_ensures(g_ran_rewrite_infinite_loops ==> optv_mod_infinite_loop)
__CPROVER_ensures(g_ran_remove_extra_semicolons ==> optv_mod_remove_extra_semicolon)
__CPROVER_ensures(g_ran_remove_extra_returns ==> optv_mod_remove_empty_return)
__CPROVER_ensures(g_ran_change_int_types ==> ((CPD(lang_flags) & (LANG_C_B | LANG_CPP_B)) != 0 &&
                  (optv_mod_int_short != 0 || optv_mod_short_int != 0 || optv_mod_int_long != 0 || optv_mod_long_int != 0 ||
                   optv_mod_int_signed != 0 || optv_mod_signed_int != 0 || optv_mod_int_unsigned != 0 || optv_mod_unsigned_int != 0)))
__CPROVER_ensures(g_ran_remove_duplicate_include ==> optv_mod_remove_duplicate_include)
__CPROVER_ensures(g_ran_pawn_scrub_vsemi ==> ((CPD(lang_flags) & LANG_PAWN_B) != 0 && optv_mod_pawn_semicolon))
__CPROVER_ensures(g_ran_sort_imports ==> (optv_mod_sort_import || optv_mod_sort_include || optv_mod_sort_using))
__CPROVER_ensures(g_ran_add_long_closebrace_comment ==> (optv_mod_add_long_switch_closebrace_comment > 0 || optv_mod_add_long_function_closebrace_comment > 0 ||
                  optv_mod_add_long_class_closebrace_comment > 0 || optv_mod_add_long_namespace_closebrace_comment > 0))
__CPROVER_ensures(g_ran_add_long_preprocessor_conditional_block_comment ==> (optv_mod_add_long_ifdef_else_comment > 0 || optv_mod_add_long_ifdef_endif_comment > 0))
/* with every mod_ option of the driver at its default none of them runs */
__CPROVER_ensures(DEFAULT_MOD_OPTIONS ==> (!g_ran_rewrite_infinite_loops && !g_ran_remove_extra_semicolons && !g_ran_remove_extra_returns && !g_ran_change_int_types
                  && !g_ran_remove_duplicate_include && !g_ran_pawn_scrub_vsemi && !g_ran_sort_imports && !g_ran_add_long_closebrace_comment
                  && !g_ran_add_long_preprocessor_conditional_block_comment))
/* ---- C06-K4: a normal return means the text was formatted and written exactly once, as the last pass but the optional dump ---- */
__CPROVER_ensures(g_output_text_calls == 1 && g_ran_uncrustify_start)
__CPROVER_ensures(!g_ran_output_parsed && !g_ran_output_parsed_csv ==> g_output_text_at == g_pass_seq)
/* an embedded NUL (anywhere but in the last position) never gets this far */
__CPROVER_ensures(!HAS_NUL)
/* ---- C09-K6: encoding and BOM policy ---- */
__CPROVER_ensures(CPD(enc) == ((optv_utf8_force || (file_mem_enc(fm) == ENC_BYTE && optv_utf8_byte)) ? ENC_UTF8 : file_mem_enc(fm)))
__CPROVER_ensures((CPD(enc) == ENC_UTF16_LE || CPD(enc) == ENC_UTF16_BE) ==> CPD(bom))
__CPROVER_ensures((CPD(enc) == ENC_ASCII || CPD(enc) == ENC_BYTE) ==> CPD(bom) == file_mem_bom(fm))
__CPROVER_ensures(CPD(enc) == ENC_UTF8 ==> CPD(bom) == (optv_utf8_bom == 0 ? file_mem_bom(fm) : (optv_utf8_bom != 2)))
/* ---- C12-K3: check accounting ---- */
__CPROVER_ensures(CPD(check_fail_cnt) == __CPROVER_old(CPD(check_fail_cnt)) + ((CPD(do_check) && !g_matches) ? 1 : 0))
;
