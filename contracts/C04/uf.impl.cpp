// Translation unit for uncrustify_file() (C04-K1 option gating, C06-K4 output-last typestate and embedded-NUL scan,
// C09-K6 encoding/BOM policy, C12-K3 check accounting): the real driver of src/uncrustify.cpp, verbatim.  Every pass
// it calls is a generated ghost stub (gen/uf_stubs.h, regenerated from the function text on every run).
#include "token_enum.h"      /* from the working tree: -I <repo>/src */
#define VERIF_E_TOKEN
#define VERIF_UNC_STAGE_T unc_stage_e
#include "base.h"
//@slice src/uncrustify_types.h struct unc_stage_e
#include "containers.h"
#include "fs.h"
#include "unctext.h"
#include "cpd.h"
#include "logger.h"
//@slice src/option.h struct iarf_e
//@slice src/option.h struct line_end_e
//@slice src/option.h struct token_pos_e
//@slice src/language_names.h struct lang_flag_e
#include "options_gen.h"
using namespace uncrustify;
using namespace std;
inline bool operator!=(iarf_e a, iarf_e b) { return (int)a != (int)b; }
extern "C" {
int g_exit_status; bool g_exited;
bool g_matches;
void exit(int status) { }                                                                   // replaced by exit_contract
FILE *fopen(const char *path, const char *mode) { return 0; }                                // replaced by fopen_any_contract
int fclose(FILE *f) { return 0; }                                                            // replaced by fclose_any_contract
bool bout_content_matches(const file_mem &fm, bool report_status, bool is_quiet) { return nondet_bool(); }   // replaced (proved under C12-K1)
void uncrustify_end() { }                                                                    // replaced (proved under C11-K1)
bool ends_with(const char *value, const char *ending, bool case_sensitive) { return nondet_bool(); }
}
#include "uf_stubs.h"
//@slice src/language_tools.cpp fn language_is_set
extern "C" {
//@slice src/uncrustify.cpp fn uncrustify_file
}
#include "offsets_cpp.h"
#define CANARY(msg) __CPROVER_assert(0, "VACUITY_CANARY " msg)
extern "C" {
void h_uncrustify_file()
{
   file_mem fm; FILE *pf; const char *a, *b;
   uncrustify_file(fm, pf, a, b, nondet_bool(), nondet_bool());
   if (g_ran_output_text) { CANARY("uncrustify_file reaches output_text"); }
   if (g_ran_sort_imports) { CANARY("uncrustify_file runs sort_imports"); }
   if (cpd.check_fail_cnt == 1) { CANARY("uncrustify_file counts a check failure"); }
}
}
