// Translation unit for insert_vbrace() (src/tokenizer/brace_cleanup.cpp, whole function; C04-K4, C03, C01): where the virtual brace of a brace-less
// if/else/for/while/do body is put.  mod_full_brace_*=add turns exactly these chunks into real braces, so a virtual open brace that directly follows
// a `//` comment becomes a brace inside the comment.  Direct verification conditions; chunk navigation answers with an arbitrary chunk, bounded by
// the navigation fuel; the tokenizer invariant "a // comment is followed by the newline that ends it (or by the end of the file)" is part of the model.
#include "token_enum.h"      /* from the working tree: -I <repo>/src */
#define VERIF_E_TOKEN
#include "base.h"
#include "containers.h"
#include "unctext.h"
#include "cpd.h"
#include "chunk.h"
#include "logger.h"
#include "space_gen.h"     /* generated on this run from src/pcf_flags.h: the PCF_* constants */
static Chunk g_pool[4];
static Chunk g_null_chunk;
Chunk *const Chunk::NullChunkPtr = &g_null_chunk;
extern "C" { unsigned g_nav_fuel, g_added_n; Chunk *g_added_after; unsigned g_added_type; }
static Chunk *nav_chunk() { if (g_nav_fuel == 0) { return &g_null_chunk; } g_nav_fuel--; unsigned k = nondet_uint(); return (k < 4) ? &g_pool[k] : &g_null_chunk; }
// tokenizer invariant: the chunk after a `//` comment is the newline that ends it, or nothing (end of file)
Chunk *Chunk::GetNext(const E_Scope) const { Chunk *r = nav_chunk(); if (m_type == CT_COMMENT_CPP) { __CPROVER_assume(r->m_nullChunk || r->m_type == CT_NEWLINE); } return r; }
Chunk *Chunk::GetNextNc(const E_Scope) const { Chunk *r = nav_chunk(); __CPROVER_assume(r->m_nullChunk || (r->m_type != CT_COMMENT && r->m_type != CT_COMMENT_CPP && r->m_type != CT_COMMENT_MULTI)); return r; }
Chunk *Chunk::GetPrev(const E_Scope) const { return nav_chunk(); }
bool Chunk::TestFlags(unsigned long f) const { return (m_flags & f) == f; }   // flags<>::test of src/enum_flags.h
unsigned long Chunk::GetFlags() const { return m_flags; }
void Chunk::SetFlags(unsigned long f) { m_flags = f; }
void Chunk::ResetFlagBits(unsigned long f) { m_flags &= ~f; }
UncText &UncText::operator=(const char *) { return *this; }
Chunk *Chunk::CopyAndAddAfter(Chunk *pos) const { g_added_n++; g_added_after = pos; g_added_type = (unsigned)m_type; return &g_pool[3]; }
//@slice src/chunk.h fn Chunk::Is
//@slice src/chunk.h fn Chunk::GetType
//@slice src/chunk.h fn Chunk::IsComment
//@slice src/chunk.h fn Chunk::IsNewline
//@slice src/chunk.h fn Chunk::IsCommentOrNewline
//@slice src/chunk.h fn Chunk::GetLevel
//@slice src/chunk.h fn Chunk::SetLevel
//@slice src/chunk.h fn Chunk::GetBraceLevel
//@slice src/chunk.h fn Chunk::SetBraceLevel
//@slice src/chunk.h fn Chunk::GetPpLevel
//@slice src/chunk.h fn Chunk::SetPpLevel
//@slice src/chunk.h fn Chunk::GetOrigLine
//@slice src/chunk.h fn Chunk::SetOrigLine
//@slice src/chunk.h fn Chunk::GetOrigCol
//@slice src/chunk.h fn Chunk::SetOrigCol
//@slice src/chunk.h fn Chunk::GetColumn
//@slice src/chunk.h fn Chunk::SetColumn
//@slice src/chunk.h fn Chunk::Len
//@slice src/chunk.h fn Chunk::Str
//@slice src/chunk.cpp fn Chunk::SetParentType
//@slice src/chunk.cpp fn Chunk::SetType
//@slice src/unc_text.cpp fn UncText::size
// the parse frame: any levels, any open token
struct ParenStackEntry { E_Token GetOpenToken() const { return (E_Token)nondet_uint(); } };
struct ParsingFrame
{
   ParenStackEntry m_top;
   const ParenStackEntry &top() const { return *(ParenStackEntry *)&m_top; }      // (front end mis-types a const reference to a class member)
   size_t GetParenLevel() const { return nondet_size_t(); }
   size_t GetBraceLevel() const { return nondet_size_t(); }
   size_t GetPpLevel() const { return nondet_size_t(); }
};
extern "C" {
//@slice src/tokenizer/brace_cleanup.cpp fn insert_vbrace
Chunk *w_insert_vbrace(Chunk *pc, bool after) { ParsingFrame frm; return insert_vbrace(pc, after, frm); }
extern Chunk *const P0 = &g_pool[0]; extern Chunk *const P1 = &g_pool[1]; extern Chunk *const P2 = &g_pool[2]; extern Chunk *const P3 = &g_pool[3]; extern Chunk *const PN = &g_null_chunk;
extern const unsigned CT_COMMENT_CPP_V = CT_COMMENT_CPP, CT_VBRACE_OPEN_V = CT_VBRACE_OPEN, CT_VBRACE_CLOSE_V = CT_VBRACE_CLOSE;
}
#include "offsets_cpp.h"
