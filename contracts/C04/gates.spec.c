/* C04: "With every mod_ option at its default no token is added or removed at all", and each brace / parenthesis edit happens only
 * under the option documented to request it (option documentation in src/options.h). */
#include "common.h"
#include "options_c.h"
extern unsigned g_nav_fuel, g_ran_if_chain, g_ran_examine, g_ran_convert_vbrace, g_ran_case_brace, g_ran_move_break, g_ran_move_return, g_ran_check_bool_parens;
void do_braces_gates(void); void do_parens(void); void do_parens_assign(void); void do_parens_return(void);
#define RESET() (g_ran_if_chain = g_ran_examine = g_ran_convert_vbrace = g_ran_case_brace = g_ran_move_break = g_ran_move_return = g_ran_check_bool_parens = 0)
#define FB_RANGE (OPT_RANGE_mod_full_brace_if && OPT_RANGE_mod_full_brace_do && OPT_RANGE_mod_full_brace_for && OPT_RANGE_mod_full_brace_function \
                  && OPT_RANGE_mod_full_brace_using && OPT_RANGE_mod_full_brace_while && OPT_RANGE_mod_case_brace)
#define ANY_FB(bit) (((optv_mod_full_brace_if | optv_mod_full_brace_do | optv_mod_full_brace_for | optv_mod_full_brace_using | optv_mod_full_brace_while) & (bit)) != 0)
void h_do_braces_gates(void)
{
   __CPROVER_assume(FB_RANGE);
   RESET();
   do_braces_gates();
   /* braces are removed only if some mod_full_brace_{if,do,for,using,while} has the Remove bit */
   __CPROVER_assert(g_ran_examine ==> ANY_FB(2), "postcondition: do_braces examine_braces (brace removal) only under a mod_full_brace_* option with Remove");
   /* virtual braces become real ones only if some mod_full_brace_* (function included) has the Add bit */
   __CPROVER_assert(g_ran_convert_vbrace ==> (ANY_FB(1) || (optv_mod_full_brace_function & 1)), "postcondition: do_braces convert_vbrace_to_brace (brace insertion) only under a mod_full_brace_* option with Add");
   __CPROVER_assert(g_ran_if_chain ==> (optv_mod_full_brace_if_chain || optv_mod_full_brace_if_chain_only), "postcondition: do_braces if-chain rewriting only under mod_full_brace_if_chain[_only]");
   __CPROVER_assert(g_ran_case_brace ==> optv_mod_case_brace != 0, "postcondition: do_braces case braces only under mod_case_brace");
   __CPROVER_assert(g_ran_move_break ==> optv_mod_move_case_break, "postcondition: do_braces case-break move only under mod_move_case_break");
   __CPROVER_assert(g_ran_move_return ==> optv_mod_move_case_return, "postcondition: do_braces case-return move only under mod_move_case_return");
   if (g_ran_examine && g_ran_convert_vbrace) { __CPROVER_assert(0, "VACUITY_CANARY do_braces: removal and insertion both requested"); }
   if (!g_ran_examine && !g_ran_convert_vbrace && !g_ran_if_chain && !g_ran_case_brace && !g_ran_move_break && !g_ran_move_return) { __CPROVER_assert(0, "VACUITY_CANARY do_braces: nothing requested"); }
}
extern struct Chunk *const P0, *const P1, *const P2, *const PN;
void h_do_parens(void)
{
   /* every attribute of every chunk is arbitrary; the sentinel is the sentinel */
   __CPROVER_havoc_object(P0); __CPROVER_havoc_object(PN);
   Chunk_m_nullChunk(P0) = 0; Chunk_m_nullChunk(P1) = 0; Chunk_m_nullChunk(P2) = 0; Chunk_m_nullChunk(PN) = 1;
   __CPROVER_assume(g_nav_fuel <= 5);
   RESET();
   _Bool a = nondet_bool(), b = nondet_bool();
   if (a) { do_parens(); __CPROVER_assert(g_ran_check_bool_parens ==> optv_mod_full_paren_if_bool, "postcondition: do_parens adds parentheses only under mod_full_paren_if_bool"); }
   else if (b) { do_parens_assign(); __CPROVER_assert(g_ran_check_bool_parens ==> optv_mod_full_paren_assign_bool, "postcondition: do_parens_assign adds parentheses only under mod_full_paren_assign_bool"); }
   else { do_parens_return(); __CPROVER_assert(g_ran_check_bool_parens ==> optv_mod_full_paren_return_bool, "postcondition: do_parens_return adds parentheses only under mod_full_paren_return_bool"); }
   if (g_ran_check_bool_parens > 1) { __CPROVER_assert(0, "VACUITY_CANARY do_parens*: several expressions parenthesised"); }
   if (g_ran_check_bool_parens == 0) { __CPROVER_assert(0, "VACUITY_CANARY do_parens*: nothing done"); }
}
_Bool nondet_bool(void);
