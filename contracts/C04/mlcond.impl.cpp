// Translation unit for paren_multiline_before_brace() (src/braces.cpp, whole function; C04-K5): does the condition in front of this brace span several lines?
// (mod_full_brace_nl_block_rem_mlcond keeps the braces of such a statement.)  Direct verification conditions; the chunk list is the environment: GetPrevType records
// what it is asked for, newlines_between answers arbitrarily.
#include "token_enum.h"      /* from the working tree: -I <repo>/src */
#define VERIF_E_TOKEN
#include "base.h"
#include "containers.h"
#include "unctext.h"
#include "cpd.h"
#include "chunk.h"
#include "logger.h"
static Chunk g_brace, g_close, g_open, g_null_chunk;
Chunk *const Chunk::NullChunkPtr = &g_null_chunk;
extern "C" { unsigned g_asked_type; int g_asked_level; unsigned g_asked_n; bool g_found, g_nlb_ok; size_t g_nlb_count; unsigned g_nlb_n; const void *g_nlb_a, *g_nlb_b; }
Chunk *Chunk::GetPrevType(const E_Token type, int level, E_Scope) const { g_asked_n++; g_asked_type = (unsigned)type; g_asked_level = level; return g_found ? &g_close : &g_null_chunk; }
Chunk *Chunk::GetOpeningParen(E_Scope) const { return (this == &g_close && nondet_bool()) ? &g_open : &g_null_chunk; }
static bool newlines_between(Chunk *a, Chunk *b, size_t &count) { g_nlb_n++; g_nlb_a = a; g_nlb_b = b; count = g_nlb_count; return g_nlb_ok; }
//@slice src/chunk.h fn Chunk::Is
//@slice src/chunk.h fn Chunk::IsNot
//@slice src/chunk.h fn Chunk::GetType
//@slice src/chunk.h fn Chunk::GetParentType
//@slice src/chunk.h fn Chunk::GetLevel
extern "C" {
//@slice src/braces.cpp fn paren_multiline_before_brace
bool w_paren_multiline_before_brace(Chunk *brace) { return(paren_multiline_before_brace(brace)); }
extern Chunk *const BRACE = &g_brace; extern Chunk *const PCLOSE = &g_close; extern Chunk *const POPEN = &g_open; extern Chunk *const PN = &g_null_chunk;
extern const unsigned CT_SPAREN_CLOSE_V = CT_SPAREN_CLOSE;
}
#include "offsets_cpp.h"
