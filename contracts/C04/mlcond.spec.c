/* C04 "code-modifying options change only the tokens they name": mod_full_brace_nl_block_rem_mlcond keeps the braces of a statement whose OWN condition spans several
 * lines.  paren_multiline_before_brace(brace) must therefore look at the parenthesis pair of this brace's statement: the closing `)` of a statement parenthesis at the
 * brace's level - not at any `)` further up in the file (a nested for/while inside the block) - and answer from the line breaks between that pair. */
#include "common.h"
extern unsigned g_asked_type, g_asked_n, g_nlb_n; extern int g_asked_level; extern _Bool g_found, g_nlb_ok; extern size_t g_nlb_count; extern const void *g_nlb_a, *g_nlb_b;
extern struct Chunk *const BRACE, *const PCLOSE, *const POPEN, *const PN; extern const unsigned CT_SPAREN_CLOSE_V;
_Bool w_paren_multiline_before_brace(struct Chunk *brace);
void h_paren_multiline_before_brace(void)
{
   __CPROVER_havoc_object(BRACE); __CPROVER_havoc_object(PCLOSE); __CPROVER_havoc_object(POPEN); __CPROVER_havoc_object(PN);
   Chunk_m_nullChunk(BRACE) = 0; Chunk_m_nullChunk(PCLOSE) = 0; Chunk_m_nullChunk(POPEN) = 0; Chunk_m_nullChunk(PN) = 1;
   __CPROVER_assume(Chunk_m_level(BRACE) < (1UL << 30));
   g_asked_n = 0; g_nlb_n = 0;
   _Bool r = w_paren_multiline_before_brace(BRACE);
   __CPROVER_assert(g_asked_n <= 1, "postcondition: paren_multiline_before_brace looks for one parenthesis");
   __CPROVER_assert(g_asked_n == 1 ==> (g_asked_type == CT_SPAREN_CLOSE_V && g_asked_level == (int)Chunk_m_level(BRACE)), "postcondition: paren_multiline_before_brace looks for the statement parenthesis at the level of this brace");
   __CPROVER_assert(r ==> (g_nlb_n == 1 && g_nlb_a == (void *)POPEN && g_nlb_b == (void *)PCLOSE && g_nlb_ok && g_nlb_count > 0), "postcondition: paren_multiline_before_brace true only if the pair found spans a line break");
   if (r) { __CPROVER_assert(0, "VACUITY_CANARY multi-line condition"); }
   if (!r && g_nlb_n == 1) { __CPROVER_assert(0, "VACUITY_CANARY single-line condition"); }
}
