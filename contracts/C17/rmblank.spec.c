/* remove_blank_lines_between_imports() (src/sorting.cpp): the line breaks BETWEEN the imports of a block become single ones; the newline after the last import of the
 * block is left as it is (C17 "the file ends with exactly nl_end_of_file_min line breaks" when the block ends the file; C20 blank lines in front of the following code). */
#include "common.h"
extern size_t g_n; extern struct Chunk *const NL_LAST, *const NL_OTHER;
void remove_blank_lines_between_imports_contract(struct Chunk **chunks, size_t num_chunks)
__CPROVER_requires(num_chunks == g_n && g_n <= (1UL << 30) && CPD(changes) >= 0 && CPD(changes) < 1000000)
__CPROVER_assigns(Chunk_m_nlCount(NL_OTHER), CPD(changes))
/* the newline after the last import is untouched (frame: NL_LAST is not in the assigns clause) and the ones between imports are single */
__CPROVER_ensures(num_chunks >= 2 ==> Chunk_m_nlCount(NL_OTHER) == 1)
__CPROVER_ensures(num_chunks < 2 ==> Chunk_m_nlCount(NL_OTHER) == __CPROVER_old(Chunk_m_nlCount(NL_OTHER)))
;
void w_remove_blank_lines_between_imports(struct Chunk **chunks, size_t n);
size_t nondet_size_t(void);
void h_remove_blank_lines_between_imports(void)
{
   struct Chunk **c; size_t n = nondet_size_t();
   w_remove_blank_lines_between_imports(c, n);
   if (n >= 2) { __CPROVER_assert(0, "VACUITY_CANARY imports: block of several"); }
   if (n < 2) { __CPROVER_assert(0, "VACUITY_CANARY imports: single import"); }
}
