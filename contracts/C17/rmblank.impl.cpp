// Translation unit for remove_blank_lines_between_imports() (src/sorting.cpp, whole function; C17-K9 / C20): with mod_sort_incl_import_grouping_enabled the blank lines
// BETWEEN the imports of a block are removed before sorting - the newline AFTER the last import is not between two imports (it may be the end-of-file newline, whose
// count nl_end_of_file_min fixed earlier, or the blank line in front of the code that follows).
// The array of import chunks is read through elem() (rule D8: `chunks[idx]` -> `elem(chunks, idx)`): elements of a chunk list are pairwise distinct, which a raw
// array of arbitrary pointers would not say; the model has one object for the last import and one for "any other import".
#include "token_enum.h"      /* from the working tree: -I <repo>/src */
#define VERIF_E_TOKEN
#include "base.h"
#include "containers.h"
#include "unctext.h"
#include "cpd.h"
#include "chunk.h"
#include "logger.h"
#define MARK_CHANGE() (cpd.changes++)
static Chunk g_last_import, g_other_import, g_nl_last, g_nl_other, g_null_chunk;
Chunk *const Chunk::NullChunkPtr = &g_null_chunk;
extern "C" { size_t g_n; }
static Chunk *elem(Chunk **chunks, size_t idx) { VASSERT(idx < g_n, "array of imports: index inside the block"); return (idx == g_n - 1) ? &g_last_import : &g_other_import; }
Chunk *Chunk::GetNextNl(const E_Scope) const { return (this == &g_last_import) ? &g_nl_last : &g_nl_other; }
//@slice src/chunk.h fn Chunk::SetNlCount
extern "C" {
//@slice src/sorting.cpp fn remove_blank_lines_between_imports
void w_remove_blank_lines_between_imports(Chunk **chunks, size_t n) { remove_blank_lines_between_imports(chunks, n); }
extern Chunk *const NL_LAST = &g_nl_last; extern Chunk *const NL_OTHER = &g_nl_other;
}
#include "offsets_cpp.h"
