"""C17 Whitespace hygiene of the output (writer kernel of output.cpp)."""
import os
import sys
sys.path.insert(0, os.path.join(os.path.dirname(os.path.abspath(__file__)), '..', 'shared'))
import output_proofs  # noqa: E402
import outtext_proofs  # noqa: E402
import tokenizer_proofs  # noqa: E402
import end_proof  # noqa: E402
sys.path.insert(0, os.path.join(os.path.dirname(os.path.abspath(__file__)), '..', 'C03'))
import trim_proofs  # noqa: E402
sys.path.insert(0, os.path.join(os.path.dirname(os.path.abspath(__file__)), '..', '..', 'tools'))
from prover import Proof  # noqa: E402
RMBLANK = Proof('remove_blank_lines_between_imports', impl='contracts/C17/rmblank.impl.cpp', spec='contracts/C17/rmblank.spec.c', harness='h_remove_blank_lines_between_imports',
                enforce='remove_blank_lines_between_imports/remove_blank_lines_between_imports_contract', canaries=2, frame_is_property=True,
                rules={'remove_blank_lines_between_imports': [('D8', [(r'chunks\[idx\]', 'elem(chunks, idx)', 'array element read through the list model: elements of a chunk list are pairwise distinct')])]},
                loops=[dict(fn='remove_blank_lines_between_imports', id=0, vars=['idx', 'num_chunks'], assigns='idx, Chunk_m_nlCount(NL_OTHER), CPD(changes)',
                            inv='idx <= num_chunks - 1 && num_chunks >= 2 && num_chunks == g_n && CPD(changes) >= %s && CPD(changes) <= %s + (long)idx && (idx > 0 ==> Chunk_m_nlCount(NL_OTHER) == 1) && (idx == 0 ==> Chunk_m_nlCount(NL_OTHER) == %s)' % ('__CPROVER_loop_entry(CPD(changes))', '__CPROVER_loop_entry(CPD(changes))', '__CPROVER_loop_entry(Chunk_m_nlCount(NL_OTHER))'),
                            decreases='num_chunks - idx')],
                functions=['sorting.cpp:remove_blank_lines_between_imports'], expect=['remove_blank_lines_between_imports_contract.postcondition', 'loop_invariant_step', 'assigns'],
                assumed=['the chunks of the array are pairwise distinct chunks of the list (model: the last one, and any other one)', 'Chunk::GetNextNl: the newline that ends the line of the import'],
                note='the frame IS the claim here: the newline after the last import is not in the assigns clause',
                mutants=[('also_after_the_last_import', r'idx < \(num_chunks - 1\)', 'idx < num_chunks', 'assigns|loop_invariant|postcondition')])
NEED_OPTIONS = True
PROOFS = output_proofs.select(['add_spaces', 'add_char', 'add_text_regular', 'add_text_ascii', 'output_to_column', 'cmt_output_indent', 'next_tab_column', 'calc_next_tab_column_ts*']) + tokenizer_proofs.select(['tokenize_strip']) + [outtext_proofs.iteration_proof(), end_proof.end_proof(), trim_proofs.trim_proof(), RMBLANK]
EXPLANATION = ('Kernel of C17: add_char() buffers blanks (cpd.spaces) and writes them only in front of a following character; a TAB after a blank is '
               'expanded to blanks when the effective indent_with_tabs (pp_indent_with_tabs inside a preprocessor line unless -1) is 0 and the text is not a literal; '
               'add_text(text) is exactly the sequence add_char(text[i]).')
K = ['K9 remove_blank_lines_between_imports (include grouping): only the newlines between two imports of a block are set to one line break; the newline after the last import (the end-of-file newline when the block ends the file) is not written', 'K8 tokenize() strip loop: the text of every chunk that is not disabled-region text ends without blank/tab (or in backslash + one blank, kept on purpose); only blanks/tabs are removed', 'K7 cmt_trim_whitespace: the comment line handed on never ends in a blank or a tab (inside a preprocessor line it may end in the continuation backslash)', 'K1 add_char: (a) blank buffered, nothing written; (b) visible char: pending blanks then the char; (c) LF: pending blanks then one line break; (d) blanks reach the sink only via add_spaces',
     'K2 tab-after-space guard uses the right option (pp variant only inside CT_PREPROC and unless -1)', 'K1e add_text == sequence of add_char calls',
     'K3 output_to_column(col, allow_tabs): reaches exactly max(old column, col), issues only non-literal blanks/tabs, tabs only if allow_tabs, and never a tab after a blank within the call',
     'K6 output_text (one iteration): first chunk of a line: output_to_column gets allow_tabs == false whenever the effective setting (pp_indent_with_tabs on preprocessor lines unless -1, else indent_with_tabs) is 0, tabs only up to the indent level for 1; blank-line indentation and backslash-newline columns likewise',
     'K7 uncrustify_end: per-file writer state is reset (did_newline, unc_off, in_preproc ...): the hygiene of a file does not depend on the file formatted before it',
     'K4 cmt_output_indent: same shape; with indent_cmt_with_tabs off and indent_with_tabs == 0 it issues blanks only']
G = ['"no output line ends in a blank" additionally needs: every add_char(LF) issued by output_text happens with cpd.spaces == 0 (needs the comment writers and the chunk texts; the dispatch itself is K6) and chunk texts do not end in blanks: K8',
     'newlines_eat_start_end (end-of-file policy): see C20',
     'comment writers and alignment passes choose columns; callers never end a line with TAB']
MACRO_HEADERS = ['output_macros.h']

sys.path.insert(0, os.path.join(os.path.dirname(os.path.abspath(__file__)), '..', '..', 'tools'))
import replay_lib  # noqa: E402
REPLAY = replay_lib.make_replay(replay_lib.scenario_whitespace_hygiene, replay_lib.scenario_blank_lines)


def static_facts(repo):
    return outtext_proofs.static_facts(repo)
