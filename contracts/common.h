/* Shared by all contract files (C).  Field access to C++ structs goes through generated offset
 * macros (gen/offsets_c.h); ghost state of the environment stubs is declared here. */
#ifndef VERIF_COMMON_H
#define VERIF_COMMON_H
#include "offsets_c.h"
typedef unsigned long size_t;
extern struct cp_data_t cpd;
#define CPD(f) cp_data_t_##f(&cpd)
/* byte sink (env/sink.h) */
extern size_t g_out_n, g_out_K;
extern int    g_out_at_K, g_out_last;
/* code-point sink (env/sink.h): the sequence of write_char() arguments */
extern size_t g_chs_n, g_chs_K;
extern int    g_chs_at_K, g_chs_last;
#define CHS_FRAME g_chs_n, g_chs_at_K, g_chs_last
/* contract of write_char as seen by its callers: appends exactly ch to the code-point sequence */
#define CHS_APPENDS_ONE(ch) (g_chs_n == __CPROVER_old(g_chs_n) + 1 && g_chs_last == (ch) \
      && ((g_chs_K == __CPROVER_old(g_chs_n)) ==> g_chs_at_K == (ch)) \
      && ((g_chs_K != __CPROVER_old(g_chs_n)) ==> g_chs_at_K == __CPROVER_old(g_chs_at_K)))
/* char_encoding_e (src/uncrustify_types.h) */
enum { ENC_ASCII = 0, ENC_BYTE = 1, ENC_UTF8 = 2, ENC_UTF16_LE = 3, ENC_UTF16_BE = 4 };
/* a well-formed container model: data points to cap elements, size <= cap.
 * short names: V8 = vector<UINT8>, D8 = deque<UINT8>, DI = deque<int> (renamed by desugaring rule D9) */
#define V8_size(v) vector_UINT8_m_size(v)
#define V8_cap(v)  vector_UINT8_m_cap(v)
#define V8_data(v) vector_UINT8_m_data(v)
#define D8_size(v) deque_UINT8_m_size(v)
#define D8_cap(v)  deque_UINT8_m_cap(v)
#define D8_data(v) deque_UINT8_m_data(v)
#define DI_size(v) deque_int_m_size(v)
#define DI_cap(v)  deque_int_m_cap(v)
#define DI_data(v) deque_int_m_data(v)
#define V8_FRESH(v) (__CPROVER_is_fresh((v), SIZEOF_vector_UINT8) && V8_cap(v) <= MAXCAP && V8_size(v) <= V8_cap(v) \
                     && __CPROVER_is_fresh(V8_data(v), V8_cap(v)))
#define D8_FRESH(v) (__CPROVER_is_fresh((v), SIZEOF_deque_UINT8) && D8_cap(v) <= MAXCAP && D8_size(v) <= D8_cap(v) \
                     && __CPROVER_is_fresh(D8_data(v), D8_cap(v)))
#define DI_FRESH(v) (__CPROVER_is_fresh((v), SIZEOF_deque_int) && DI_cap(v) <= MAXCAP && DI_size(v) <= DI_cap(v) \
                     && __CPROVER_is_fresh(DI_data(v), DI_cap(v) * sizeof(int)))
#define UT_chars(t) UncText_m_chars(t)
#define UT_size(t)  DI_size(UT_chars(t))
#define UT_at(t, i) (DI_data(UT_chars(t))[(i)])
#define UT_FRESH(t) (__CPROVER_is_fresh((t), SIZEOF_UncText) && DI_cap(UT_chars(t)) <= MAXCAP && DI_size(UT_chars(t)) <= DI_cap(UT_chars(t)) \
                     && __CPROVER_is_fresh(DI_data(UT_chars(t)), DI_cap(UT_chars(t)) * sizeof(int)))
/* the same for sub-objects that live inside an already fresh object (no is_fresh for the container itself) */
#define UT_FRESH_IN(t) (DI_cap(UT_chars(t)) <= MAXCAP && DI_size(UT_chars(t)) <= DI_cap(UT_chars(t)) \
                     && __CPROVER_is_fresh(DI_data(UT_chars(t)), DI_cap(UT_chars(t)) * sizeof(int)))
#define DI_FRESH_IN(v) (DI_cap(v) <= MAXCAP && DI_size(v) <= DI_cap(v) && __CPROVER_is_fresh(DI_data(v), DI_cap(v) * sizeof(int)))
#define V8_FRESH_IN(v) (V8_cap(v) <= MAXCAP && V8_size(v) <= V8_cap(v) && __CPROVER_is_fresh(V8_data(v), V8_cap(v)))
#define UNC_LOWER(c) (((c) >= 'A' && (c) <= 'Z') ? (char)((c) + 32) : (c))
/* modelled capacity bound: any value up to 2^40 elements (CBMC object size limit is 2^55 bytes) */
#define MAXCAP (1UL << 40)
#endif
