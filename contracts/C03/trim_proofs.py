"""Proof of the comment-line trimmer cmt_trim_whitespace (C03-K3, C17-K4)."""
import os
import sys
sys.path.insert(0, os.path.join(os.path.dirname(os.path.abspath(__file__)), '..', '..', 'tools'))
from prover import Proof  # noqa: E402

E = lambda x: '__CPROVER_loop_entry(%s)' % x
SZ = 'UT_size(line)'
BL = "(g_oldJ == ' ' || g_oldJ == '\\t')"
LOOPS = [
    # strip trailing blanks: every position at or above the current size held a blank
    dict(fn='cmt_trim_whitespace', id=0, vars=['line'], assigns=SZ,
         inv='%s <= %s && ((g_J >= %s && g_J < %s) ==> %s)' % (SZ, E(SZ), SZ, E(SZ), BL),
         decreases=SZ),
    # blanks before the continuation backslash: do_space says whether one was seen
    dict(fn='cmt_trim_whitespace', id=1, vars=['line', 'do_space'], assigns=SZ + ', do_space',
         inv='%s <= %s && ((g_J >= %s && g_J < %s) ==> %s) && (do_space ? %s < %s : %s == %s)' % (SZ, E(SZ), SZ, E(SZ), BL, SZ, E(SZ), SZ, E(SZ)),
         decreases=SZ),
]


def trim_proof():
    return Proof('cmt_trim_whitespace', impl='contracts/C03/trim.impl.cpp', spec='contracts/C03/trim.spec.c', harness='h_cmt_trim_whitespace',
                 enforce='cmt_trim_whitespace/cmt_trim_whitespace_contract', canaries=2, loops=LOOPS,
                 functions=['output.cpp:cmt_trim_whitespace', 'unc_text.cpp:UncText::size', 'unc_text.cpp:UncText::back', 'unc_text.cpp:UncText::pop_back'],
                 assumed=['UncText::append(int): the character is appended to m_chars (m_logtext, the log copy, is not modelled)'],
                 expect=['cmt_trim_whitespace_contract.postcondition', 'loop_invariant_step', 'loop_decreases'],
                 mutants=[('backslash_only_after_blank', r"if \(do_space\)\n      \{\n         line\.append\(' '\);\n      \}\n      line\.append\('\\\\'\);", "if (do_space)\n      {\n         line.append(' ');\n         line.append('\\\\\\\\');\n      }", 'postcondition'),
                          ('tabs_not_trimmed', r"&& \(  line\.back\(\) == ' '\n            \|\| line\.back\(\) == '\\t'\)\)\n   \{\n      line\.pop_back\(\);\n   \}\n\n   // Shift", "&& (  line.back() == ' '))\n   {\n      line.pop_back();\n   }\n\n   // Shift", 'postcondition'),
                          ('eats_text_before_backslash', r"line\.pop_back\(\);\n\n      while", "line.pop_back();\n      line.pop_back();\n\n      while", 'postcondition')])
