"""C03 Comments and literals survive intact -- literal half only (writer kernel of output.cpp)."""
import os
import sys
sys.path.insert(0, os.path.join(os.path.dirname(os.path.abspath(__file__)), '..', 'shared'))
import output_proofs  # noqa: E402
import outtext_proofs  # noqa: E402
import tokenizer_proofs  # noqa: E402
import nlguard_proofs  # noqa: E402
sys.path.insert(0, os.path.dirname(os.path.abspath(__file__)))
import trim_proofs  # noqa: E402
NEED_OPTIONS = True
PROOFS = output_proofs.select(['add_text_regular', 'add_char', 'add_spaces']) + tokenizer_proofs.select(['tokenize_strip', 'tag_compare']) + [outtext_proofs.iteration_proof()] + nlguard_proofs.all_proofs() + [trim_proofs.trim_proof()]
EXPLANATION = ('Literal half of C03: add_text(text, false, is_literal) calls add_char(text[i], is_literal) for every i in order (loop closed by invariant); '
               'add_char with is_literal and output_tab_as_space off writes every character other than CR/LF unchanged (a TAB after a blank is not expanded), '
               'blanks are buffered and flushed unchanged in front of the next character.')
K = ['K6 tag_compare: the closing delimiter of a raw string literal R"tag(...)tag" is accepted only if it equals the opening one at every position', 'K5 tokenize() strip loop: stripping trailing blanks of a token (a // comment, a preprocessor body) never leaves a backslash as its last character (the next source line would be swallowed by the comment); only blanks/tabs are removed', 'K4 cmt_trim_whitespace (every comment line passes through it): only trailing blanks/tabs are dropped, the text before them is kept position by position, and inside a preprocessor line the continuation backslash stays last', 'K1 add_text(…, is_literal) == sequence of add_char(text[i], is_literal)', 'K1b add_char(ch, literal): pending blanks then ch itself; no tab expansion when is_literal and !output_tab_as_space',
     'K3 newline deletion guard (a comment never swallows the code after it): SafeToDeleteNl() is false for the newline that ends a // comment; convert_brace() and the class/constructor-colon pass respect it',
     'K2 output_text (one iteration): a chunk with text is written by exactly one add_text(str, false, is_literal = Is(CT_STRING)) with cpd.output_tab_as_space == false; each comment chunk goes to the comment writer of its type exactly once']
G = ['no pass rewrites m_str of string chunks', 'comment half (output_comment_*, add_comment_text, cmt_reflow: std::wregex, std::map) is out of reach of the C++ front end: NOT covered, except the line trimmer cmt_trim_whitespace (K4)',
     'parse_string / parse_cr_string / parse_comment capture the full text: not under contract']
MACRO_HEADERS = ['output_macros.h']

sys.path.insert(0, os.path.join(os.path.dirname(os.path.abspath(__file__)), '..', '..', 'tools'))
import replay_lib  # noqa: E402
REPLAY = replay_lib.make_replay(replay_lib.scenario_raw_string_delimiter, replay_lib.scenario_encoding, replay_lib.scenario_whitespace_hygiene)


def static_facts(repo):
    return outtext_proofs.static_facts(repo)
