/* Contract of cmt_trim_whitespace() (src/output.cpp): the function every comment line passes through before it is written.
 *  C03 "Comments ... survive intact": only trailing blanks/tabs are dropped from a comment line; inside a preprocessor line the line-continuation
 *      backslash stays the last character (otherwise the rest of the comment falls out of the macro).
 *  C17 "no trailing whitespace": the line handed on does not end in a blank or a tab.
 * "For every position": g_J is an arbitrary position of the old line, g_K an arbitrary position of the new one; g_oldJ / g_oldK are the characters there on entry. */
#include "common.h"
size_t g_J, g_K; int g_oldJ, g_oldK;
#define BLANK(c) ((c) == ' ' || (c) == '\t')
#define L_SIZE UT_size(line)
#define L_AT(i) UT_at(line, (i))
void cmt_trim_whitespace_contract(struct UncText *line, _Bool in_preproc)
__CPROVER_requires(UT_FRESH(line))
__CPROVER_requires(g_J < L_SIZE && g_oldJ == L_AT(g_J) && g_K < L_SIZE && g_oldK == L_AT(g_K))
__CPROVER_assigns(L_SIZE, __CPROVER_object_whole(DI_data(UT_chars(line))))
/* the line never grows */
__CPROVER_ensures(L_SIZE <= __CPROVER_old(L_SIZE))
/* C17: no trailing blank or tab is handed on */
__CPROVER_ensures(L_SIZE == 0 || !BLANK(L_AT(L_SIZE - 1)))
/* C03: everything but the last two characters is the old text, position by position */
__CPROVER_ensures(g_K + 2 < L_SIZE ==> L_AT(g_K) == g_oldK)
/* C03: every character that was dropped is a blank or a tab - or the continuation backslash, and then the new line still ends in one */
__CPROVER_ensures(g_J >= L_SIZE ==> (BLANK(g_oldJ) || (g_oldJ == '\\' && in_preproc && L_SIZE > 0 && L_AT(L_SIZE - 1) == '\\')))
/* outside a preprocessor line nothing is ever rewritten: the result is a prefix of the old line */
__CPROVER_ensures((!in_preproc && g_K < L_SIZE) ==> L_AT(g_K) == g_oldK)
/* if the continuation backslash was set off by blanks, one blank is kept before it */
__CPROVER_ensures((in_preproc && L_SIZE >= 2 && L_SIZE < __CPROVER_old(L_SIZE) && L_AT(L_SIZE - 1) == '\\' && g_K == L_SIZE - 2) ==> (L_AT(g_K) == ' ' || L_AT(g_K) == g_oldK))
;
void w_cmt_trim_whitespace(struct UncText *line, _Bool in_preproc);
_Bool nondet_bool(void);
void h_cmt_trim_whitespace(void)
{
   struct UncText *line; _Bool pp = nondet_bool();
   w_cmt_trim_whitespace(line, pp);
   /* (the object made by is_fresh belongs to the checked call: the harness can only look at the ghosts) */
   if (pp && g_J > 3) { __CPROVER_assert(0, "VACUITY_CANARY trim: inside preprocessor"); }
   if (!pp && g_K > 3) { __CPROVER_assert(0, "VACUITY_CANARY trim: outside preprocessor"); }
}
