// Translation unit for the comment-line trimmer (C03-K3, C17-K4): cmt_trim_whitespace() (src/output.cpp), whole function, with the real
// UncText::size / back / pop_back (src/unc_text.cpp) sliced verbatim.  UncText::append(int) is an environment model: the character is
// appended to m_chars (the real one also maintains m_logtext, the UTF-8 copy used for log messages only, which is not modelled).
#include "token_enum.h"      /* from the working tree: -I <repo>/src */
#define VERIF_E_TOKEN
#include "base.h"
#include "containers.h"
#include "unctext.h"
//@slice src/unc_text.cpp fn UncText::size
//@slice src/unc_text.cpp fn UncText::back
//@slice src/unc_text.cpp fn UncText::pop_back
void UncText::append(int ch) { m_chars.push_back(ch); }
// append of a short literal (up to three characters), without a loop
void UncText::append(const char *t)
{
   if (t[0] == 0) { return; }
   m_chars.push_back(t[0]);
   if (t[1] == 0) { return; }
   m_chars.push_back(t[1]);
   if (t[2] == 0) { return; }
   m_chars.push_back(t[2]);
   VASSERT(t[3] == 0, "model: a literal of at most three characters is appended");
}
extern "C" {
//@slice src/output.cpp fn cmt_trim_whitespace
void w_cmt_trim_whitespace(UncText *line, bool in_preproc) { cmt_trim_whitespace(*line, in_preproc); }
}
#include "offsets_cpp.h"
#define CANARY(msg) __CPROVER_assert(0, "VACUITY_CANARY " msg)
