// Translation unit for the tail of main() (C12-K6): src/uncrustify.cpp from `clear_keyword_file();` to the end of main(),
// sliced verbatim as a fragment and wrapped into a function of its own.  What the extraction drops: everything of main() before it.
#include "token_enum.h"      /* from the working tree: -I <repo>/src */
#define VERIF_E_TOKEN
#include "base.h"
#include "containers.h"
#include "unctext.h"
#include "cpd.h"
#define EXIT_FAILURE 1
#define EXIT_SUCCESS 0
extern "C" {
unsigned g_ckf_calls;
void clear_keyword_file() { g_ckf_calls++; }
int main_tail()
{
//@slice src/uncrustify.cpp frag main_tail /^   clear_keyword_file\(\);$/ /^\} \/\/ main$/
}
#include "offsets_cpp.h"
