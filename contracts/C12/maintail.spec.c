/* The exit status of a --check run (C12): "--check exits 0 exactly when every given file would be reproduced byte-for-byte by
 * formatting, exits non-zero otherwise" - given that cpd.check_fail_cnt counts the files that differ (proved on uncrustify_file). */
#include "common.h"
int main_tail(void);
_Bool nondet_bool(void);
void h_main_tail(void)
{
   __CPROVER_havoc_object(&cpd);
   _Bool chk = CPD(do_check);
   int fails = CPD(check_fail_cnt);
   int rc = main_tail();
   __CPROVER_assert((rc != 0) == (chk && fails != 0), "postcondition: main exit status is non-zero exactly when --check found a differing file");
   __CPROVER_assert(rc == 0 || rc == 1, "postcondition: main exit status is EXIT_SUCCESS or EXIT_FAILURE here");
   if (rc != 0) { __CPROVER_assert(0, "VACUITY_CANARY main tail: check failed"); } else { __CPROVER_assert(0, "VACUITY_CANARY main tail: success"); }
}
