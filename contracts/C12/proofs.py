"""C12 --check and --if-changed tell the truth and write nothing they should not."""
import os
import sys
here = os.path.dirname(os.path.abspath(__file__))
sys.path.insert(0, os.path.join(here, '..', 'fileio'))
import fileio_proofs  # noqa: E402
sys.path.insert(0, os.path.join(here, '..', 'shared'))
import end_proof  # noqa: E402
import importlib.util  # noqa: E402
spec = importlib.util.spec_from_file_location('c09proofs', os.path.join(here, '..', 'C09', 'proofs.py'))
c09 = importlib.util.module_from_spec(spec)
spec.loader.exec_module(c09)
NEED_OPTIONS = True
sys.path.insert(0, os.path.join(here, '..', '..', 'tools'))
from prover import Proof  # noqa: E402
_MT = Proof('main_tail', impl='contracts/C12/maintail.impl.cpp', spec='contracts/C12/maintail.spec.c', harness='h_main_tail', plain=True, no_contract=True, canaries=2,
            rules={}, expect=['postcondition: main exit status'], functions=['uncrustify.cpp:main (tail fragment: exit status)'], extern_c=False,
            mutants=[('always_success', r'return\(EXIT_FAILURE\);', 'return(EXIT_SUCCESS);', 'postcondition'),
                     ('fails_without_check', r'if \(  cpd.do_check\n      && cpd.check_fail_cnt != 0\)', 'if (cpd.check_fail_cnt != 0)', 'postcondition')])
PROOFS = [fileio_proofs.bcm_proof(), fileio_proofs.dsf_proof(), end_proof.end_proof(), _MT] + [p for p in c09.PROOFS if p.name == 'write_byte_bout']
EXPLANATION = ('Kernel of C12: bout_content_matches() is true exactly when the captured output equals the input byte for byte (both directions, arbitrary '
               'index) and reports PASS/FAIL consistently; write_byte() appends to cpd.bout and writes nothing else when cpd.fout is NULL; do_source_file() '
               'performs no file-system modifying call under --check, and none under --if-changed when the comparison says unchanged.')
K = ['K3 uncrustify_file: check_fail_cnt incremented exactly when --check and the buffers differ', 'K1 bout_content_matches: true <=> byte-equal; one PASS or FAIL line consistent with the result', 'K2 write_byte capture branch', 'K6 main() (tail): the exit status is non-zero exactly when --check is on and check_fail_cnt != 0', 'K5 uncrustify_end: the capture buffer cpd.bout is emptied after every file (a file\'s comparison never sees bytes of the previous file)',
     'K4 do_source_file: --check => zero fs writes; --if-changed && unchanged => zero fs writes (early return)']
G = ['main() rejects --check with output options / --if-changed (call-site precondition of do_source_file_contract; the argument handling of main is not under contract)',
     'cpd.bout really holds what output_text wrote: every byte goes through write_byte (C09 static fact)',
     'files are smaller than 2 GiB (int loop index in bout_content_matches)',
     '--if-changed writes exactly *cpd.bout: the fputc loop in do_source_file is covered for frame/termination only, not for content']


def proofs(tier, workroot):
    """static list + the driver proof (uncrustify_file: shared with C04; its pass stubs are generated per run)"""
    import importlib.util
    here = os.path.dirname(os.path.abspath(__file__))
    sp = importlib.util.spec_from_file_location('c04proofs', os.path.join(here, '..', 'C04', 'proofs.py'))
    c04 = importlib.util.module_from_spec(sp)
    sp.loader.exec_module(c04)
    return list(PROOFS) + [q for q in c04.proofs(tier, workroot) if q.name == 'uncrustify_file']      # only the driver proof (C04's own kernels stay with C04)

sys.path.insert(0, os.path.join(os.path.dirname(os.path.abspath(__file__)), '..', '..', 'tools'))
import replay_lib  # noqa: E402
REPLAY = replay_lib.make_replay(replay_lib.scenario_check_truth)
