"""C08 Line endings: one consistent terminator.
Writer kernel (output.cpp add_char/add_spaces: the single line-break writer) + tokenizer census, choice of
cpd.newline and whole-terminator consumption (tokenize.cpp)."""
import os
import sys
sys.path.insert(0, os.path.join(os.path.dirname(os.path.abspath(__file__)), '..', 'shared'))
import output_proofs  # noqa: E402
import tokenizer_proofs  # noqa: E402
import outtext_proofs  # noqa: E402
import end_proof  # noqa: E402
NEED_OPTIONS = True
PROOFS = (output_proofs.select(['add_spaces', 'add_char', 'next_tab_column', 'calc_next_tab_column_ts*']) +
          tokenizer_proofs.select(['tok_layout', 'parse_whitespace', 'parse_newline', 'parse_bs_newline', 'parse_off_newlines', 'tokenize_tail']) + [outtext_proofs.iteration_proof(), end_proof.end_proof()])
EXPLANATION = ('Kernel of C08. Output side: add_char() is proved (full functional contract, recursion and both tab-expansion loops closed) never to '
               'hand CR or LF to write_char; every line break is exactly one write_string(cpd.newline); a lone CR and a CR LF pair each give one break. '
               'Input side: parse_whitespace() counts LF / CR LF / lone CR terminators exactly (ghost-index census), the tail of tokenize() selects '
               'cpd.newline from the newlines option or the census (ties LF > CRLF > CR), parse_newline()/parse_bs_newline() consume whole terminators.')
K = ['K1 add_char/add_spaces: no raw CR/LF reaches write_char; LF -> pending blanks + one NL item; CR -> nothing; lone CR -> one NL item',
     'K2 parse_whitespace census of LF / CRLF / CR', 'K3 tokenize() tail: choice of cpd.newline', 'K4 parse_newline / parse_bs_newline / parse_off_newlines consume whole terminators',
     'K6 output_text (one iteration): a CT_NEWLINE chunk is exactly nl_count add_char(LF) calls, a CT_NL_CONT chunk is add_char(backslash) then add_char(LF); nothing but add_char writes a line break from output_text',
     'K7 uncrustify_end: the terminator census cpd.le_counts is cleared after every file, and nowhere else in between (newlines=auto counts this file only)',
     'K5 tab stops: calc_next_tab_column for each tab size 1..32, columns < 2^32']
G = ['comment writers (output_comment_*) pass comment-internal CR/LF through add_char and never hand a TAB to add_char directly after a CR (call-site precondition of add_char_contract)',
     'add_text(is_ignored=true) bypasses add_char; sound for C08 only because ignored chunks contain no CR/LF (parse_ignored line path, not yet under contract)',
     'format(convert(x)) == format(x): no pass looks at terminator bytes (chunks carry nl_count only) - true by construction, not proved',
     'write_char/write_string: byte-level meaning proved under C09; here they are the code-point-sink contracts',
     'HTML line numbering (set_numbering_for_html_output) is off: precondition !numbering_status of add_char_contract',
     'lines have fewer than 65000 pending blanks and columns stay below 2^31 (UINT16 cpd.spaces would wrap beyond that: a real limitation of the code)',
     'next_tab_column is treated as the uninterpreted function NTC of (col, output_tab_size, cpd.frag_cols); its purity is argued from its empty assigns clause (proved) and by reading its 3-line body']
MACRO_HEADERS = ['output_macros.h', 'tokenizer_macros.h']

sys.path.insert(0, os.path.join(os.path.dirname(os.path.abspath(__file__)), '..', '..', 'tools'))
import replay_lib  # noqa: E402
REPLAY = replay_lib.make_replay(replay_lib.scenario_line_endings, replay_lib.scenario_whitespace_hygiene)


def static_facts(repo):
    return outtext_proofs.static_facts(repo)
