// Translation unit for the re-split of a lambda's `[]` (C19-K5): the fragment of handle_cpp_lambda() (src/tokenizer/combine.cpp) that turns the one-chunk
// CT_TSQUARE `[]` / `[ ]` into CT_SQUARE_OPEN + CT_SQUARE_CLOSE, sliced verbatim (from `if (sq_o->Is(CT_TSQUARE))` to `sq_o->SetParentType(CT_CPP_LAMBDA);`) and wrapped
// into a function of the chunk.  What the extraction drops: the rest of handle_cpp_lambda().  Direct verification conditions, loop free.
#include "token_enum.h"      /* from the working tree: -I <repo>/src */
#define VERIF_E_TOKEN
#include "base.h"
#include "containers.h"
#include "unctext.h"
#include "cpd.h"
#include "chunk.h"
#include "logger.h"
static Chunk g_sq, g_new, g_null_chunk;
Chunk *const Chunk::NullChunkPtr = &g_null_chunk;
extern "C" { unsigned g_added_n; }
void UncText::resize(size_t) { }
void UncText::pop_front() { }
UncText &UncText::operator=(const UncText &ref) { return(*this); }     // (the text of the copy is not tracked)
Chunk *Chunk::CopyAndAddAfter(Chunk *pos) const
{
   g_added_n++;
   VASSERT(pos == &g_sq, "the closing bracket is added directly after the opening one");
   g_new.m_type = m_type; g_new.m_origCol = m_origCol; g_new.m_origColEnd = m_origColEnd; g_new.m_column = m_column; g_new.m_origLine = m_origLine; g_new.m_level = m_level; g_new.m_flags = m_flags;
   return &g_new;
}
//@slice src/chunk.h fn Chunk::Is
//@slice src/chunk.h fn Chunk::GetType
//@slice src/chunk.h fn Chunk::Str
//@slice src/chunk.h fn Chunk::GetOrigCol
//@slice src/chunk.h fn Chunk::SetOrigCol
//@slice src/chunk.h fn Chunk::GetOrigColEnd
//@slice src/chunk.h fn Chunk::SetOrigColEnd
//@slice src/chunk.h fn Chunk::SetColumn
//@slice src/chunk.cpp fn Chunk::SetType
//@slice src/chunk.cpp fn Chunk::SetParentType
extern "C" {
Chunk *split_lambda_square(Chunk *sq_o)
{
   Chunk *sq_c = Chunk::NullChunkPtr;
//@slice src/tokenizer/combine.cpp frag split_lambda_square /^   if \(sq_o->Is\(CT_TSQUARE\)\)$/ /^   sq_o->SetParentType\(CT_CPP_LAMBDA\);$/
   return(sq_c);
}
extern Chunk *const SQ = &g_sq; extern Chunk *const NEWC = &g_new; extern Chunk *const PN = &g_null_chunk;
extern const unsigned CT_TSQUARE_V = CT_TSQUARE, CT_SQUARE_OPEN_V = CT_SQUARE_OPEN, CT_SQUARE_CLOSE_V = CT_SQUARE_CLOSE;
}
#include "offsets_cpp.h"
