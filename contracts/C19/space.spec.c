/* Contract for do_space() (C19-K1), taken from the statement of property C19:
 * "The value applied is the value configured for the very option named, not for another one." */
#include "common.h"
#include "space_c.h"
extern struct Chunk *const P0, *const P1, *const P2, *const P3, *const PN;
extern int g_rule_id, g_rule_count;
extern _Bool restoreValues;
enum { IARF_IGNORE_I = 0, IARF_ADD_I = 1, IARF_REMOVE_I = 2, IARF_FORCE_I = 3 };
#define CHUNK_OK(p) (!Chunk_m_nullChunk(p) && UT_FRESH_IN(Chunk_m_str(p)))
/* exceptions the property allows ("...except where the two tokens written without a space would lex differently"):
 * the configured value with the ADD bit forced, or REMOVE weakened to IGNORE, only for these rules */
#define MAY_FORCE_ADD(id) ((id) == RULE_sp_case_label || (id) == RULE_sp_macro || (id) == RULE_sp_macro_func || (id) == RULE_sp_return \
                           || (id) == RULE_sp_after_type || (id) == RULE_sp_type_func \
                           || (id) == RULE_sp_before_ellipsis /* 'case 1 ... 3': 1...3 would be one pp-number */)
#define MAY_WEAKEN_REMOVE(id) ((id) == RULE_sp_inside_angle)
/* recorded known finding (known_findings.txt): sp_bool gets the ADD bit when pos_bool != ignore and the two tokens were on
 * different input lines. The state predicate of that deviation; every other state of rule sp_bool is checked strictly. */
#define KNOWN_DEV(id) ((id) == RULE_sp_bool && optv_pos_bool != 0 && Chunk_m_origLine(P0) != Chunk_m_origLine(P1))
int do_space_contract(struct Chunk *first, struct Chunk *second, int *min_sp)
__CPROVER_requires(first == P0 && second == P1 && __CPROVER_is_fresh(min_sp, sizeof(int)))
__CPROVER_requires(CHUNK_OK(P0) && CHUNK_OK(P1) && CHUNK_OK(P2) && CHUNK_OK(P3) && Chunk_m_nullChunk(PN) && UT_FRESH_IN(Chunk_m_str(PN)))
/* the property's "in-range configuration": every IARF option holds one of ignore/add/remove/force */
__CPROVER_requires(ALL_IARF_IN_RANGE && OPT_RANGE_pos_bool && OPT_RANGE_pos_constr_comma)
__CPROVER_requires(g_rule_count == 0)
__CPROVER_assigns(*min_sp, g_rule_id, g_rule_count, restoreValues, Chunk_m_type(P0), Chunk_m_type(P1), Chunk_m_type(P2), Chunk_m_type(P3))
/* the decision is one of the four values */
__CPROVER_ensures(__CPROVER_return_value >= 0 && __CPROVER_return_value <= 3)
/* a rule is always reported */
__CPROVER_ensures(g_rule_count >= 1)
/* attribution, one clause per IARF option (generated): if the rule reported is option X, the value returned is X's value.
 * Rules with a recorded known deviation (contracts/C19/known_dev_rules.txt) have two clauses: the general one (expected to fail,
 * matched against known_findings.txt) and a strict one restricted to states outside the recorded deviation (KNOWN_DEV). */
ATTRIBUTION_ENSURES_MAIN
#ifndef NO_KNOWN_CLAUSES
ATTRIBUTION_ENSURES_KNOWN
#endif
;

#ifdef PLAIN_VC
/* ---- the same contract as a direct verification condition: assume requires; call the real function; assert ensures ----
 * (no goto-instrument pass: DFCC's write-set instrumentation of the ~3000 inlined accessor calls of do_space makes the
 * formula 20x larger - 66M clauses, 12 min - which does not fit a check run on every change; the DFCC-enforced form of
 * the contract above, frame included, is proof do_space_dfcc of the thorough tier).  Not checked here: the assigns clause.
 * Loops: the three table scans are unwound completely and the two chunk walks are bounded by the environment (every chunk
 * has finitely many successors: navigation fuel, see space.impl.cpp), all under --unwinding-assertions. */
void *malloc(unsigned long);
unsigned long nondet_ul(void);
int w_do_space(struct Chunk *first, struct Chunk *second, int *min_sp);
extern unsigned g_fwd_fuel;
static void mk_chunk(struct Chunk *p, _Bool isnull)
{
   Chunk_m_nullChunk(p) = isnull;
   unsigned long cap = nondet_ul();
   __CPROVER_assume(cap <= MAXCAP && DI_size(UT_chars(Chunk_m_str(p))) <= cap);
   DI_cap(UT_chars(Chunk_m_str(p))) = cap;
   DI_data(UT_chars(Chunk_m_str(p))) = malloc(cap * sizeof(int));
   __CPROVER_assume(DI_data(UT_chars(Chunk_m_str(p))) != (int *)0);
}
static int vc_r;
#undef __CPROVER_return_value
#define __CPROVER_return_value vc_r
#undef __CPROVER_ensures
#define __CPROVER_ensures(c) __CPROVER_assert(c, "postcondition: do_space " #c);
extern struct Chunk *g_first_prev; extern const unsigned CT_VBRACE_OPEN_V; _Bool c02_word_before_vbrace(unsigned), c02_word_after_vbrace(unsigned);
void h_do_space_vc(void)
{
   int msp;
   /* every attribute of every chunk is arbitrary (the C++ constructors of the pool objects have run before: undo them) */
   __CPROVER_havoc_object(P0);      /* the whole pool array */
   __CPROVER_havoc_object(PN);
   mk_chunk(P0, 0); mk_chunk(P1, 0); mk_chunk(P2, 0); mk_chunk(P3, 0); mk_chunk(PN, 1);
   __CPROVER_assume(ALL_IARF_IN_RANGE && OPT_RANGE_pos_bool && OPT_RANGE_pos_constr_comma && g_rule_count == 0 && g_fwd_fuel <= 6 && g_first_prev == 0);
   vc_r = w_do_space(P0, P1, &msp);
   __CPROVER_ensures(vc_r >= 0 && vc_r <= 3)
   __CPROVER_ensures(g_rule_count >= 1)
#ifndef C02_CLAUSE_ONLY
   ATTRIBUTION_ENSURES_MAIN
   ATTRIBUTION_ENSURES_KNOWN
#endif
   /* C02 ("no two tokens fuse"): a virtual open brace is empty and the fusion guard of space_text() compares a chunk only with its direct successor, so between a brace-less
    * else/do and the word that starts its statement nothing but do_space(vbrace, word) keeps the blank: it must never answer REMOVE there */
   __CPROVER_assert(!(Chunk_m_type(P0) == CT_VBRACE_OPEN_V && g_first_prev != 0 && c02_word_before_vbrace(Chunk_m_type(g_first_prev)) && c02_word_after_vbrace(Chunk_m_type(P1))) || vc_r != 2,
                    "postcondition: do_space C02 the word after a brace-less else/do is never glued to it (no REMOVE across the empty virtual brace)");
   if (Chunk_m_type(P0) == CT_VBRACE_OPEN_V && g_first_prev != 0 && c02_word_before_vbrace(Chunk_m_type(g_first_prev)) && c02_word_after_vbrace(Chunk_m_type(P1))) { __CPROVER_assert(0, "VACUITY_CANARY do_space: word after brace-less else"); }
   if (g_rule_id == RULE_sp_arith) { __CPROVER_assert(0, "VACUITY_CANARY do_space: rule sp_arith reachable"); }
   if (g_rule_id == 0) { __CPROVER_assert(0, "VACUITY_CANARY do_space: non-option rule reachable"); }
   if (g_rule_id == RULE_sp_before_semi) { __CPROVER_assert(0, "VACUITY_CANARY do_space: rule sp_before_semi reachable"); }
}
#endif
