// Translation unit for do_space() (C19-K1): the real 3400-line decision function of src/space.cpp, verbatim,
// executed once symbolically: every Chunk attribute is unconstrained, chunk navigation returns arbitrary members
// of a small pool, every option value is any value of its range.  log_rule("name") records the rule id (D10).
#include "token_enum.h"      /* from the working tree: -I <repo>/src */
#define VERIF_E_TOKEN
#include "base.h"
#include "containers.h"
#include "unctext.h"
#include "cpd.h"
#include "chunk.h"
#include "logger.h"
//@slice src/option.h struct iarf_e
//@slice src/option.h struct line_end_e
//@slice src/option.h struct token_pos_e
//@slice src/language_names.h struct lang_flag_e
#include "options_gen.h"
#include "space_gen.h"
using namespace uncrustify;
// value aliases of the generated src/option_enum.h, and the flag operators of UNC_DECLARE_OPERATORS_FOR_FLAGS(iarf_flags_t)
typedef iarf_e iarf_flags_t;   // flags<iarf_e> of src/enum_flags.h: a thin wrapper around the enum's integer value
inline iarf_e operator|(iarf_e a, iarf_e b) { return (iarf_e)((int)a | (int)b); }
inline iarf_e operator&(iarf_e a, iarf_e b) { return (iarf_e)((int)a & (int)b); }
inline bool operator!=(iarf_e a, int b) { return (int)a != b; }
extern "C" {
// src/options_for_QT.h
bool QT_SIGNAL_SLOT_found; size_t QT_SIGNAL_SLOT_level; bool restoreValues;
int g_rule_id;      // ghost: id of the last rule logged
int g_rule_count;   // ghost: number of rules logged
}
#define log_rule_id(id) do_log_rule(id)
static inline void do_log_rule(int id) { g_rule_id = id; g_rule_count++; }
// ---- nondeterministic environment of do_space ----
static Chunk g_pool[4];
static Chunk g_null_chunk;
Chunk *const Chunk::NullChunkPtr = &g_null_chunk;
static Chunk *any_chunk() { unsigned k = nondet_uint(); return (k < 4) ? &g_pool[k] : &g_null_chunk; }
#ifdef PLAIN_VC
// every chunk has finitely many successors: forward navigation reaches the NullChunk sentinel after g_fwd_fuel steps
// (the harness leaves g_fwd_fuel arbitrary up to 6; the successor returned is an arbitrary chunk, unrelated to `this`, so a
// walk of any length reaches the same set of states as a walk of one or two steps)
extern "C" { unsigned g_fwd_fuel; }
static Chunk *fwd_chunk() { if (g_fwd_fuel == 0) { return &g_null_chunk; } g_fwd_fuel--; return any_chunk(); }
#else
#define fwd_chunk any_chunk
#endif
Chunk *Chunk::GetNext(const E_Scope) const { return fwd_chunk(); }
#ifdef PLAIN_VC
// GetPrev() of the first chunk of the pair is a function of the list: the same chunk every time it is asked for (recorded for the C02 clause)
extern "C" { Chunk *g_first_prev; }
Chunk *Chunk::GetPrev(const E_Scope) const { if (this == &g_pool[0]) { if (g_first_prev == 0) { g_first_prev = any_chunk(); } return g_first_prev; } return any_chunk(); }
#else
Chunk *Chunk::GetPrev(const E_Scope) const { return any_chunk(); }
#endif
Chunk *Chunk::GetNextNc(const E_Scope) const { return fwd_chunk(); }
Chunk *Chunk::GetNextNcNnl(const E_Scope) const { return fwd_chunk(); }
Chunk *Chunk::GetPrevNcNnl(const E_Scope) const { return any_chunk(); }
Chunk *Chunk::GetPrevType(const E_Token, int, E_Scope) const { return any_chunk(); }
Chunk *Chunk::GetOpeningParen(E_Scope) const { return any_chunk(); }
bool Chunk::IsString(const char *, bool) const { return nondet_bool(); }
bool Chunk::TestFlags(unsigned long f) const { return (m_flags & f) == f; }   // flags<>::test of src/enum_flags.h
namespace CharTable { static inline bool IsKw1(size_t) { return nondet_bool(); } static inline bool IsKw2(size_t) { return nondet_bool(); } }
static bool token_is_within_trailing_return(Chunk *) { return nondet_bool(); }
extern "C" int strcmp(const char *, const char *) { return nondet_int(); }
#define snprintf(...) ((void)0)
//@slice src/language_tools.cpp fn language_is_set
//@slice src/chunk.h fn Chunk::Is
//@slice src/chunk.h fn Chunk::IsNot
//@slice src/chunk.h fn Chunk::GetType
//@slice src/chunk.h fn Chunk::GetParentType
//@slice src/chunk.h fn Chunk::IsComment nth=0
//@slice src/chunk.h fn Chunk::IsParenOpen
//@slice src/chunk.h fn Chunk::IsParenClose
//@slice src/chunk.h fn Chunk::GetLevel
//@slice src/chunk.h fn Chunk::GetOrigCol
//@slice src/chunk.h fn Chunk::GetOrigLine
//@slice src/chunk.h fn Chunk::GetOrigPrevSp
//@slice src/chunk.cpp fn Chunk::SetType
//@slice src/unc_text.cpp fn UncText::size
//@slice src/unc_text.cpp fn UncText::operator[]
#include "add_space_table.h"   /* from the working tree: -I <repo>/src */
extern "C" {
//@slice src/space.cpp fn do_space
int w_do_space(Chunk *first, Chunk *second, int *min_sp) { return (int)do_space(first, second, *min_sp); }
}
#include "offsets_cpp.h"
#define CANARY(msg) __CPROVER_assert(0, "VACUITY_CANARY " msg)
extern "C" {
extern const unsigned long N_IGNORE = sizeof(IGNORE_space_table) / sizeof(IGNORE_space_table[0]);
extern const unsigned long N_NOSPACE = sizeof(no_space_table) / sizeof(no_space_table[0]);
extern const unsigned long N_ADDSPACE = sizeof(add_space_table) / sizeof(add_space_table[0]);
extern Chunk *const P0 = &g_pool[0]; extern Chunk *const P1 = &g_pool[1]; extern Chunk *const P2 = &g_pool[2]; extern Chunk *const P3 = &g_pool[3]; extern Chunk *const PN = &g_null_chunk;
#ifdef PLAIN_VC
// C02 clause: token types whose text is a word (begins and ends with an identifier character) whatever the input: keywords and identifiers
bool c02_word_before_vbrace(unsigned t) { return(t == CT_ELSE || t == CT_DO); }
bool c02_word_after_vbrace(unsigned t)
{
   switch ((E_Token)t)
   {
   case CT_WORD: case CT_TYPE: case CT_NUMBER: case CT_RETURN: case CT_GOTO: case CT_BREAK: case CT_CONTINUE: case CT_IF: case CT_FOR: case CT_WHILE: case CT_SWITCH:
   case CT_DO: case CT_FUNC_CALL: case CT_SIZEOF: case CT_THROW: case CT_DELETE: case CT_NEW: case CT_QUALIFIER: case CT_STRUCT: case CT_ENUM: case CT_UNION:
      return(true);
   default:
      return(false);
   }
}
extern const unsigned CT_VBRACE_OPEN_V = CT_VBRACE_OPEN;
#endif
void h_do_space()
{
   int msp;
   int r = w_do_space(&g_pool[0], &g_pool[1], &msp);
   if (g_rule_id == RULE_sp_arith) { CANARY("do_space: rule sp_arith reachable"); }
   if (g_rule_id == RULE_NONE) { CANARY("do_space: non-option rule reachable"); }
   if (g_rule_id == RULE_sp_before_semi) { CANARY("do_space: rule sp_before_semi reachable"); }
}
}
