/* C19 "Ignore keeps the spacing of the input": space_text() measures the input gap between two chunks from their ORIGINAL columns.  When the tokenizer's one-chunk `[]` (or
 * `[ ]`, `[  ]`) of a lambda is split again into `[` and `]`, the two halves must get the columns they had in the input: `[` one character wide at the old start, `]` one
 * character wide at the old end - so that the gap between them is what the input had inside the brackets. */
#include "common.h"
extern struct Chunk *const SQ, *const NEWC, *const PN; extern unsigned g_added_n; extern const unsigned CT_TSQUARE_V, CT_SQUARE_OPEN_V, CT_SQUARE_CLOSE_V;
struct Chunk *split_lambda_square(struct Chunk *sq_o);
void h_split_lambda_square(void)
{
   __CPROVER_havoc_object(SQ); __CPROVER_havoc_object(NEWC); __CPROVER_havoc_object(PN);
   Chunk_m_nullChunk(SQ) = 0; Chunk_m_nullChunk(NEWC) = 0; Chunk_m_nullChunk(PN) = 1;
   size_t col = Chunk_m_origCol(SQ), end = Chunk_m_origColEnd(SQ);
   __CPROVER_assume(col >= 1 && col < (1UL << 40) && end >= col + 2 && end < (1UL << 40));       /* a `[...]` token is at least two characters wide */
   _Bool was_t = Chunk_m_type(SQ) == CT_TSQUARE_V;
   g_added_n = 0;
   struct Chunk *c = split_lambda_square(SQ);
   __CPROVER_assert(was_t == (g_added_n == 1), "postcondition: lambda [] split exactly when the token is the one-chunk []");
   __CPROVER_assert(was_t ==> (c == NEWC && Chunk_m_type(SQ) == CT_SQUARE_OPEN_V && Chunk_m_type(NEWC) == CT_SQUARE_CLOSE_V), "postcondition: lambda [] becomes [ and ]");
   __CPROVER_assert(was_t ==> (Chunk_m_origCol(SQ) == col && Chunk_m_origColEnd(SQ) == col + 1), "postcondition: lambda [] the opening bracket is one character wide at the old start");
   __CPROVER_assert(was_t ==> (Chunk_m_origColEnd(NEWC) == end && Chunk_m_origCol(NEWC) == end - 1), "postcondition: lambda [] the closing bracket is one character wide at the old end (the input gap inside the brackets is kept)");
   if (was_t && end > col + 2) { __CPROVER_assert(0, "VACUITY_CANARY lambda [ ] with blanks inside"); }
   if (!was_t) { __CPROVER_assert(0, "VACUITY_CANARY lambda with a capture list"); }
}
