// Translation unit for the users of the spacing decision (C19-K2, C02-K3): ensure_force_space, do_space_ensured,
// space_needed, space_col_align of src/space.cpp, verbatim.  do_space itself (proved in space.impl.cpp) is reached
// through an adapter onto a C-typed function that is replaced by its result contract.
#include "token_enum.h"      /* from the working tree: -I <repo>/src */
#define VERIF_E_TOKEN
#include "base.h"
#include "containers.h"
#include "unctext.h"
#include "cpd.h"
#include "chunk.h"
#include "logger.h"
//@slice src/option.h struct iarf_e
//@slice src/option.h struct line_end_e
//@slice src/option.h struct token_pos_e
#include "options_gen.h"
#include "space_gen.h"
using namespace uncrustify;
inline iarf_e operator|(iarf_e a, iarf_e b) { return (iarf_e)((int)a | (int)b); }
static inline int max(int a, int b) { return (a > b) ? a : b; }     // std::max<int>
#define log_func_stack_inline(x) ((void)0)
#define decode_IARF(x) ""
#define to_string(x) ""
static Chunk g_nullc;
Chunk *const Chunk::NullChunkPtr = &g_nullc;
bool Chunk::TestFlags(unsigned long f) const { return (m_flags & f) == f; }   // flags<>::test of src/enum_flags.h
//@slice src/chunk.h fn Chunk::Len
//@slice src/chunk.h fn Chunk::GetOrigCol
//@slice src/chunk.h fn Chunk::GetOrigLine
//@slice src/chunk.h fn Chunk::GetOrigColEnd
//@slice src/chunk.h fn Chunk::GetNlCount
//@slice src/chunk.h fn Chunk::GetType
//@slice src/chunk.h fn Chunk::GetParentType
//@slice src/unc_text.cpp fn UncText::size
extern "C" {
int g_ds_ret, g_ds_minsp;      // ghost: what the spacing decision returned
int c_do_space(Chunk *first, Chunk *second, int *min_sp) { return nondet_int(); }     // replaced by do_space_result_contract
}
static iarf_e do_space(Chunk *first, Chunk *second, int &min_sp) { return (iarf_e)c_do_space(first, second, &min_sp); }
extern "C" {
//@slice src/space.cpp fn ensure_force_space
//@slice src/space.cpp fn do_space_ensured
//@slice src/space.cpp fn space_needed
//@slice src/space.cpp fn space_col_align
int w_ensure_force_space(Chunk *first, Chunk *second, int av) { return (int)ensure_force_space(first, second, (iarf_e)av); }
}
#include "offsets_cpp.h"
#define CANARY(msg) __CPROVER_assert(0, "VACUITY_CANARY " msg)
extern "C" {
extern const unsigned long PCF_FORCE_SPACE_V = PCF_FORCE_SPACE;
void h_ensure_force_space() { Chunk *a, *b; int r = w_ensure_force_space(a, b, nondet_int()); if (r == 3) { CANARY("ensure_force_space FORCE"); } }
void h_space_needed() { Chunk *a, *b; size_t r = space_needed(a, b); if (r == 0) { CANARY("space_needed 0"); } if (r > 1) { CANARY("space_needed > 1"); } }
void h_space_col_align() { Chunk *a, *b; space_col_align(a, b); CANARY("space_col_align returns"); }
}
