// Translation unit for the core of ONE ITERATION of space_text() (C02-K3 "general safety check", C19-K3 "decision applied to
// columns"), src/space.cpp: from `pc->ResetFlagBits(PCF_FORCE_SPACE);` to the end of the `switch (av)` statement, sliced verbatim
// as a fragment and wrapped into a function whose parameters are the locals of space_text() the fragment uses (pc, next, column,
// prev_column).  What the extraction drops: the rest of the loop body (Qt macro handling, choice of `next`, the trailing-comment
// adjustment and SetColumn after the switch).  do_space_ensured() is represented by its proved contract (C19-K2: result of
// do_space with the ADD bit forced when `first` carries PCF_FORCE_SPACE).  Checked as a direct verification condition.
#include "token_enum.h"      /* from the working tree: -I <repo>/src */
#define VERIF_E_TOKEN
#include "base.h"
#include "containers.h"
#include "unctext.h"
#include "cpd.h"
#define VERIF_CHUNK_TEXT_DECL
#include "chunk.h"
#include "logger.h"
//@slice src/option.h struct iarf_e
//@slice src/option.h struct line_end_e
//@slice src/option.h struct token_pos_e
//@slice src/language_names.h struct lang_flag_e
#include "options_gen.h"
#include "space_gen.h"
using namespace uncrustify;
#define EX_SOFTWARE 70
static inline int max(int a, int b) { return (a > b) ? a : b; }     // std::max<int>
struct chunk_tag_t { const char *tag; E_Token type; size_t lang_flags; };    // src/uncrustify_types.h
static Chunk g_pc, g_next, g_other, g_null_chunk;
Chunk *const Chunk::NullChunkPtr = &g_null_chunk;
extern "C" {
unsigned g_nav_fuel;               // every walk along the list ends (see do_space)
int  g_av, g_minsp;                // ghost: what do_space_ensured answered
bool g_kw_asked, g_kw_last, g_kw_first;   // ghost: CharTable answers for the last character of pc / the first of next
bool g_fp_asked, g_fp_found; size_t g_fp_len; bool g_fp_brackets;   // ghost: find_punctuator(pc+next) result
char g_buf_pc[4], g_buf_next[4];
void verif_exit(int status) { __CPROVER_assume(0); }
// libc memcpy for at most 3 bytes (the fragment copies chunks shorter than 4 characters), loop free
void *verif_memcpy(void *d, const void *s, size_t n) { VASSERT(n <= 3, "memcpy model: at most 3 bytes"); if (n > 0) { ((char *)d)[0] = ((const char *)s)[0]; } if (n > 1) { ((char *)d)[1] = ((const char *)s)[1]; } if (n > 2) { ((char *)d)[2] = ((const char *)s)[2]; } return d; }
size_t verif_strlen(const char *s) { VASSERT(s[0] == 0 || s[1] == 0 || s[2] == 0 || s[3] == 0 || s[4] == 0 || s[5] == 0 || s[6] == 0, "strlen model: punctuators have at most 6 characters"); return (s[0] == 0) ? 0 : (s[1] == 0) ? 1 : (s[2] == 0) ? 2 : (s[3] == 0) ? 3 : (s[4] == 0) ? 4 : (s[5] == 0) ? 5 : 6; }
int verif_strcmp(const char *a, const char *b) { VASSERT(b[0] == '[' && b[1] == ']' && b[2] == 0, "strcmp model: second argument is the literal \"[]\""); return (a[0] == '[' && a[1] == ']' && a[2] == 0) ? 0 : 1; }
}
// (own names: definitions of libc functions would collide with CBMC's built-in library models)
#define exit verif_exit
#define memcpy verif_memcpy
#define strlen verif_strlen
#define strcmp verif_strcmp
static Chunk *nav_chunk() { if (g_nav_fuel == 0) { return &g_null_chunk; } g_nav_fuel--; unsigned k = nondet_uint(); return (k == 0) ? &g_other : (k == 1) ? &g_next : &g_null_chunk; }
Chunk *Chunk::GetNext(const E_Scope) const { return nav_chunk(); }
Chunk *Chunk::GetPrev(const E_Scope) const { return &g_other; }
bool Chunk::TestFlags(unsigned long f) const { return (m_flags & f) == f; }   // flags<>::test of src/enum_flags.h
void Chunk::SetFlagBits(unsigned long b) { if (IsNotNullChunk()) { m_flags |= b; } }        // src/chunk.cpp SetResetFlags(PCF_NONE, b)
void Chunk::ResetFlagBits(unsigned long b) { if (IsNotNullChunk()) { m_flags &= ~b; } }     // src/chunk.cpp SetResetFlags(b, PCF_NONE)
bool Chunk::IsString(const char *, bool) const { return nondet_bool(); }
bool UncText::startswith(const char *, size_t) const { return nondet_bool(); }
namespace CharTable
{
static inline bool IsKw1(size_t) { g_kw_first = nondet_bool(); g_kw_asked = true; return g_kw_first; }
static inline bool IsKw2(size_t) { g_kw_last = nondet_bool(); return g_kw_last; }
}
// the text of a chunk as a C string (used by the fragment only for chunks shorter than 4 characters): 3 arbitrary bytes + NUL
const char *Chunk::Text() const { if (this == &g_pc) { return &g_buf_pc[0]; } return &g_buf_next[0]; }   // (a ?: over two arrays crashes cbmc 6.11's symex)
static const chunk_tag_t *find_punctuator(const char *str, int lang_flags)
{
   g_fp_asked = true;
   g_fp_found = nondet_bool();
   if (!g_fp_found) { return 0; }
   chunk_tag_t *t = (chunk_tag_t *)malloc(sizeof(chunk_tag_t));
   char *s = (char *)malloc(7);
   __CPROVER_assume(t != 0 && s != 0);
   size_t n = nondet_size_t(); __CPROVER_assume(n >= 1 && n <= 6);        // ASSUMED: punctuator tags have 1..6 characters
   s[n] = 0;
   __CPROVER_assume((n < 1 || s[0] != 0) && (n < 2 || s[1] != 0) && (n < 3 || s[2] != 0) && (n < 4 || s[3] != 0) && (n < 5 || s[4] != 0) && (n < 6 || s[5] != 0));
   t->tag = s; g_fp_len = n; g_fp_brackets = (s[0] == '[' && s[1] == ']' && s[2] == 0);
   return t;
}
// do_space_ensured(first, second, min_sp): its proved contract (proofs ensure_force_space / space_needed): the decision of do_space,
// one of the four values, with the ADD bit set whenever `first` is flagged PCF_FORCE_SPACE; min_sp is assigned
static iarf_e do_space_ensured(Chunk *first, Chunk *second, int &min_sp)
{
   int av = nondet_int(); __CPROVER_assume(av >= 0 && av <= 3);
   if (first->TestFlags(PCF_FORCE_SPACE)) { av |= 1; }
   g_av = av; g_minsp = nondet_int(); min_sp = g_minsp;
   return (iarf_e)av;
}
//@slice src/language_tools.cpp fn language_is_set
//@slice src/chunk.h fn Chunk::Is
//@slice src/chunk.h fn Chunk::IsNot
//@slice src/chunk.h fn Chunk::GetType
//@slice src/chunk.h fn Chunk::Len
//@slice src/chunk.h fn Chunk::IsNewline
//@slice src/chunk.h fn Chunk::GetOrigCol
//@slice src/chunk.h fn Chunk::GetOrigColEnd
//@slice src/chunk.h fn Chunk::GetOrigLine
//@slice src/unc_text.cpp fn UncText::size
//@slice src/unc_text.cpp fn UncText::operator[]
extern "C" {
void space_text_apply(Chunk *pc, Chunk *next, size_t *column_io, size_t prev_column)
{
   size_t column = *column_io;
   {  {   // the two blocks the fragment's enclosing `else {` of space_text() opens; closed below
//@slice src/space.cpp frag space_text_core /^         pc->ResetFlagBits\(PCF_FORCE_SPACE\);$/ /^         \} \/\/ switch$/
   }  }
   *column_io = column;
}
}
#include "offsets_cpp.h"
extern "C" {
extern Chunk *const PCC = &g_pc; extern Chunk *const NEXTC = &g_next; extern Chunk *const OTHERC = &g_other; extern Chunk *const NULLCC = &g_null_chunk;
extern const unsigned CT_ANGLE_CLOSE_V = CT_ANGLE_CLOSE, CT_VBRACE_OPEN_V = CT_VBRACE_OPEN;
extern const unsigned long PCF_FORCE_SPACE_V = PCF_FORCE_SPACE;
extern const unsigned long LANG_CPP_V = (unsigned long)lang_flag_e::LANG_CPP, LANG_JAVA_V = (unsigned long)lang_flag_e::LANG_JAVA, LANG_CS_V = (unsigned long)lang_flag_e::LANG_CS,
                           LANG_VALA_V = (unsigned long)lang_flag_e::LANG_VALA, LANG_OC_V = (unsigned long)lang_flag_e::LANG_OC;
}
