#ifndef SPACE_MACROS_H
#define SPACE_MACROS_H
extern struct Chunk *const P0, *const P1, *const P2, *const P3, *const PN;
extern const unsigned long N_IGNORE, N_NOSPACE, N_ADDSPACE;
#endif
