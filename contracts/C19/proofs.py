"""C19 Spacing options mean what they say at the places they are reported to govern."""
import os
import sys
sys.path.insert(0, os.path.join(os.path.dirname(os.path.abspath(__file__)), '..', '..', 'tools'))
import gen  # noqa: E402
from prover import Proof, REPO  # noqa: E402
NEED_OPTIONS = True
MACRO_HEADERS = ['../C19/space_macros.h']
_names = set(o['name'] for o in gen.parse_options(REPO))
_INPOOL = '(next == P0 || next == P1 || next == P2 || next == P3 || next == PN)'
L = [
    # the two chunk-list walks: the environment returns arbitrary pool members, so only "stays inside the pool" is
    # invariant; termination of these walks depends on the chunk list being finite and is NOT proved (no decreases)
    dict(fn='do_space', id=0, vars=['next'], assigns='next', inv=_INPOOL),
    dict(fn='do_space', id=1, vars=['next'], assigns='next', inv=_INPOOL),
    dict(fn='do_space', id=2, vars=['__i0'], assigns='__i0', inv='__i0 <= N_IGNORE', decreases='N_IGNORE - __i0'),
    dict(fn='do_space', id=3, vars=['__i1', 'number'], assigns='__i1, number', inv='__i1 <= N_NOSPACE', decreases='N_NOSPACE - __i1'),
    dict(fn='do_space', id=4, vars=['__i2', 'number'], assigns='__i2, number', inv='__i2 <= N_ADDSPACE', decreases='N_ADDSPACE - __i2'),
]
_optnames = [o['name'] for o in gen.parse_options(REPO)]


_iarf = [o['name'] for o in gen.parse_options(REPO) if o['type'] == 'iarf_e']


def _site(f):
    """site of a failed attribution clause. The generated ensures list is: 2 fixed clauses, then one general clause
    per IARF option (registry order), then one strict clause (state outside every recorded known deviation) per option."""
    import re
    mo = re.search(r'postcondition\.(\d+)', f.get('obligation', ''))
    if not mo:
        return ''
    n = int(mo.group(1)) - 3
    if n < 0:
        return 'clause=fixed'
    kind = 'general' if n < len(_iarf) else 'strict'
    n = n % len(_iarf)
    return 'rule=%s clause=%s' % (_iarf[n], kind)


PROOFS = [
    Proof('do_space', impl='contracts/C19/space.impl.cpp', spec='contracts/C19/space.spec.c', enforce='w_do_space/do_space_contract',
          rules={'do_space': [('D10', _names), ('D8', [(r'auto arg = iarf_flags_t\{', 'iarf_flags_t arg = iarf_flags_t{', 'auto of a flags temporary: the front end deduces int')]), ('D2', {'types': ['iarf_flags_t']}), ('D1', {'no_space_table': 'array', 'add_space_table': 'array', 'IGNORE_space_table': 'array', '__auto__': {'no_space_table': 'no_space_table_t', 'add_space_table': 'no_space_table_t', 'IGNORE_space_table': 'no_space_table_t'}})]},
          loops=L, canaries=3, timeout=3000, object_bits=12, drop_flags=['--conversion-check'],
          note='unsigned<->int conversions of option values / code points are implementation-defined, not undefined: conversion check off', functions=['space.cpp:do_space'],
          expect=['do_space_contract.postcondition']),
]
PROOFS[0].site = _site


_DS = ['c_do_space/do_space_result_contract']


def _P2(name, enforce, **kw):
    return Proof(name, impl='contracts/C19/space2.impl.cpp', spec='contracts/C19/space2.spec.c', enforce=enforce, replace=_DS,
                 drop_flags=['--conversion-check'], expect=[enforce.split('/')[1] + '.postcondition'], **kw)


PROOFS += [
    _P2('ensure_force_space', 'w_ensure_force_space/ensure_force_space_contract', functions=['space.cpp:ensure_force_space'],
        mutants=[('guard_dropped', r'return\(av \| IARF_ADD\);', 'return(av);', 'postcondition'),
                 ('wrong_flag', r'PCF_FORCE_SPACE', 'PCF_IN_PREPROC', 'postcondition')]),
    _P2('space_needed', 'space_needed/space_needed_contract', canaries=2, functions=['space.cpp:space_needed', 'space.cpp:do_space_ensured', 'space.cpp:ensure_force_space'],
        mutants=[('remove_gives_one', r'case IARF_REMOVE:\n      return\(0\);', 'case IARF_REMOVE:\n      return(1);', 'postcondition'),
                 ('min_sp_ignored', r'return\(max\(1, min_sp\)\);', 'return(1);', 'postcondition'),
                 ('force_guard_bypassed', r'switch \(do_space_ensured\(first, second, min_sp\)\)', 'switch (do_space(first, second, min_sp))', 'postcondition')]),
    _P2('space_col_align', 'space_col_align/space_col_align_contract', functions=['space.cpp:space_col_align'],
        mutants=[('add_not_counted', r'case IARF_ADD:\n   case IARF_FORCE:\n      coldiff\+\+;', 'case IARF_FORCE:\n      coldiff++;', 'postcondition')]),
]

import replay_lib  # noqa: E402
sys.path.insert(0, os.path.join(os.path.dirname(os.path.abspath(__file__)), '..', 'shared'))
import outtext_proofs  # noqa: E402
PROOFS.append(outtext_proofs.iteration_proof())   # sp_before_nl_cont is applied in output_text()


def static_facts(repo):
    return outtext_proofs.static_facts(repo)


def _replay(repo, failure, workroot):
    """R-log: find the rule of the failed clause, run the rebuilt binary with that option at remove/force over a small
    corpus with the space log on, and look for a logged gap that contradicts the value."""
    import re
    exe = replay_lib.build_binary(repo, workroot)
    if not exe:
        return False, 'working tree does not build natively'
    mo = re.search(r'rule=(\w+)', failure.get('site', '') or _site(failure))
    rule = mo.group(1) if mo else None
    if rule == 'sp_bool':
        hit, note = replay_lib.scenario_sp_bool_site(exe, workroot)
        if hit:
            return hit, note
    if rule:
        return replay_lib.scenario_spacing_option(exe, workroot, rule)
    return False, 'no rule identified'


PROOFS[0].replay = _replay

EXPLANATION = ('Kernel of C19. do_space() - the real 3400-line decision function - is executed once symbolically with every chunk attribute unconstrained and every '
               'option value anywhere in its documented range; for each of the IARF options the contract has one clause "if the last rule logged is this option then '
               'the value returned is this option\'s configured value" (plus, only for the rules the property\'s exception clause covers, value|ADD or REMOVE->IGNORE). '
               'ensure_force_space / space_needed / space_col_align turn the decision into a number of columns exactly as the property says (Remove none, Force one '
               '(max(1,min_sp)), Add at least one, Ignore as in the input; a forced space overrides Remove). The one spacing option applied outside space.cpp, '
               'sp_before_nl_cont, is checked where it is applied: in one iteration of output_text().')
K = ['K1 do_space: rule logged <-> option value returned, for all 400+ IARF options at once; result always one of the four values; min_sp assigned',
     'K2 ensure_force_space, do_space_ensured, space_needed, space_col_align: meaning of the four values in columns',
     'K4 output_text (one iteration): the column of a backslash-newline obeys sp_before_nl_cont (Remove: none, Force: exactly one, Add: at least one, Ignore: the original spacing)']
G = ['space_text() applies the decision to the columns of the following chunk (350-line loop): NOT under contract; the log really prints the recorded rule (log_rule macro replaced by a ghost recorder)',
     'chunk navigation inside do_space (GetNext/GetPrev/...) returns an arbitrary chunk: over-approximation; termination of the two chunk-list walks is not proved',
     'later passes (align, width) do not change intra-line gaps - the property excludes them',
     'known finding: rule sp_bool with pos_bool != ignore (see known_findings.txt)']
