"""C19 Spacing options mean what they say at the places they are reported to govern."""
import os
import sys
sys.path.insert(0, os.path.join(os.path.dirname(os.path.abspath(__file__)), '..', '..', 'tools'))
import gen  # noqa: E402
from prover import Proof, REPO  # noqa: E402
NEED_OPTIONS = True
MACRO_HEADERS = ['../C19/space_macros.h']
_names = set(o['name'] for o in gen.parse_options(REPO))
_INPOOL = '(next == P0 || next == P1 || next == P2 || next == P3 || next == PN)'
L = [
    # the two chunk-list walks: the environment returns arbitrary pool members, so only "stays inside the pool" is
    # invariant; termination of these walks depends on the chunk list being finite and is NOT proved (no decreases)
    dict(fn='do_space', id=0, vars=['next'], assigns='next', inv=_INPOOL),
    dict(fn='do_space', id=1, vars=['next'], assigns='next', inv=_INPOOL),
    dict(fn='do_space', id=2, vars=['__i0'], assigns='__i0', inv='__i0 <= N_IGNORE', decreases='N_IGNORE - __i0'),
    dict(fn='do_space', id=3, vars=['__i1', 'number'], assigns='__i1, number', inv='__i1 <= N_NOSPACE', decreases='N_NOSPACE - __i1'),
    dict(fn='do_space', id=4, vars=['__i2', 'number'], assigns='__i2, number', inv='__i2 <= N_ADDSPACE', decreases='N_ADDSPACE - __i2'),
]
_optnames = [o['name'] for o in gen.parse_options(REPO)]


_iarf = [o['name'] for o in gen.parse_options(REPO) if o['type'] == 'iarf_e']


def _site_desc(f):
    """site of a failed attribution clause of the direct VC proof: the assertion text names the option."""
    import re
    d = f.get('description') or ''
    mo = re.search(r'g_rule_id == (\d+)', d)
    mn = re.search(r'== optv_(\w+)', d)
    if not mo or not mn:
        return 'clause=fixed' if 'postcondition' in d else ''
    return 'rule=%s clause=%s' % (mn.group(1), 'strict' if 'KNOWN_DEV' in d else 'general')


def _known_rules():
    return [l.strip() for l in open(os.path.join(os.path.dirname(os.path.abspath(__file__)), 'known_dev_rules.txt')) if l.strip() and not l.startswith('#')]


def _site_index(f):
    """site of a failed clause of the DFCC proof: 2 fixed clauses, then the generated order of tools/gen.py gen_space."""
    import re
    mo = re.search(r'postcondition\.(\d+)', f.get('obligation', ''))
    if not mo:
        return ''
    n = int(mo.group(1)) - 3
    if n < 0:
        return 'clause=fixed'
    known = _known_rules()
    sites = ['rule=%s clause=general' % r for r in _iarf if r not in known] + ['rule=%s clause=strict' % r for r in _iarf if r in known]
    return sites[n] if n < len(sites) else 'clause=?'


_DS_RULES = {'do_space': [('D10', _names), ('D8', [(r'auto arg = iarf_flags_t\{', 'iarf_flags_t arg = iarf_flags_t{', 'auto of a flags temporary: the front end deduces int')]), ('D2', {'types': ['iarf_flags_t']}), ('D1', {'no_space_table': 'array', 'add_space_table': 'array', 'IGNORE_space_table': 'array', '__auto__': {'no_space_table': 'no_space_table_t', 'add_space_table': 'no_space_table_t', 'IGNORE_space_table': 'no_space_table_t'}})]}
_SAFETY = ['--bounds-check', '--pointer-check', '--pointer-overflow-check', '--signed-overflow-check', '--div-by-zero-check', '--undefined-shift-check', '--unwinding-assertions']
def _table_sizes():
    import re
    t = open(os.path.join(REPO, 'src/add_space_table.h')).read()
    out = {}
    for name in ('add_space_table', 'no_space_table', 'IGNORE_space_table'):
        a = t.index('const no_space_table_t %s[] =' % name)
        out[name] = len(re.findall(r'^\s*\{\s*CT_', t[a:t.index('};', a)], re.M))
    return out


_TS = _table_sizes()
# loops of do_space in source order: two chunk walks (bounded by the navigation fuel <= 6), then the scans of IGNORE_space_table,
# no_space_table, add_space_table (bound = number of entries + 2; a table that grows is followed, a wrong count fails an unwinding assertion)
_UNWIND = [('do_space', 0, 9), ('do_space', 1, 9), ('do_space', 2, _TS['IGNORE_space_table'] + 2), ('do_space', 3, _TS['no_space_table'] + 2), ('do_space', 4, _TS['add_space_table'] + 2)]
PROOFS = [
    # quick + thorough: the contract as a direct verification condition (see the PLAIN_VC block of space.spec.c)
    Proof('do_space', impl='contracts/C19/space.impl.cpp', spec='contracts/C19/space.spec.c', harness='h_do_space_vc', plain=True, no_contract=True,
          rules=_DS_RULES, defines=['PLAIN_VC'], canaries=4, timeout=1500, object_bits=12, cbmc_flags=_SAFETY, unwind_loops=_UNWIND, slice_formula=True, nondet_static='.*(optv_|g_pool|g_null_chunk|cpd|QT_SIGNAL_SLOT|restoreValues|g_rule_|g_fwd_fuel).*',
          functions=['space.cpp:do_space'], expect=['postcondition: do_space'],
          note='direct VC (assume requires / call / assert ensures), no goto-instrument pass; the three table scans are unwound completely (bounds = table sizes read from add_space_table.h, '
               'unwinding assertions on) and the two chunk walks are bounded by the navigation fuel of the environment; the assigns clause is NOT checked in this '
               'proof (it is in do_space_dfcc, thorough tier). unsigned<->int conversions are implementation-defined, not undefined: conversion check off',
          mutants=[('else_vbrace_spaced_like_sparen', r'&& first->GetPrev\(\)->Is\(CT_SPAREN_CLOSE\)\n      && second->IsNot\(CT_SEMICOLON\)\)', '&& (first->GetPrev()->Is(CT_SPAREN_CLOSE) || first->GetPrev()->Is(CT_ELSE))\n      && second->IsNot(CT_SEMICOLON))', 'postcondition: do_space C02'),
                   ('returns_neighbour_option', r'log_rule_id\(RULE_sp_catch_brace\);(\s*)return\(options::sp_catch_brace\(\)\);', r'log_rule_id(RULE_sp_catch_brace);\1return(options::sp_sparen_brace());', 'postcondition'),
                   ('arith_returns_assign', r'log_rule_id\(RULE_sp_arith\);(\s*)return\(options::sp_arith\(\)\);', r'log_rule_id(RULE_sp_arith);\1return(options::sp_assign());', 'postcondition'),
                   ('remove_bit_dropped', r'log_rule_id\(RULE_sp_before_semi\);(\s*)return\(options::sp_before_semi\(\)\);', r'log_rule_id(RULE_sp_before_semi);\1return(options::sp_before_semi() & IARF_ADD);', 'postcondition')]),

    # the C02 clause of do_space alone (used by the C02 check: the attribution clauses, with their known finding, belong to C19)
    Proof('do_space_no_glue', impl='contracts/C19/space.impl.cpp', spec='contracts/C19/space.spec.c', harness='h_do_space_vc', plain=True, no_contract=True,
          rules=_DS_RULES, defines=['PLAIN_VC', 'C02_CLAUSE_ONLY'], canaries=4, timeout=1500, object_bits=12, cbmc_flags=_SAFETY, unwind_loops=_UNWIND, slice_formula=True, nondet_static='.*(optv_|g_pool|g_null_chunk|cpd|QT_SIGNAL_SLOT|restoreValues|g_rule_|g_fwd_fuel).*',
          functions=['space.cpp:do_space (C02 clause: no REMOVE between a brace-less else/do and the word after it)'], expect=['postcondition: do_space C02'],
          note='same direct VC as do_space with only the C02 clause asserted',
          mutants=[('else_vbrace_spaced_like_sparen', r'&& first->GetPrev\(\)->Is\(CT_SPAREN_CLOSE\)\n      && second->IsNot\(CT_SEMICOLON\)\)', '&& (first->GetPrev()->Is(CT_SPAREN_CLOSE) || first->GetPrev()->Is(CT_ELSE))\n      && second->IsNot(CT_SEMICOLON))', 'postcondition: do_space C02'),
                   ('vbrace_force_rule_dropped', r'if \(  first->Is\(CT_VBRACE_OPEN\)\n      && second->IsNot\(CT_NL_CONT\)', 'if (  false\n      && second->IsNot(CT_NL_CONT)', 'postcondition: do_space C02')]),

    # thorough only: the same contract enforced through DFCC, frame (assigns clause) included, loops closed by loop contracts
    Proof('do_space_dfcc', impl='contracts/C19/space.impl.cpp', spec='contracts/C19/space.spec.c', enforce='w_do_space/do_space_contract', harness='h_do_space',
          rules=_DS_RULES, loops=L, canaries=3, timeout=3000, object_bits=12, drop_flags=['--conversion-check'], slice_formula=True, defines=['NO_KNOWN_CLAUSES'],
          functions=['space.cpp:do_space'], expect=['do_space_contract.postcondition'],
          note='DFCC-enforced form (function contract + assigns clause + 5 loop contracts); 12-15 min, hence thorough tier only; the general clauses of rules with a recorded '
               'known deviation are left to proof do_space'),
]
for _p in PROOFS:
    if _p.name == 'do_space_dfcc':
        _p.thorough_only = True
# proofs of this module that belong to another property's check (C02 picks them by name)
EXTRA_PROOFS = [_p for _p in PROOFS if _p.name == 'do_space_no_glue']
PROOFS = [_p for _p in PROOFS if _p.name != 'do_space_no_glue']
PROOFS[0].site = _site_desc
PROOFS[1].site = _site_index


_DS = ['c_do_space/do_space_result_contract']


def _P2(name, enforce, **kw):
    return Proof(name, impl='contracts/C19/space2.impl.cpp', spec='contracts/C19/space2.spec.c', enforce=enforce, replace=_DS,
                 drop_flags=['--conversion-check'], expect=[enforce.split('/')[1] + '.postcondition'], **kw)


PROOFS += [
    _P2('ensure_force_space', 'w_ensure_force_space/ensure_force_space_contract', functions=['space.cpp:ensure_force_space'],
        mutants=[('guard_dropped', r'return\(av \| IARF_ADD\);', 'return(av);', 'postcondition'),
                 ('wrong_flag', r'PCF_FORCE_SPACE', 'PCF_IN_PREPROC', 'postcondition')]),
    _P2('space_needed', 'space_needed/space_needed_contract', canaries=2, functions=['space.cpp:space_needed', 'space.cpp:do_space_ensured', 'space.cpp:ensure_force_space'],
        mutants=[('remove_gives_one', r'case IARF_REMOVE:\n      return\(0\);', 'case IARF_REMOVE:\n      return(1);', 'postcondition'),
                 ('min_sp_ignored', r'return\(max\(1, min_sp\)\);', 'return(1);', 'postcondition'),
                 ('force_guard_bypassed', r'switch \(do_space_ensured\(first, second, min_sp\)\)', 'switch (do_space(first, second, min_sp))', 'postcondition')]),
    _P2('space_col_align', 'space_col_align/space_col_align_contract', functions=['space.cpp:space_col_align'],
        mutants=[('add_not_counted', r'case IARF_ADD:\n   case IARF_FORCE:\n      coldiff\+\+;', 'case IARF_FORCE:\n      coldiff++;', 'postcondition')]),
]

PROOFS.append(Proof('space_text_apply', impl='contracts/C19/sptext.impl.cpp', spec='contracts/C19/space2.spec.c', harness='h_space_text_apply', plain=True, no_contract=True,
                    defines=['SPTEXT_VC'], canaries=3, unwind=6, slice_formula=True, timeout=900, nondet_static='.*(optv_|cpd|g_nav_fuel|g_buf_).*',
                    cbmc_flags=['--bounds-check', '--pointer-check', '--div-by-zero-check', '--undefined-shift-check', '--unwinding-assertions'],
                    expect=['postcondition: space_text'], functions=['space.cpp:space_text (core of one iteration, sliced as a fragment: safety check + switch on the decision)'],
                    assumed=['do_space_ensured: its proved contract (decision of do_space with the ADD bit forced for PCF_FORCE_SPACE)', 'find_punctuator: no match, or a tag of 1..6 characters',
                             'CharTable::IsKw1/IsKw2, Chunk::IsString, UncText::startswith answer arbitrarily'],
                    note='direct VC; int <-> size_t arithmetic on columns is the code\'s own (signed overflow check off: `column += min_sp` mixes int and size_t by design)',
                    mutants=[('angle_close_by_text', r'&& next->Is\(CT_ANGLE_CLOSE\)\)', '&& next->IsString(">"))', 'postcondition'),
                             ('words_not_forced', r'(back-to-back words need a space.*?\n.*?\n\s*)pc->SetFlagBits\(PCF_FORCE_SPACE\);', r'\1;', 'postcondition'),
                             ('comment_opener_only_for_star', r"&& \(  next->GetStr\(\)\[0\] == '\*'\n\s*\|\| next->GetStr\(\)\[0\] == '/'\)\)", "&& (  next->GetStr()[0] == '*'))", 'postcondition'),
                             ('force_adds_two', r'column \+= min_sp;  // add exactly the specified number of spaces', 'column += min_sp + 1;', 'postcondition')]))
PROOFS.append(Proof('split_lambda_square', impl='contracts/C19/lambda.impl.cpp', spec='contracts/C19/lambda.spec.c', harness='h_split_lambda_square', plain=True, no_contract=True, canaries=2, rules={},
                    expect=['postcondition: lambda'], drop_flags=['--conversion-check'], functions=['combine.cpp:handle_cpp_lambda (fragment: re-split of the one-chunk [])'],
                    assumed=['UncText::resize / pop_front: the texts become "[" and "]" (not tracked)', 'CopyAndAddAfter: copies the scalar attributes'],
                    mutants=[('close_column_as_if_adjacent', r'nc\.SetOrigCol\(sq_o->GetOrigColEnd\(\) - 1\);', 'nc.SetOrigCol(sq_o->GetOrigCol() + 1);', 'postcondition'),
                             ('open_end_not_updated', r'sq_o->SetOrigColEnd\(sq_o->GetOrigCol\(\) \+ 1\);', '', 'postcondition')]))
import replay_lib  # noqa: E402
sys.path.insert(0, os.path.join(os.path.dirname(os.path.abspath(__file__)), '..', 'shared'))
import outtext_proofs  # noqa: E402
PROOFS.append(outtext_proofs.iteration_proof())   # sp_before_nl_cont is applied in output_text()


def static_facts(repo):
    return outtext_proofs.static_facts(repo)


def _replay(repo, failure, workroot):
    """R-log: find the rule of the failed clause, run the rebuilt binary with that option at remove/force over a small
    corpus with the space log on, and look for a logged gap that contradicts the value."""
    import re
    exe = replay_lib.build_binary(repo, workroot)
    if not exe:
        return False, 'working tree does not build natively'
    mo = re.search(r'rule=(\w+)', failure.get('site', '') or _site(failure))
    rule = mo.group(1) if mo else None
    if rule == 'sp_bool':
        hit, note = replay_lib.scenario_sp_bool_site(exe, workroot)
        if hit:
            return hit, note
    if rule:
        return replay_lib.scenario_spacing_option(exe, workroot, rule)
    return False, 'no rule identified'


PROOFS[0].replay = _replay
PROOFS[1].replay = _replay

EXPLANATION = ('Kernel of C19. do_space() - the real 3400-line decision function - is executed once symbolically with every chunk attribute unconstrained and every '
               'option value anywhere in its documented range; for each of the IARF options the contract has one clause "if the last rule logged is this option then '
               'the value returned is this option\'s configured value" (plus, only for the rules the property\'s exception clause covers, value|ADD or REMOVE->IGNORE). '
               'ensure_force_space / space_needed / space_col_align turn the decision into a number of columns exactly as the property says (Remove none, Force one '
               '(max(1,min_sp)), Add at least one, Ignore as in the input; a forced space overrides Remove). The one spacing option applied outside space.cpp, '
               'sp_before_nl_cont, is checked where it is applied: in one iteration of output_text().')
K = ['K5 handle_cpp_lambda (re-split of the one-chunk []): the two brackets get the original columns they had in the input, so that Ignore keeps the blanks inside `[ ]`', 'K1 do_space: rule logged <-> option value returned, for all 400+ IARF options at once; result always one of the four values; min_sp assigned',
     'K2 ensure_force_space, do_space_ensured, space_needed, space_col_align: meaning of the four values in columns',
     'K3 space_text (core of one iteration): the decision is applied to the column of the following chunk exactly as the property says (Force: exactly max(1,min_sp) blanks; Remove: none; Add: at least max(1,min_sp); Ignore: the gap of the input)',
     'K4 output_text (one iteration): the column of a backslash-newline obeys sp_before_nl_cont (Remove: none, Force: exactly one, Add: at least one, Ignore: the original spacing)']
G = ['space_text(): only the core of the loop body (safety check + switch on the decision) is under contract (K3); the trailing-comment adjustment after the switch and next->SetColumn(column) are read, not proved; the log really prints the recorded rule (log_rule macro replaced by a ghost recorder)',
     'chunk navigation inside do_space (GetNext/GetPrev/...) returns an arbitrary chunk: over-approximation; termination of the two chunk-list walks is not proved',
     'later passes (align, width) do not change intra-line gaps - the property excludes them',
     'known finding: rule sp_bool with pos_bool != ignore (see known_findings.txt)']
