/* Contracts for the users of the spacing decision (C19-K2, C02-K3), from the statement of C19: "Remove gives none
 * (except where ... would lex differently), Force gives exactly one space, Add gives at least one, Ignore keeps
 * presence or absence as in the input", and of C02: a forced space overrides Remove. */
#include "common.h"
extern int g_ds_ret, g_ds_minsp;
extern const unsigned long PCF_FORCE_SPACE_V;
#define CH_FRESH(p) (__CPROVER_is_fresh((p), SIZEOF_Chunk) && !Chunk_m_nullChunk(p) && UT_FRESH_IN(Chunk_m_str(p)))
#define FORCED(p) ((Chunk_m_flags(p) & PCF_FORCE_SPACE_V) == PCF_FORCE_SPACE_V)
/* do_space as seen by its users: one of the four values, min_sp set (proved in proof do_space) */
int do_space_result_contract(struct Chunk *first, struct Chunk *second, int *min_sp)
__CPROVER_assigns(*min_sp, g_ds_ret, g_ds_minsp)
__CPROVER_ensures(__CPROVER_return_value >= 0 && __CPROVER_return_value <= 3 && g_ds_ret == __CPROVER_return_value && g_ds_minsp == *min_sp)
;
/* the fusion guard: a chunk pair flagged PCF_FORCE_SPACE always gets the ADD bit (Remove becomes Force, Ignore becomes Add) */
int ensure_force_space_contract(struct Chunk *first, struct Chunk *second, int av)
__CPROVER_requires(CH_FRESH(first) && CH_FRESH(second) && av >= 0 && av <= 3)
__CPROVER_assigns()
__CPROVER_ensures(__CPROVER_return_value == (FORCED(first) ? (av | 1) : av))
;
#define EFF (FORCED(first) ? (g_ds_ret | 1) : g_ds_ret)
#define HAD_GAP (Chunk_m_origCol(second) > Chunk_m_origCol(first) + UT_size(Chunk_m_str(first)))
size_t space_needed_contract(struct Chunk *first, struct Chunk *second)
__CPROVER_requires(CH_FRESH(first) && CH_FRESH(second) && Chunk_m_origCol(first) < (1UL << 40))
__CPROVER_assigns(g_ds_ret, g_ds_minsp)
/* Add / Force: at least one space (max(1, min_sp)); Remove: none; Ignore: as in the input */
__CPROVER_ensures((EFF == 1 || EFF == 3) ==> (__CPROVER_return_value == (size_t)(g_ds_minsp > 1 ? g_ds_minsp : 1) && __CPROVER_return_value >= 1))
__CPROVER_ensures(EFF == 2 ==> __CPROVER_return_value == 0)
__CPROVER_ensures(EFF == 0 ==> __CPROVER_return_value == (HAD_GAP ? 1 : 0))
/* the forced space wins over Remove */
__CPROVER_ensures(FORCED(first) ==> __CPROVER_return_value >= (g_ds_ret == 0 ? (HAD_GAP ? 1 : 1) : 1))
;
size_t space_col_align_contract(struct Chunk *first, struct Chunk *second)
__CPROVER_requires(CH_FRESH(first) && CH_FRESH(second) && Chunk_m_origCol(first) < (1UL << 40) && Chunk_m_origColEnd(first) >= 1 && Chunk_m_origColEnd(first) < (1UL << 40))
__CPROVER_assigns(g_ds_ret, g_ds_minsp)
#define BASE (Chunk_m_nlCount(first) > 0 ? Chunk_m_origColEnd(first) - 1 : UT_size(Chunk_m_str(first)))
__CPROVER_ensures((EFF == 1 || EFF == 3) ==> __CPROVER_return_value == BASE + 1)
__CPROVER_ensures(EFF == 2 ==> __CPROVER_return_value == BASE)
__CPROVER_ensures(EFF == 0 ==> __CPROVER_return_value == BASE + ((Chunk_m_origLine(first) == Chunk_m_origLine(second) && HAD_GAP) ? 1 : 0))
;
