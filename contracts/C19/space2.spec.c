/* Contracts for the users of the spacing decision (C19-K2, C02-K3), from the statement of C19: "Remove gives none
 * (except where ... would lex differently), Force gives exactly one space, Add gives at least one, Ignore keeps
 * presence or absence as in the input", and of C02: a forced space overrides Remove. */
#include "common.h"
#include "options_c.h"
extern int g_ds_ret, g_ds_minsp;
extern const unsigned long PCF_FORCE_SPACE_V;
#define CH_FRESH(p) (__CPROVER_is_fresh((p), SIZEOF_Chunk) && !Chunk_m_nullChunk(p) && UT_FRESH_IN(Chunk_m_str(p)))
#define FORCED(p) ((Chunk_m_flags(p) & PCF_FORCE_SPACE_V) == PCF_FORCE_SPACE_V)
/* do_space as seen by its users: one of the four values, min_sp set (proved in proof do_space) */
int do_space_result_contract(struct Chunk *first, struct Chunk *second, int *min_sp)
__CPROVER_assigns(*min_sp, g_ds_ret, g_ds_minsp)
__CPROVER_ensures(__CPROVER_return_value >= 0 && __CPROVER_return_value <= 3 && g_ds_ret == __CPROVER_return_value && g_ds_minsp == *min_sp)
;
/* the fusion guard: a chunk pair flagged PCF_FORCE_SPACE always gets the ADD bit (Remove becomes Force, Ignore becomes Add) */
int ensure_force_space_contract(struct Chunk *first, struct Chunk *second, int av)
__CPROVER_requires(CH_FRESH(first) && CH_FRESH(second) && av >= 0 && av <= 3)
__CPROVER_assigns()
__CPROVER_ensures(__CPROVER_return_value == (FORCED(first) ? (av | 1) : av))
;
#define EFF (FORCED(first) ? (g_ds_ret | 1) : g_ds_ret)
#define HAD_GAP (Chunk_m_origCol(second) > Chunk_m_origCol(first) + UT_size(Chunk_m_str(first)))
size_t space_needed_contract(struct Chunk *first, struct Chunk *second)
__CPROVER_requires(CH_FRESH(first) && CH_FRESH(second) && Chunk_m_origCol(first) < (1UL << 40))
__CPROVER_assigns(g_ds_ret, g_ds_minsp)
/* Add / Force: at least one space (max(1, min_sp)); Remove: none; Ignore: as in the input */
__CPROVER_ensures((EFF == 1 || EFF == 3) ==> (__CPROVER_return_value == (size_t)(g_ds_minsp > 1 ? g_ds_minsp : 1) && __CPROVER_return_value >= 1))
__CPROVER_ensures(EFF == 2 ==> __CPROVER_return_value == 0)
__CPROVER_ensures(EFF == 0 ==> __CPROVER_return_value == (HAD_GAP ? 1 : 0))
/* the forced space wins over Remove */
__CPROVER_ensures(FORCED(first) ==> __CPROVER_return_value >= (g_ds_ret == 0 ? (HAD_GAP ? 1 : 1) : 1))
;
size_t space_col_align_contract(struct Chunk *first, struct Chunk *second)
__CPROVER_requires(CH_FRESH(first) && CH_FRESH(second) && Chunk_m_origCol(first) < (1UL << 40) && Chunk_m_origColEnd(first) >= 1 && Chunk_m_origColEnd(first) < (1UL << 40))
__CPROVER_assigns(g_ds_ret, g_ds_minsp)
#define BASE (Chunk_m_nlCount(first) > 0 ? Chunk_m_origColEnd(first) - 1 : UT_size(Chunk_m_str(first)))
__CPROVER_ensures((EFF == 1 || EFF == 3) ==> __CPROVER_return_value == BASE + 1)
__CPROVER_ensures(EFF == 2 ==> __CPROVER_return_value == BASE)
__CPROVER_ensures(EFF == 0 ==> __CPROVER_return_value == BASE + ((Chunk_m_origLine(first) == Chunk_m_origLine(second) && HAD_GAP) ? 1 : 0))
;

#ifdef SPTEXT_VC
/* ---- the core of one space_text() iteration as a direct verification condition (C02-K3, C19-K3) ---- */
extern struct Chunk *const PCC, *const NEXTC, *const OTHERC, *const NULLCC;
extern const unsigned CT_ANGLE_CLOSE_V, CT_VBRACE_OPEN_V;
extern const unsigned long LANG_CPP_V, LANG_JAVA_V, LANG_CS_V, LANG_VALA_V, LANG_OC_V;
extern unsigned g_nav_fuel;
extern int g_av, g_minsp;
extern _Bool g_kw_asked, g_kw_last, g_kw_first, g_fp_asked, g_fp_found, g_fp_brackets;
extern size_t g_fp_len;
void *malloc(unsigned long);
unsigned long nondet_ul(void);
void space_text_apply(struct Chunk *pc, struct Chunk *next, size_t *column_io, size_t prev_column);
static void mk_chunk2(struct Chunk *p, _Bool isnull)
{
   Chunk_m_nullChunk(p) = isnull;
   unsigned long cap = nondet_ul();
   __CPROVER_assume(cap <= MAXCAP && DI_size(UT_chars(Chunk_m_str(p))) <= cap);
   DI_cap(UT_chars(Chunk_m_str(p))) = cap;
   DI_data(UT_chars(Chunk_m_str(p))) = malloc(cap * sizeof(int));
   __CPROVER_assume(DI_data(UT_chars(Chunk_m_str(p))) != (int *)0);
}
#define LANG_SET(l) ((CPD(lang_flags) & (l)) != 0)
void h_space_text_apply(void)
{
   struct Chunk *pc = PCC, *next = NEXTC;
   __CPROVER_havoc_object(PCC); __CPROVER_havoc_object(NEXTC); __CPROVER_havoc_object(OTHERC); __CPROVER_havoc_object(NULLCC);
   mk_chunk2(PCC, 0); mk_chunk2(NEXTC, 0); mk_chunk2(OTHERC, 0); mk_chunk2(NULLCC, 1);
   size_t column = nondet_ul(), prev_column;
   __CPROVER_assume(column < (1UL << 40) && g_nav_fuel <= 3);
   __CPROVER_assume(Chunk_m_origCol(next) < (1UL << 30) && Chunk_m_origColEnd(pc) < (1UL << 30) && Chunk_m_origCol(OTHERC) < (1UL << 30));   /* columns below 2^30: `int delta = next->GetOrigCol() - ...` converts size_t to int */
   prev_column = column;
   g_kw_asked = 0; g_fp_asked = 0;
   size_t len_pc = UT_size(Chunk_m_str(pc)), len_next = UT_size(Chunk_m_str(next));
   int last_pc = len_pc > 0 ? UT_at(Chunk_m_str(pc), len_pc - 1) : 0, first_next = len_next > 0 ? UT_at(Chunk_m_str(next), 0) : 0;
   space_text_apply(pc, next, &column, prev_column);
   _Bool forced = (Chunk_m_flags(pc) & PCF_FORCE_SPACE_V) == PCF_FORCE_SPACE_V;
   int msp = g_minsp > 1 ? g_minsp : 1;
   /* C02-K3: back-to-back words: the last character of pc and the first of next are both keyword characters => forced space */
   __CPROVER_assert((g_kw_asked && g_kw_last && g_kw_first) ==> forced, "postcondition: space_text back-to-back words get PCF_FORCE_SPACE");
   /* C02-K3: two punctuators whose concatenation lexes to a punctuator of another length => forced space; the only pairs
    * allowed to fuse are '>' '>' closing two template argument lists (C++11 with sp_permit_cpp11_shift, Java, C#, Vala, OC) and "[]" */
   _Bool shift_ok = ((LANG_SET(LANG_CPP_V) && optv_sp_permit_cpp11_shift) || LANG_SET(LANG_JAVA_V) || LANG_SET(LANG_CS_V) || LANG_SET(LANG_VALA_V) || LANG_SET(LANG_OC_V))
                    && Chunk_m_type(pc) == CT_ANGLE_CLOSE_V && Chunk_m_type(next) == CT_ANGLE_CLOSE_V;
   __CPROVER_assert((g_fp_asked && g_fp_found && g_fp_len != len_pc && !shift_ok && !g_fp_brackets) ==> forced, "postcondition: space_text punctuators that would fuse get PCF_FORCE_SPACE");
   /* C02-K3: a chunk ending in '/' directly before a chunk starting with '*' or '/' would open a comment ("a / *p" -> "a/*p"): forced space.
    * (the guard looks at the direct successor, as for the two clauses above; [], {{, }}, () and @"-strings are exempt from the guard altogether) */
   __CPROVER_assert((g_kw_asked && len_pc > 0 && last_pc == '/' && len_next > 0 && (first_next == '*' || first_next == '/')) ==> forced, "postcondition: space_text a '/' before '*' or '/' gets PCF_FORCE_SPACE (no comment opener is created)");
   /* the forced space is honoured: at least one column between the two chunks */
   __CPROVER_assert(forced ==> column >= prev_column + 1, "postcondition: space_text a forced space yields at least one blank");
   /* C19-K3: the decision applied to columns (Force: exactly max(1,min_sp); Remove: none; Add: at least max(1,min_sp);
    * Ignore: the gap the input had, when it can be measured) */
   __CPROVER_assert(g_av == 3 ==> column == prev_column + (size_t)msp, "postcondition: space_text Force gives exactly max(1, min_sp) blanks");
   __CPROVER_assert(g_av == 2 ==> column == prev_column, "postcondition: space_text Remove gives no blank");
   __CPROVER_assert(g_av == 1 ==> column >= prev_column + (size_t)msp, "postcondition: space_text Add gives at least max(1, min_sp) blanks");
   __CPROVER_assert((g_av == 0 && Chunk_m_origColEnd(pc) != 0 && Chunk_m_origCol(next) >= Chunk_m_origColEnd(pc)) ==> column == prev_column + (Chunk_m_origCol(next) - Chunk_m_origColEnd(pc)),
                    "postcondition: space_text Ignore keeps the gap of the input");
   __CPROVER_assert((g_av == 0 && !(Chunk_m_origColEnd(pc) != 0 && Chunk_m_origCol(next) >= Chunk_m_origColEnd(pc)) && Chunk_m_type(pc) != CT_VBRACE_OPEN_V) ==> column == prev_column,
                    "postcondition: space_text Ignore adds nothing where the input gap cannot be measured");
   if (forced && g_av == 3) { __CPROVER_assert(0, "VACUITY_CANARY space_text: forced space"); }
   if (g_fp_asked && g_fp_found && !forced) { __CPROVER_assert(0, "VACUITY_CANARY space_text: punctuator pair allowed to touch"); }
   if (g_av == 0 && column > prev_column) { __CPROVER_assert(0, "VACUITY_CANARY space_text: ignore keeps a gap"); }
}
#endif
