"""C15 Configuration round-trips -- kernel: enumerated option values."""
import os
import sys
sys.path.insert(0, os.path.join(os.path.dirname(os.path.abspath(__file__)), '..', '..', 'tools'))
from prover import Proof  # noqa: E402
NEED_OPTIONS = True
IMPL = 'contracts/C15/enum.impl.cpp'


def P(name, fns, **kw):
    return Proof(name, impl=IMPL, spec=None, harness='h_' + name, plain=True, no_contract=True, unwind=16, solver=None, functions=fns,
                 expect=['postcondition: '], drop_flags=['--conversion-check'],
                 note='lemma over two real functions, checked as a direct verification condition; strcasecmp loops unwound 16 (longest value word: 11 characters) with unwinding assertions: complete', **kw)


PROOFS = [
    P('rt_bool', ['option_enum.cpp (generated): to_string(bool)', 'convert_string(const char*, bool&)']),
    P('rt_iarf', ['option_enum.cpp (generated): to_string(iarf_e)', 'convert_string(const char*, iarf_e&)'],
      mutants=[('remove_spelled_wrong', r'return "remove";', 'return "removed";', 'postcondition'),
               ('force_maps_to_add', r'else if \(strcasecmp\(in, "force"\) == 0\)\n   \{\n      out = IARF_FORCE;', 'else if (strcasecmp(in, "force") == 0)\n   {\n      out = IARF_ADD;', 'postcondition')]),
    P('rt_le', ['option_enum.cpp (generated): to_string(line_end_e)', 'convert_string(const char*, line_end_e&)'],
      mutants=[('cr_crlf_swapped', r'case LE_CR:\n      return "cr";', 'case LE_CR:\n      return "crlf";', 'postcondition')]),
    P('rt_tp', ['option_enum.cpp (generated): to_string(token_pos_e)', 'convert_string(const char*, token_pos_e&)'],
      mutants=[('lead_break_lost', r'else if \(strcasecmp\(in, "lead_break"\) == 0\)', 'else if (strcasecmp(in, "lead-break") == 0)', 'postcondition')]),
    P('reject', ['option_enum.cpp (generated): convert_string refuses unknown words'],
      mutants=[('assign_before_check', r'(?s)(convert_string\(const char \*in, iarf_e &out\).*?)\{\n      return\(false\);\n   \}\n\}', r'\1{\n      out = IARF_IGNORE;\n      return(false);\n   }\n}', 'postcondition')]),
    Proof('print_custom_keyword_one', impl='contracts/C15/custkw.impl.cpp', spec='contracts/C15/custkw.spec.c', harness='h_print_custom_keyword_one', plain=True, no_contract=True, canaries=2, rules={},
          nondet_static='.*(g_pair).*', expect=['postcondition: print_custom_keywords'], drop_flags=['--conversion-check'],
          functions=['keywords.cpp:print_custom_keywords (fragment: one iteration of the loop over the dynamic keyword map)'],
          assumed=['find_token_name(get_token_name(t)) == t (name table of token_enum.h)', 'the loader side: contract of process_option_line (C16-K5)'],
          mutants=[('macro_else_written_as_close', r'"macro-else %\*\.s%s\\n"', '"macro-close %*.s%s\\\\n"', 'postcondition'),
                   ('set_without_token_name', r'fprintf\(pfile, "set %s %\*\.s%s\\n",\n\s*tn,', 'fprintf(pfile, "set %s %*.s%s\\\\n",\n                 "x",', 'postcondition|pointer')]),
    Proof('save_string_value', impl='contracts/C15/strval.impl.cpp', spec='contracts/C15/strval.spec.c', harness='h_save_string_value', enforce='save_string_value/save_string_value_contract', canaries=2,
          rules={'save_string_value': [('D1?', {'__auto__': {}})]}, partial_loops=True, fallback_unwind=2,
          loops=[dict(fn='save_string_value', id=0, vars=['__i0'], assigns='__i0, g_rd_state, g_dec_n, g_dec_at_K',
                      inv='__i0 <= VAL_SIZE && g_rd_state == 1 && g_dec_n == __i0 && (g_dec_K < __i0 ==> g_dec_at_K == (int)VAL_DATA[g_dec_K])', decreases='VAL_SIZE - __i0')],
          functions=['option.cpp:save_option_file (fragment: the OT_STRING branch)'], expect=['save_string_value_contract.postcondition', 'loop_invariant_step'],
          assumed=['reader model: quoted-string branch of split_args() (a backslash is erased, the character after it is taken literally, the string ends at the first unescaped quote)'],
          mutants=[('quote_not_escaped', r"\|\| ch == '\"'\)", ')', 'postcondition|loop_invariant'),
                   ('backslash_not_escaped', r"if \(  ch == '\\\\'\n\s*\|\| ch == '\"'\)", "if (ch == '\"')", 'postcondition|loop_invariant')]),
]
for _p in PROOFS:
    if _p.name == 'save_string_value':
        _p.macro_headers = ['../C15/strval_macros.h']
EXPLANATION = ('Kernel of C15 (enumerated values): option_enum.cpp is regenerated on every run from /repo (scripts/make_option_enum.py + src/option_enum.cpp.in + src/option.h, as '
               'the build does) and its real to_string()/convert_string() are proved inverse for every value of bool, iarf_e, line_end_e and token_pos_e; unknown words are refused without touching the target.')
K = ['K2 save_option_file (OT_STRING branch): what is written for a string value, read by the quoted-string branch of split_args (model), is the value - for a value of any length, every character', 'K3 print_custom_keywords (one iteration): every dynamic keyword is written as a line the loader maps back to the same (keyword, token) pair: `type K`, `macro-open|close|else K`, `set <token name> K` (reader side: contract of process_option_line, C16-K5)', 'K1 convert_string(to_string(v)) == v for every enumerated value', 'K1b unknown word => false, target unchanged']
G = ['string values: the reader side (split_args) is a model read from the code, not verified; formerly: NOT covered; the property itself quotes that values containing \\ or " do not round-trip',
     'numeric values (strtol / to_string of libc), file_ext mappings (print_extensions), include directives: NOT covered',
     'save_option_file writes each option through these to_string functions and load_option_file reads through convert_string (process_option_line): not under contract',
     '"byte-identical formatting under the reloaded config" follows only if every option value is restored: NOT covered beyond enumerated values']

sys.path.insert(0, os.path.join(os.path.dirname(os.path.abspath(__file__)), '..', '..', 'tools'))
import replay_lib  # noqa: E402
REPLAY = replay_lib.make_replay(replay_lib.scenario_custom_keywords_roundtrip, replay_lib.scenario_string_value_roundtrip, replay_lib.scenario_enum_roundtrip)


def static_facts(repo):
    """What the fragment extraction of print_custom_keywords drops is exactly the range-for header over the dynamic keyword map."""
    import re
    t = open(os.path.join(repo, 'src/keywords.cpp')).read()
    mo = re.search(r'void print_custom_keywords\(FILE \*pfile\)\n\{\n   for \(const auto &keyword_pair : dkwm\)\n   \{\n      (const )?E_Token tt = keyword_pair\.second;', t)
    mo2 = re.search(r'fprintf\(pfile, "%s%\*\.s= ", option->name\(\), pad, " "\);\n\n         if \(option->type\(\) == OT_STRING\)', t2 := open(os.path.join(repo, 'src/option.cpp')).read())
    return [('save_option_file: the OT_STRING branch directly follows the write of `name = `', bool(mo2), ''), ('print_custom_keywords: the sliced loop body is the whole body of `for (const auto &keyword_pair : dkwm)`, the only statement of the function', bool(mo), '')]
