/* the value being written (contracts/C15/strval.impl.cpp: g_val.d), seen from C */
struct seq_char; extern struct seq_char *const VAL;
extern const unsigned long OFF_VAL_data, OFF_VAL_size;
#define VAL_SIZE (*(unsigned long *)((char *)VAL + OFF_VAL_size))
#define VAL_DATA (*(char **)((char *)VAL + OFF_VAL_data))
