// Translation unit for the writer of the custom keywords (C15-K3): one iteration of the loop of print_custom_keywords() (src/keywords.cpp), sliced
// verbatim as a fragment (from `E_Token tt = keyword_pair.second;` to the brace that closes the range-for) and wrapped into a function of the
// element.  What the extraction drops: the for header `for (const auto &keyword_pair : dkwm)` (static fact, re-checked on every run).
// fprintf is a recorder: which command word the line starts with (the words the loader process_option_line() knows: contracts/C16/pol_lits.h),
// the token name printed after `set`, and the keyword text.
#include "token_enum.h"      /* from the working tree: -I <repo>/src */
#define VERIF_E_TOKEN
#include "base.h"
#include "../C16/pol_lits.h"
struct FILE { int dummy; };
namespace uncrustify { namespace limits { static const int MAX_OPTION_NAME_LEN = 32; } }
extern "C" {
unsigned g_lines, g_cmd, g_tn_token; const char *g_kw_arg; bool g_fmt_ok;
}
// does the format string start with the word w followed by a blank?  (literals, compared without a loop)
static bool starts_with_word(const char *f, const char *w)
{
#define SW_CH(k) if (w[k] == 0) { return(f[k] == ' '); } if (f[k] != w[k]) { return(false); }
   SW_CH(0) SW_CH(1) SW_CH(2) SW_CH(3) SW_CH(4) SW_CH(5) SW_CH(6) SW_CH(7) SW_CH(8) SW_CH(9) SW_CH(10) SW_CH(11) SW_CH(12)
   return(false);
}
static unsigned first_word(const char *f)
{
   return(starts_with_word(f, "type") ? LIT_type : starts_with_word(f, "set") ? LIT_set : starts_with_word(f, "macro-open") ? LIT_macro_open
          : starts_with_word(f, "macro-close") ? LIT_macro_close : starts_with_word(f, "macro-else") ? LIT_macro_else : starts_with_word(f, "file_ext") ? LIT_file_ext
          : starts_with_word(f, "include") ? LIT_include : starts_with_word(f, "using") ? LIT_using : LIT_none);
}
// the names of the tokens: get_token_name(tt) is the text find_token_name() maps back to tt (ASSUMED inverse pair of src/keywords.cpp / token_names.h)
static char g_token_names[1024];
static const char *get_token_name(E_Token tt) { return(&g_token_names[(unsigned)tt & 1023]); }
static size_t strlen(const char *s) { size_t n = nondet_size_t(); __CPROVER_assume(n < 64); return(n); }
// "<word> %*.s%s\n": word, padding width, padding text, keyword
static int fprintf(FILE *f, const char *fmt, int width, const char *pad, const char *kw)
{
   g_lines++; g_cmd = first_word(fmt); g_kw_arg = kw; g_tn_token = 0xffffffffu;
   return(0);
}
// "set %s %*.s%s\n": token name, padding width, padding text, keyword
static int fprintf(FILE *f, const char *fmt, const char *tn, int width, const char *pad, const char *kw)
{
   g_lines++; g_cmd = first_word(fmt); g_kw_arg = kw; g_tn_token = (unsigned)(tn - &g_token_names[0]);
   return(0);
}
struct kw_text { char tag; const char *c_str() const { return(&tag); } };
struct kw_pair { kw_text first; E_Token second; };
static kw_pair g_pair;
extern "C" {
void print_custom_keyword_one(FILE *pfile)
{
   const kw_pair &keyword_pair = g_pair;
   {
//@slice src/keywords.cpp frag print_custom_keyword_one /^      (const )?E_Token tt = keyword_pair\.second;$/ /^   \}$/
}
extern const unsigned CT_TYPE_V = CT_TYPE, CT_MACRO_OPEN_V = CT_MACRO_OPEN, CT_MACRO_CLOSE_V = CT_MACRO_CLOSE, CT_MACRO_ELSE_V = CT_MACRO_ELSE;
extern unsigned *const PAIR_TOKEN = (unsigned *)&g_pair.second; extern const char *const PAIR_TEXT = &g_pair.first.tag;
}
