/* C15 "string values containing spaces, quotes, backslashes ... a saved config reloads to the same settings": what save_option_file() writes for a string
 * option, read back by the quoted-string branch of split_args(), is the value - character by character, for a value of any length. */
#include "common.h"
extern unsigned g_rd_state; extern size_t g_dec_n, g_dec_K; extern int g_dec_at_K;
#include "../C15/strval_macros.h"
struct FILE;
void save_string_value_contract(struct FILE *pfile)
__CPROVER_requires(VAL_SIZE < (1UL << 40) && __CPROVER_is_fresh(VAL_DATA, VAL_SIZE) && g_rd_state == 0 && g_dec_n == 0 && g_dec_K < VAL_SIZE)
__CPROVER_assigns(g_rd_state, g_dec_n, g_dec_at_K)
/* the reader sees exactly one complete quoted string ... */
__CPROVER_ensures(g_rd_state == 3)
/* ... of the length of the value ... */
__CPROVER_ensures(g_dec_n == VAL_SIZE)
/* ... whose K-th character is the K-th character of the value, for every K */
__CPROVER_ensures(g_dec_at_K == (int)VAL_DATA[g_dec_K])
;
void save_string_value(struct FILE *pfile);
void h_save_string_value(void)
{
   struct FILE *f;
   save_string_value(f);
   if (g_dec_n > 2) { __CPROVER_assert(0, "VACUITY_CANARY string value of several characters"); }
   if (g_dec_at_K == '\\') { __CPROVER_assert(0, "VACUITY_CANARY string value with a backslash"); }
}
