// Translation unit for the writer of string option values (C15-K2): the OT_STRING branch of save_option_file() (src/option.cpp), sliced verbatim as a
// fragment and wrapped into a function of the value.  What the extraction drops: the rest of save_option_file().  Every byte written goes into a model of the
// READER, the quoted-string branch of split_args() (src/option.cpp; ASSUMED, read from the code: inside quotes a backslash is erased and the character after
// it is taken as it is; the string ends at the first quote that is not escaped): the contract states that what the reader decodes is the value.
#include "base.h"
#include "containers.h"
//@slice src/option.h struct option_type_e
static const option_type_e OT_STRING = option_type_e::STRING;   // alias of the generated option_enum.h
struct FILE { int dummy; };
extern "C" {
// reader automaton: 0 before the opening quote, 1 inside the quotes, 2 directly after a backslash, 3 closed, 4 text after the closing quote / no opening quote
unsigned g_rd_state; size_t g_dec_n, g_dec_K; int g_dec_at_K;
static void rd_emit(int ch) { if (g_dec_n == g_dec_K) { g_dec_at_K = ch; } g_dec_n++; }
void rd_feed(int ch)
{
   if (g_rd_state == 0) { g_rd_state = (ch == '"') ? 1 : 4; }
   else if (g_rd_state == 1) { if (ch == '\\') { g_rd_state = 2; } else if (ch == '"') { g_rd_state = 3; } else { rd_emit(ch); } }
   else if (g_rd_state == 2) { rd_emit(ch); g_rd_state = 1; }
   else { g_rd_state = 4; }
}
int fputc(int ch, FILE *f) { rd_feed(ch); return(ch); }
}
// std::string as (characters, size)
struct str_model
{
   seq_t<char> d;
   size_t size() const { return(d.m_size); }
   char operator[](size_t i) const { return(d.m_data[i]); }
   const char *c_str() const { return(d.m_data); }
};
static str_model g_val;
// fprintf(f, "\"%s\"", s) writes the quote, the text as it is, the quote: for the reader that is the value only if the text holds neither a backslash nor a quote.
// (ghost position g_dec_K: "for every character of the text")
static int fprintf(FILE *f, const char *fmt, const char *s)
{
   VASSERT(g_dec_K >= g_val.d.m_size || (s[g_dec_K] != '\\' && s[g_dec_K] != '"'), "a string value is written between quotes without escaping its backslashes and quotes: the loader reads another value");
   g_rd_state = 3; g_dec_n = g_val.d.m_size; if (g_dec_K < g_val.d.m_size) { g_dec_at_K = s[g_dec_K]; }
   return(0);
}
struct opt_model { option_type_e type() const { return(OT_STRING); } };
extern "C" {
void save_string_value(FILE *pfile)
{
   const str_model &val = g_val;
   opt_model       o;
   opt_model       *option = &o;
//@slice src/option.cpp frag save_string_value /^         if \(option->type\(\) == OT_STRING\)$/ /^         \}$/
}
extern seq_t<char> *const VAL = &g_val.d;
extern const unsigned long OFF_VAL_data = (unsigned long)&(((seq_t<char> *)0)->m_data), OFF_VAL_size = (unsigned long)&(((seq_t<char> *)0)->m_size);
}
#include "offsets_cpp.h"
