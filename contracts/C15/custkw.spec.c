/* C15 "the file written by --update-config, when loaded again, yields ... the same custom types, 'set' keywords, macro-open/else/close words":
 * every line print_custom_keywords() writes for a dynamic keyword must be a line the loader (process_option_line(), contract in contracts/C16/pol.spec.c)
 * turns back into the same (keyword, token) pair: `type K` for CT_TYPE, `macro-open K` / `macro-close K` / `macro-else K` for the macro tokens and
 * `set <token name> K` for every other token. */
#include "../C16/pol_lits.h"
extern unsigned g_lines, g_cmd, g_tn_token; extern const char *g_kw_arg;
extern const unsigned CT_TYPE_V, CT_MACRO_OPEN_V, CT_MACRO_CLOSE_V, CT_MACRO_ELSE_V;
extern unsigned *const PAIR_TOKEN; extern const char *const PAIR_TEXT;
struct FILE;
void print_custom_keyword_one(struct FILE *pfile);
void h_print_custom_keyword_one(void)
{
   struct FILE *f;
   unsigned tt = *PAIR_TOKEN;
   __CPROVER_assume(tt < 1024);
   g_lines = 0;
   print_custom_keyword_one(f);
   unsigned want = tt == CT_TYPE_V ? LIT_type : tt == CT_MACRO_OPEN_V ? LIT_macro_open : tt == CT_MACRO_CLOSE_V ? LIT_macro_close : tt == CT_MACRO_ELSE_V ? LIT_macro_else : LIT_set;
   __CPROVER_assert(g_lines == 1, "postcondition: print_custom_keywords one line per keyword");
   __CPROVER_assert(g_cmd == want, "postcondition: print_custom_keywords the line starts with the command word the loader maps back to this token (type / macro-open / macro-close / macro-else / set)");
   __CPROVER_assert(g_kw_arg == PAIR_TEXT, "postcondition: print_custom_keywords the keyword written is this keyword");
   __CPROVER_assert(want == LIT_set ==> g_tn_token == tt, "postcondition: print_custom_keywords `set` names this keyword's token");
   if (tt == CT_TYPE_V) { __CPROVER_assert(0, "VACUITY_CANARY custom type"); }
   if (want == LIT_set) { __CPROVER_assert(0, "VACUITY_CANARY set keyword"); }
}
