// Translation unit for the enumerated option values (C15-K1): to_string() / convert_string() of the generated
// src/option_enum.cpp -- regenerated on every run from /repo with the repository's own scripts/make_option_enum.py
// and src/option_enum.cpp.in (exactly as CMake's py_gen does) and sliced verbatim from that output.
#include "base.h"
//@slice src/option.h struct option_type_e
//@slice src/option.h struct iarf_e
//@slice src/option.h struct line_end_e
//@slice src/option.h struct token_pos_e
// value aliases of the generated src/option_enum.h (constexpr auto X = enum::x there); macros here because the front end
// does not accept a static const enum object as a case label
#define IARF_IGNORE iarf_e::IGNORE
#define IARF_ADD iarf_e::ADD
#define IARF_REMOVE iarf_e::REMOVE
#define IARF_FORCE iarf_e::FORCE
#define LE_LF line_end_e::LF
#define LE_CRLF line_end_e::CRLF
#define LE_CR line_end_e::CR
#define LE_AUTO line_end_e::AUTO
#define TP_IGNORE token_pos_e::IGNORE
#define TP_BREAK token_pos_e::BREAK
#define TP_FORCE token_pos_e::FORCE
#define TP_LEAD token_pos_e::LEAD
#define TP_TRAIL token_pos_e::TRAIL
#define TP_JOIN token_pos_e::JOIN
#define TP_LEAD_BREAK token_pos_e::LEAD_BREAK
#define TP_LEAD_FORCE token_pos_e::LEAD_FORCE
#define TP_TRAIL_BREAK token_pos_e::TRAIL_BREAK
#define TP_TRAIL_FORCE token_pos_e::TRAIL_FORCE
#define EX_SOFTWARE 70
#define fprintf(...) ((void)0)
#define log_flush(x) ((void)0)
extern "C" {
// libc: ASCII strcasecmp ("C" locale)
static int lower(int c) { return (c >= 'A' && c <= 'Z') ? c + 32 : c; }
int strcasecmp(const char *a, const char *b)
{
   size_t i = 0;
   while (a[i] != 0 && lower((unsigned char)a[i]) == lower((unsigned char)b[i])) { i++; }
   return lower((unsigned char)a[i]) - lower((unsigned char)b[i]);
}
void exit(int) { __CPROVER_assert(0, "postcondition: to_string() never reaches its 'Unknown value' exit for a value of the enumeration"); __CPROVER_assume(0); }
}
//@slice @GEN/option_enum.cpp fn convert_string nth=0 key=cs_bool
//@slice @GEN/option_enum.cpp fn convert_string nth=1 key=cs_iarf
//@slice @GEN/option_enum.cpp fn convert_string nth=2 key=cs_le
//@slice @GEN/option_enum.cpp fn convert_string nth=3 key=cs_tp
//@slice @GEN/option_enum.cpp fn to_string nth=1 key=ts_bool
//@slice @GEN/option_enum.cpp fn to_string nth=2 key=ts_iarf
//@slice @GEN/option_enum.cpp fn to_string nth=3 key=ts_le
//@slice @GEN/option_enum.cpp fn to_string nth=4 key=ts_tp
#define CANARY(msg) __CPROVER_assert(0, "VACUITY_CANARY " msg)
#define ENSURE(c, msg) __CPROVER_assert((c), "postcondition: " msg)
// Lemma (C15: "a saved config reloads to the same settings", enumerated values): convert_string(to_string(v)) == v
// for every value v of the enumeration.  Both functions are the real ones; direct verification condition.
extern "C" {
void h_rt_bool() { bool v = nondet_bool(); bool out = !v; bool ok = convert_string(to_string(v), out); ENSURE(ok && out == v, "bool round trip"); if (v) { CANARY("rt bool true"); } }
void h_rt_iarf()
{
   int k = nondet_int(); __CPROVER_assume(k >= 0 && k <= 3);
   iarf_e v = (iarf_e)k, out = (iarf_e)((k + 1) & 3);
   bool ok = convert_string(to_string(v), out);
   ENSURE(ok && out == v, "iarf_e round trip (ignore/add/remove/force)");
   if (k == 3) { CANARY("rt iarf force"); }
}
void h_rt_le()
{
   int k = nondet_int(); __CPROVER_assume(k >= 0 && k <= 3);
   line_end_e v = (line_end_e)k, out = (line_end_e)((k + 1) & 3);
   bool ok = convert_string(to_string(v), out);
   ENSURE(ok && out == v, "line_end_e round trip (lf/crlf/cr/auto)");
   if (k == 2) { CANARY("rt le cr"); }
}
void h_rt_tp()
{
   int k = nondet_int();
   __CPROVER_assume(k == 0 || k == 1 || k == 2 || k == 4 || k == 8 || k == 16 || k == 5 || k == 6 || k == 9 || k == 10);
   token_pos_e v = (token_pos_e)k, out = (token_pos_e)(k == 0 ? 1 : 0);
   bool ok = convert_string(to_string(v), out);
   ENSURE(ok && out == v, "token_pos_e round trip (all ten values)");
   if (k == 10) { CANARY("rt tp trail_force"); }
}
// unknown words are refused and leave the target untouched (C16: wrong-typed value has no effect)
void h_reject()
{
   char w[4]; w[0] = nondet_uchar(); w[1] = nondet_uchar(); w[2] = nondet_uchar(); w[3] = 0;
   __CPROVER_assume(w[0] == 'q' || w[0] == 'z' || w[0] == '#');   // no value of any enumeration starts with these
   iarf_e o1 = IARF_FORCE; bool ok1 = convert_string(w, o1);
   ENSURE(!ok1 && o1 == IARF_FORCE, "convert_string(iarf_e) refuses an unknown word and leaves the target unchanged");
   token_pos_e o2 = TP_JOIN; bool ok2 = convert_string(w, o2);
   ENSURE(!ok2 && o2 == TP_JOIN, "convert_string(token_pos_e) refuses an unknown word and leaves the target unchanged");
   CANARY("reject end");
}
}
