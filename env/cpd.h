// Environment: struct cp_data_t with the scalar fields of the real struct (src/uncrustify_types.h) that
// the verified slices read or write, *with the real field types* (UINT16 spaces wraps at 65536 exactly
// as in the real build).  tools/check.py compares these field types against /repo's struct on every run
// (a changed type makes the run exit 2).  Aggregates not needed by any slice (std::string filename,
// the file_mem headers, al[]) are omitted or replaced by a scalar placeholder.
#ifndef VERIF_CPD_H
#define VERIF_CPD_H
#include "base.h"
#include "containers.h"
#include "unctext.h"
#include "sink.h"
#ifndef VERIF_HAVE_ENUMS
enum class char_encoding_e : unsigned int { e_ASCII, e_BYTE, e_UTF8, e_UTF16_LE, e_UTF16_BE };
#endif
#ifndef VERIF_E_TOKEN
typedef unsigned int E_Token_stub;
#define VERIF_E_TOKEN_T E_Token_stub
#else
#define VERIF_E_TOKEN_T E_Token
#endif
#ifndef VERIF_UNC_STAGE_T
#define VERIF_UNC_STAGE_T unsigned int
#endif
namespace uncrustify { static const size_t line_end_styles = 3; }
#ifndef VERIF_FS_H
struct utimbuf { long actime; long modtime; };
#endif
// struct file_mem (src/uncrustify_types.h) with the real member names; containers renamed per D9
struct file_mem                 //@struct
{
   vector_UINT8    raw;         //@f& struct vector_UINT8
   deque_int       data;        //@f& struct deque_int
   bool            bom;         //@f
   char_encoding_e enc;         //@f unsigned int
   struct utimbuf  utb;
};
struct cp_data_t                       //@struct
{
   deque_UINT8       *bout;            //@f struct deque_UINT8 *
   FILE              *fout;            //@f void *
   int               last_char;        //@f
   bool              do_check;         //@f
   VERIF_UNC_STAGE_T unc_stage;        //@f unsigned int
   int               check_fail_cnt;   //@f
   bool              if_changed;       //@f
#ifdef VERIF_FS_H
   std::string       filename;         //@f& char ifdef=VERIF_FS_H
#endif
   file_mem          func_hdr;         //@f& struct file_mem
   file_mem          oc_msg_hdr;       //@f& struct file_mem
   file_mem          class_hdr;        //@f& struct file_mem
   size_t            lang_flags;       //@f
   bool              lang_forced;      //@f
   bool              unc_off;          //@f
   bool              unc_off_used;     //@f
   UINT32            line_number;      //@f
   size_t            column;           //@f
   UINT16            spaces;           //@f
   int               ifdef_over_whole_file; //@f
   bool              frag;             //@f
   UINT32            frag_cols;        //@f
   UINT32            le_counts[uncrustify::line_end_styles]; //@f unsigned int
   UncText           newline;          //@f& struct UncText
   bool              did_newline;      //@f
   VERIF_E_TOKEN_T   in_preproc;       //@f unsigned int
   int               preproc_ncnl_count; //@f
   bool              output_trailspace;  //@f
   bool              output_tab_as_space; //@f
   bool              bom;              //@f
   char_encoding_e   enc;              //@f unsigned int
   int               changes;          //@f
   int               pass_count;       //@f
   size_t            al_cnt;           //@f
   bool              al_c99_array;     //@f
   bool              warned_unable_string_replace_tab_chars; //@f
   int               pp_level;         //@f
   const char        *html_file;       //@f
};
cp_data_t cpd;
#endif
