// Environment: the byte sink.  The only libc output call reachable from the formatter's writers is
// fputc(ch, cpd.fout) in unicode.cpp write_byte() (static fact re-checked on every run: no other
// fputc/fwrite/fprintf on cpd.fout under src/ outside uncrustify.cpp's file handling and the GUI
// helper).  The sink records, for a harness-chosen ghost index g_out_K, the byte written at that
// position: a postcondition stated for arbitrary K is a statement about every byte of the output
// ("ghost index" replacement for a universally quantified postcondition).
#ifndef VERIF_SINK_H
#define VERIF_SINK_H
#include "base.h"
struct FILE { int dummy; };
extern "C" {
size_t g_out_n;      // number of bytes written so far
size_t g_out_K;      // ghost index (any value; chosen by the verifier)
int    g_out_at_K;   // byte written at index K, -1 if none yet
int    g_out_last;   // last byte written, -1 if none
int fputc(int c, FILE *f)
{
   VASSERT(f != 0, "fputc: stream is open");
   if (g_out_n == g_out_K)
   {
      g_out_at_K = (unsigned char)c;
   }
   g_out_last = (unsigned char)c;
   g_out_n++;
   return (unsigned char)c;
}
// the code-point sink: what write_char() is *called with* (one level above the byte sink). Contracts of
// callers of write_char are stated over this sequence; C09 proves write_char turns each code point into
// exactly its encoding in the byte sink, and writes nothing else.
size_t g_chs_n;      // number of write_char calls so far
size_t g_chs_K;      // ghost index
int    g_chs_at_K;   // code point passed by the K-th call
int    g_chs_last;   // last code point
}
#endif
