// Environment stub: std::vector / std::deque as (pointer, size, capacity) triples.
// The *preconditions of the real containers are assertions* here: operator[] out of range,
// push_back beyond the modelled capacity, front()/back()/pop on empty are failed obligations.
// Capacity is a modelling device for an unbounded container: every contract that uses push_back
// states `size + k <= cap` for the k it needs; cap itself is unconstrained (any value), so the
// proofs hold for containers of any length.
#ifndef VERIF_CONTAINERS_H
#define VERIF_CONTAINERS_H
#include "base.h"

template<typename T>
struct seq_t                          //@struct vector_UINT8=seq_t<UINT8>|unsigned char; deque_UINT8=seq_t<UINT8>|unsigned char; deque_int=seq_t<int>|int
{
   T      *m_data;                    //@f
   size_t m_size;                     //@f
   size_t m_cap;                      //@f

   size_t size() const { return m_size; }
   T *data() { return m_data; }
   const T *data() const { return m_data; }
   bool empty() const { return m_size == 0; }
   T &operator[](size_t i)
   {
      VASSERT(i < m_size, "container precondition: index < size()");
      return m_data[i];
   }
   const T &operator[](size_t i) const
   {
      VASSERT(i < m_size, "container precondition: index < size()");
      return m_data[i];
   }
   T &at(size_t i) { return (*this)[i]; }
   const T &at(size_t i) const { return (*this)[i]; }
   void push_back(const T &v)
   {
      VASSERT(m_size < m_cap, "container model: push_back within modelled capacity");
      m_data[m_size] = v;
      m_size++;
   }
   void pop_back()
   {
      VASSERT(m_size > 0, "container precondition: pop_back on non-empty");
      m_size--;
   }
   T &back()
   {
      VASSERT(m_size > 0, "container precondition: back() on non-empty");
      return m_data[m_size - 1];
   }
   const T &back() const
   {
      VASSERT(m_size > 0, "container precondition: back() on non-empty");
      return m_data[m_size - 1];
   }
   T &front()
   {
      VASSERT(m_size > 0, "container precondition: front() on non-empty");
      return m_data[0];
   }
   void clear() { m_size = 0; }
   void reserve(size_t n)
   {
      // only ever called on a freshly constructed (empty) container in the verified slices
      VASSERT(m_size == 0, "container model: reserve() on an empty container only");
      if (n > m_cap)
      {
         m_data = (T *)malloc(n * sizeof(T));
         __CPROVER_assume(m_data != 0);   // allocation failure (std::bad_alloc) is outside the model
         m_cap  = n;
      }
   }
   void resize(size_t n)
   {
      // new elements are value-initialised by the real containers; callers in the verified
      // slices overwrite every element they read, and the model leaves them unconstrained
      // (an over-approximation).
      VASSERT(n <= m_cap, "container model: resize within modelled capacity");
      m_size = n;
   }
};

// Desugaring rule D9 renames the template-ids `vector<UINT8>`, `deque<int>`, `deque<UINT8>` (with or without
// std::) in sliced text to these plain struct names, because a contract written in C can only name a
// parameter type that has a C-spellable tag.  Pure renaming; layout = seq_t<T>.
struct vector_UINT8 : seq_t<UINT8> { vector_UINT8() { m_data = 0; m_size = 0; m_cap = 0; } };
struct deque_UINT8 : seq_t<UINT8> { deque_UINT8() { m_data = 0; m_size = 0; m_cap = 0; } };
struct deque_int : seq_t<int> { deque_int() { m_data = 0; m_size = 0; m_cap = 0; } };
namespace std
{
template<typename T> struct vector : seq_t<T> {};
template<typename T> struct deque : seq_t<T> {};
}
#endif
