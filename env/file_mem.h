// Environment: struct file_mem (src/uncrustify_types.h) with the real member names; containers renamed per D9.
#ifndef VERIF_FILE_MEM_H
#define VERIF_FILE_MEM_H
#include "cpd.h"
#ifndef VERIF_FS_H
struct utimbuf { long actime; long modtime; };
#endif
struct file_mem                 //@struct
{
   vector_UINT8    raw;         //@f& struct vector_UINT8
   deque_int       data;        //@f& struct deque_int
   bool            bom;         //@f
   char_encoding_e enc;         //@f unsigned int
   struct utimbuf  utb;
};
#endif
