// struct file_mem now lives in cpd.h (cp_data_t has file_mem members)
#ifndef VERIF_FILE_MEM_H
#define VERIF_FILE_MEM_H
#include "cpd.h"
#endif
