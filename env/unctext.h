// Environment: declaration of class UncText with the real member layout (m_chars, m_logtext).
// Method *bodies* are not stubbed: each proof slices the real definitions it needs from
// /repo/src/unc_text.cpp (//@slice ... fn UncText::size etc.).  Only update_logtext() (maintains the
// UTF-8 copy used for log messages) is given an empty body here.
#ifndef VERIF_UNCTEXT_H
#define VERIF_UNCTEXT_H
#include "containers.h"
struct verif_string;
class UncText                         //@struct
{
public:
   typedef deque_int             value_type;
   typedef vector_UINT8          log_type;
   UncText() { m_chars.m_data = 0; m_chars.m_size = 0; m_chars.m_cap = 0; m_logtext.m_data = 0; m_logtext.m_size = 0; m_logtext.m_cap = 0; }
   void resize(size_t new_size);
   void clear();
   size_t size() const;
   void set(int ch);
   void set(const UncText &ref);
   void set(const UncText &ref, size_t idx, size_t len = 0);
   void set(const char *ascii_text);
   void set(const value_type &data, size_t idx = 0, size_t len = 0);
   UncText &operator=(int ch);
   UncText &operator=(const UncText &ref);
   UncText &operator=(const char *ascii_text);
   void insert(size_t idx, int ch);
   void insert(size_t idx, const UncText &ref);
   void erase(size_t idx, size_t len = 1);
   void append(int ch);
   void append(const UncText &ref);
   void append(const char *ascii_text);
   void append(const value_type &data, size_t idx = 0, size_t len = 0);
   UncText &operator+=(int ch);
   UncText &operator+=(const UncText &ref);
   UncText &operator+=(const char *ascii_text);
   const char *c_str() const { return ""; }
   static int compare(const UncText &ref1, const UncText &ref2, size_t len = 0, bool tcare = false);
   bool equals(const UncText &ref) const;
   const value_type &get() const;
   int operator[](size_t idx) const;
   const int &at(size_t idx) const;
   int &at(size_t idx);
   const int &back() const;
   void push_back(int ch);
   void pop_back();
   void pop_front();
   bool startswith(const UncText &text, size_t idx = 0) const;
   bool startswith(const char *text, size_t idx = 0) const;
   int find(const char *text, size_t idx = 0) const;
   int rfind(const char *text, size_t idx = 0) const;
   int replace(const char *oldtext, const UncText &newtext);
   void update_logtext() {}
   value_type m_chars;                //@f& struct deque_int
   log_type   m_logtext;         //@f& struct vector_UINT8
};
#endif
