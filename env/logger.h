// Environment: logging is erased.  LOG_FMT / LOG_FUNC_ENTRY / log_rule_B only feed the debug log; they do
// not write formatter state (static fact checked by reading src/logger.cpp, src/log_rules.cpp: they write
// g_log buffers and, for tracking, Chunk::m_trackingList only).
#ifndef VERIF_LOGGER_H
#define VERIF_LOGGER_H
#define LOG_FMT(sev, ...)        ((void)0)
#define LOG_FUNC_ENTRY()         ((void)0)
#define LOG_FUNC_CALL()          ((void)0)
#define LOG_CHUNK(sev, pc)       ((void)0)
#define log_rule_B(rule)         ((void)0)
#define log_rule_NL(rule)        ((void)0)
#define log_pcf_flags(sev, fl)   ((void)0)
#define log_flush(x)             ((void)0)
#define log_sev_on(x)            false
#define get_token_name(x)        ""
#endif
