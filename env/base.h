// Environment stub: basic types (replaces base_types.h / <cstdint> / <cstddef>, which CBMC's C++
// front end cannot read).  Trusted base: widths are those of x86-64 LP64, as in the real build.
#ifndef VERIF_BASE_H
#define VERIF_BASE_H
typedef unsigned long      size_t;
typedef long               ssize_t;
typedef long               ptrdiff_t;
typedef signed char        int8_t;
typedef short              int16_t;
typedef int                int32_t;
typedef long               int64_t;
typedef unsigned char      uint8_t;
typedef unsigned short     uint16_t;
typedef unsigned int       uint32_t;
typedef unsigned long      uint64_t;
typedef char       CHAR;
typedef int8_t     INT8;
typedef int16_t    INT16;
typedef int32_t    INT32;
typedef uint8_t    UINT8;
typedef uint16_t   UINT16;
typedef uint32_t   UINT32;
typedef uint64_t   UINT64;
#ifndef NULL
#define NULL 0
#endif
#define VASSERT(c, msg) __CPROVER_assert((c), msg)
extern "C" {
int  nondet_int();
unsigned nondet_uint();
bool nondet_bool();
size_t nondet_size_t();
unsigned char nondet_uchar();
void *malloc(size_t);
}
#endif
