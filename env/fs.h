// Environment for src/uncrustify.cpp do_source_file(): a path-identity model of std::string and a ghost
// file-system typestate.  Every libc / helper function that touches the file system is *declared* here and
// replaced, in every proof, by a contract in contracts/fileio/fileio.spec.c (these contracts are the stated
// assumptions about libc: each call may succeed or fail, nondeterministically).
#ifndef VERIF_FS_H
#define VERIF_FS_H
struct utimbuf { long actime; long modtime; };
#include "base.h"
#include "containers.h"
#include "sink.h"
#define EX_OK        0
#define EX_SOFTWARE 70
#define EX_IOERR    74
#define UNUSED(variableName)    ((void)variableName)
#define assert(c) VASSERT((c), "assert() in sliced code")
extern "C" {
// ---- ghost typestate ----
const char *g_p_in;          // the two path arguments of the call under verification
const char *g_p_out;
bool g_same_in_out;          // strcmp(in, out) == 0  (in-place rewriting)
char g_tmp_path[1];          // identity of "<out>.uncrustify"
char g_other_path[1];        // identity of any other composed path
FILE g_file_tmp, g_file_out, g_stdout_obj;
FILE *stdout = &g_stdout_obj;
int  errno;
int  g_fs_writes;            // number of file-system modifying calls (open for write, rename, unlink, mkdir, backup, utime)
bool g_target_opened_for_write, g_tmp_open, g_tmp_closed, g_tmp_closed_ok, g_tmp_write_error;
bool g_backup_done_ok;       // backup_copy_file returned EX_OK
bool g_target_is_final;      // the target path holds the bytes this run produced (after rename, or after the "no change" unlink)
bool g_renamed, g_md5_written;
bool g_failure_seen;         // some libc call / helper reported failure
int  g_exit_status;
int  strcmp(const char *a, const char *b)
{
   if (a == b) { return 0; }
   if ((a == g_p_in && b == g_p_out) || (a == g_p_out && b == g_p_in)) { return g_same_in_out ? 0 : 1; }
   return nondet_int();
}
const char *strerror(int) { return ""; }
long time(long *) { return nondet_int(); }
}
// path-identity model of std::string: a string is either exactly one of the C strings it was assigned from,
// or that string with ".uncrustify" appended (only when the base is the out path), or "other".
namespace std
{
struct string
{
   const char *base;
   bool       suffixed;
   string() : base(0), suffixed(false) {}
   string(const char *s) : base(s), suffixed(false) {}
   string &operator=(const char *s) { base = s; suffixed = false; return(*this); }
   string &operator+=(const char *s) { suffixed = true; return(*this); }
   const char *c_str() const { return(suffixed ? ((base == g_p_out) ? g_tmp_path : g_other_path) : base); }
   bool operator!=(const char *s) const { return(suffixed || base != s); }
   bool empty() const { return(base == 0); }
};
}
using std::string;
#endif
