// Environment: declaration of class Chunk with the real data member names and types (subset of
// src/chunk.h: alignment/indentation/tracking data omitted).  Accessor *bodies* are sliced from the real
// src/chunk.h / src/chunk.cpp by each proof (//@slice ... fn Chunk::SetNlCount); nothing is re-implemented here
// except Text() (log argument only).
#ifndef VERIF_CHUNK_H
#define VERIF_CHUNK_H
#include "base.h"
#include "unctext.h"
#ifndef VERIF_NO_PCF
typedef unsigned long PcfFlags_stub;
#endif
class Chunk                              //@struct
{
public:
   static Chunk *const NullChunkPtr;
   bool IsNullChunk() const { return(m_nullChunk); }      // as in src/chunk.h (defined in-class there)
   bool IsNotNullChunk() const { return(!m_nullChunk); }  // as in src/chunk.h
   E_Token GetType() const;
   void SetType(const E_Token token);
   E_Token GetParentType() const;
   void SetParentType(const E_Token token);
   bool Is(E_Token token) const;
   bool IsNot(E_Token token) const;
   const UncText &GetStr() const;
   UncText &Str();
   size_t Len() const;
   const char *Text() const { return ""; }
   size_t GetOrigLine() const;
   size_t GetOrigCol() const;
   size_t GetOrigPrevSp() const;
   void SetOrigPrevSp(size_t col);
   size_t GetColumn() const;
   void SetColumn(size_t col);
   size_t GetNlCount() const;
   void SetNlCount(size_t cnt);
   size_t GetNlColumn() const;
   void SetNlColumn(size_t col);
   bool GetAfterTab() const;
   void SetAfterTab(bool afterTab);
   Chunk *GetNext() const;
   Chunk *GetPrev() const;
   E_Token         m_type;               //@f unsigned int
   E_Token         m_parentType;         //@f unsigned int
   size_t          m_origLine;           //@f
   size_t          m_origCol;            //@f
   size_t          m_origColEnd;         //@f
   size_t          m_origPrevSp;         //@f
   size_t          m_column;             //@f
   size_t          m_columnIndent;       //@f
   size_t          m_nlCount;            //@f
   size_t          m_nlColumn;           //@f
   size_t          m_level;              //@f
   size_t          m_braceLevel;         //@f
   size_t          m_ppLevel;            //@f
   bool            m_afterTab;           //@f
   unsigned long   m_flags;              //@f
   Chunk           *m_next;              //@f struct Chunk *
   Chunk           *m_prev;              //@f struct Chunk *
   Chunk           *m_parent;            //@f struct Chunk *
   UncText         m_str;                //@f& struct UncText
   bool            m_nullChunk;          //@f
};
#endif
