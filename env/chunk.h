// Environment: declaration of class Chunk with the real data member names and types (subset of
// src/chunk.h: alignment/indentation/tracking data omitted).  Accessor *bodies* are sliced from the real
// src/chunk.h / src/chunk.cpp by each proof (//@slice ... fn Chunk::SetNlCount); nothing is re-implemented here
// except Text() (log argument only).
#ifndef VERIF_CHUNK_H
#define VERIF_CHUNK_H
#include "base.h"
#include "unctext.h"
#ifndef VERIF_NO_PCF
typedef unsigned long PcfFlags_stub;
#endif
enum class E_Scope : unsigned int { ALL, PREPROC };   // as in src/chunk.h
static const int ANY_LEVEL = -1;
class Chunk                              //@struct
{
public:
   static Chunk *const NullChunkPtr;
   // constructor of a regular chunk: as Chunk::Chunk(false) + Reset() of src/chunk.cpp for the scalar members kept here
   Chunk() : m_nullChunk(false)
   {
      m_type = CT_NONE; m_parentType = CT_NONE; m_origLine = 0; m_origCol = 0; m_origColEnd = 0; m_origPrevSp = 0; m_column = 0;
      m_columnIndent = 0; m_nlCount = 0; m_nlColumn = 0; m_level = 0; m_braceLevel = 0; m_ppLevel = 999; m_afterTab = false; m_flags = 0;
      m_next = 0; m_prev = 0; m_parent = 0;
   }
   bool IsNullChunk() const { return(m_nullChunk); }      // as in src/chunk.h (defined in-class there)
   bool IsNotNullChunk() const { return(!m_nullChunk); }  // as in src/chunk.h
   E_Token GetType() const;
   void SetType(const E_Token token);
   E_Token GetParentType() const;
   void SetParentType(const E_Token token);
   bool Is(E_Token token) const;
   bool IsNot(E_Token token) const;
   // src/chunk.h: `return(m_str);` -- CBMC's C++ front end mis-types a const reference to a class as non-const
   // ("invalid implicit conversion from const struct UncText to struct UncText &"), hence the cast
   const UncText &GetStr() const { return(*(UncText *)&m_str); }
   UncText &Str();
   size_t Len() const;
#ifdef VERIF_CHUNK_TEXT_DECL
   const char *Text() const;            // defined by the translation unit (the text is used, not only logged)
#else
   const char *Text() const { return ""; }
#endif
   size_t GetOrigLine() const;
   size_t GetOrigCol() const;
   size_t GetOrigPrevSp() const;
   size_t GetOrigColEnd() const;
   void SetOrigColEnd(size_t col);
   void SetOrigPrevSp(size_t col);
   size_t GetColumn() const;
   void SetColumn(size_t col);
   size_t GetNlCount() const;
   void SetNlCount(size_t cnt);
   size_t GetNlColumn() const;
   void SetNlColumn(size_t col);
   bool GetAfterTab() const;
   void SetAfterTab(bool afterTab);
   Chunk *GetNext(const E_Scope scope = E_Scope::ALL) const;
   Chunk *GetPrev(const E_Scope scope = E_Scope::ALL) const;
   Chunk *GetNextNc(const E_Scope scope = E_Scope::ALL) const;
   Chunk *GetNextNl(const E_Scope scope = E_Scope::ALL) const;
   Chunk *GetNextNnl(const E_Scope scope = E_Scope::ALL) const;
   Chunk *GetPrevNc(const E_Scope scope = E_Scope::ALL) const;
   Chunk *GetPpStart() const;
   Chunk *GetNextNcNnl(const E_Scope scope = E_Scope::ALL) const;
   Chunk *GetPrevNcNnl(const E_Scope scope = E_Scope::ALL) const;
   Chunk *GetPrevType(const E_Token type, int level = ANY_LEVEL, E_Scope scope = E_Scope::ALL) const;
   Chunk *GetNextType(const E_Token type, int level = ANY_LEVEL, E_Scope scope = E_Scope::ALL) const;
   Chunk *GetOpeningParen(E_Scope scope = E_Scope::ALL) const;
   Chunk *GetClosingParen(E_Scope scope = E_Scope::ALL) const;
   bool IsString(const char *str, bool caseSensitive = true) const;
   bool IsComment() const;
   bool IsPreproc() const;
   bool IsNewline() const;
   size_t GetColumnIndent() const;
   void SetColumnIndent(size_t col);
   bool IsParenOpen() const;
   bool IsParenClose() const;
   bool IsBraceClose() const;
   bool IsBraceOpen() const;
   bool SafeToDeleteNl() const;
   bool IsSamePreproc(const Chunk *other) const;
   void Swap(Chunk *other);
   bool TestFlags(unsigned long flags) const;
   void SetFlags(unsigned long flags);
   void SetFlagBits(unsigned long setBits);
   void ResetFlagBits(unsigned long resetBits);
   size_t GetLevel() const;
   size_t GetPpLevel() const;
   void SetPpLevel(size_t level);
   void SetOrigLine(size_t line);
   void SetOrigCol(size_t col);
   Chunk *CopyAndAddBefore(Chunk *pos) const;
   Chunk *CopyAndAddAfter(Chunk *pos) const;
   void SetLevel(size_t level);
   size_t GetBraceLevel() const;
   void SetBraceLevel(size_t level);
   bool IsCommentOrNewline() const;
   unsigned long GetFlags() const;
   static Chunk *GetHead();
   static Chunk *GetTail();
   static void Delete(Chunk * &pc);
   E_Token         m_type;               //@f unsigned int
   E_Token         m_parentType;         //@f unsigned int
   size_t          m_origLine;           //@f
   size_t          m_origCol;            //@f
   size_t          m_origColEnd;         //@f
   size_t          m_origPrevSp;         //@f
   size_t          m_column;             //@f
   size_t          m_columnIndent;       //@f
   size_t          m_nlCount;            //@f
   size_t          m_nlColumn;           //@f
   size_t          m_level;              //@f
   size_t          m_braceLevel;         //@f
   size_t          m_ppLevel;            //@f
   bool            m_afterTab;           //@f
   unsigned long   m_flags;              //@f
   Chunk           *m_next;              //@f struct Chunk *
   Chunk           *m_prev;              //@f struct Chunk *
   Chunk           *m_parent;            //@f struct Chunk *
   UncText         m_str;                //@f& struct UncText
   bool            m_nullChunk;          //@f
   bool            m_ghostSafeNl;        //@f   ghost (not a member of the real class): what SafeToDeleteNl() answers for this chunk, in kernels that treat it as an attribute
};
#endif
