// Environment: shells of the option classes of src/option.h.  The class templates Option<T> / BoundedOption<T,min,max>
// (virtual functions, friends, std::string members) are outside the C++ front end's reach; the *functions under contract*
// (BoundedOption::validate, Option<T>::validate, read_number<T>, Option<bool>::read) are sliced verbatim from
// src/option.h / src/option.cpp and attached to these shells by textual instantiation (rules D4/D8):
//    Option<signed> -> Option_signed, Option<unsigned> -> Option_unsigned, Option<bool> -> Option_bool,
//    template arguments min / max of BoundedOption -> the data members m_lo / m_hi (any values lo <= hi of the type),
//    virtual dispatch of validate() -> `m_bounded ? validate_bounded(v) : validate_base(v)`.
#ifndef VERIF_OPTION_STUB_H
#define VERIF_OPTION_STUB_H
#include "base.h"
#ifndef VALIDATE_ARG_T
#define VALIDATE_ARG_T long       /* parameter type of validate() in src/option.h, read from the working tree on every run */
#endif
class GenericOption                      //@struct
{
public:
   option_type_e type() const { return((option_type_e)m_type); }
   const char *name() const { return(""); }
   void warnUnexpectedValue(const char *actual) const;
   void warnIncompatibleReference(const GenericOption *ref) const;
   // the canonical text of the current value (std::string in the real class): an opaque text object, used only through c_str()
   struct text_shell { const char *c_str() const; };
   text_shell str() const { text_shell t; return(t); }
   unsigned m_type;                      //@f
};
struct Option_signed : GenericOption     //@struct
{
   signed operator()() const { return(m_val); }
   bool validate(VALIDATE_ARG_T v) { return(m_bounded ? validate_bounded(v) : validate_base(v)); }
   bool validate_base(VALIDATE_ARG_T);
   bool validate_bounded(VALIDATE_ARG_T val);
   signed m_val;                         //@f int
   signed m_default;                     //@f int
   bool   m_bounded;                     //@f
   signed m_lo;                          //@f int
   signed m_hi;                          //@f int
};
struct Option_unsigned : GenericOption   //@struct
{
   unsigned operator()() const { return(m_val); }
   bool validate(VALIDATE_ARG_T v) { return(m_bounded ? validate_bounded(v) : validate_base(v)); }
   bool validate_base(VALIDATE_ARG_T);
   bool validate_bounded(VALIDATE_ARG_T val);
   unsigned m_val;                       //@f unsigned int
   unsigned m_default;                   //@f unsigned int
   bool     m_bounded;                   //@f
   unsigned m_lo;                        //@f unsigned int
   unsigned m_hi;                        //@f unsigned int
};
// (the including translation unit slices `enum class iarf_e` from src/option.h first)
struct Option_iarf : GenericOption       //@struct
{
   iarf_e operator()() const { return(m_val); }
   iarf_e m_val;                         //@f unsigned int
   iarf_e m_default;                     //@f unsigned int
};
struct Option_bool : GenericOption       //@struct
{
   bool operator()() const { return(m_val); }
   bool read(const char *in);
   bool m_val;                           //@f
   bool m_default;                       //@f
};
#endif
