#!/usr/bin/env python3
"""Entry point:  check.py <property-id> quick|thorough [--only <proof>] [--keep] [--jobs N]

exit 0  every kernel obligation of the property was discharged on code sliced now from /repo
exit 1  some obligation FAILED (and is not a listed known finding): prints
        VIOLATION property=<id> replay=<path>[ no-failing-input-found]
exit 2  undecided (slice not found, front-end error, timeout, vacuous, missing named obligation ...):
        prints UNDECIDED property=<id> reason=...   (never a VIOLATION line)
"""
import concurrent.futures
import importlib.util
import json
import os
import re
import shutil
import sys
import tempfile
import time

VERIF = os.path.dirname(os.path.abspath(__file__))
sys.path.insert(0, os.path.join(VERIF, 'tools'))
import gen      # noqa: E402
import prover   # noqa: E402
import slicer   # noqa: E402

REPO = prover.REPO
ENV_HEADERS = ['containers.h', 'unctext.h', 'cpd.h']

STANDING_ASSUMPTIONS = [
    "TRUSTED environment stubs under /verif/env (containers as (data,size,cap) triples with the real containers' preconditions as assertions; cp_data_t with the real scalar field types; byte sink fputc; libc models): proofs hold for the sliced functions running against these models",
    "desugaring rules D1-D8 (range-for, brace temporaries, declaration-in-condition, dropped attributes, const reference members, LCURRENT constants, named token substitutions) are assumed semantics preserving; every firing is listed per slice in functions_under_contract",
    "CBMC 6.11: goto-cc C++ front end, goto-instrument DFCC contract instrumentation, built-in SAT back end are trusted",
    "machine arithmetic is CBMC's bit-precise x86-64 LP64 model; unsigned wrap-around is defined behaviour and not flagged; container capacities are any value <= 2^40 elements",
    "everything not sliced is outside the proof: callees are replaced by their contracts (each proved in its own proof unless listed under assumed_contracts) and logging is erased",
    "termination is proved only for loops whose contract carries a decreases clause",
]


def load_proofs(pid):
    path = os.path.join(VERIF, 'contracts', pid, 'proofs.py')
    spec = importlib.util.spec_from_file_location('proofs_' + pid, path)
    mod = importlib.util.module_from_spec(spec)
    spec.loader.exec_module(mod)
    return mod


def load_known():
    known, fixed = [], []
    path = os.path.join(VERIF, 'known_findings.txt')
    if os.path.exists(path):
        for line in open(path):
            line = line.strip()
            if not line or line.startswith('#'):
                continue
            if line.startswith('fixed:'):
                fixed.append(line)
                continue
            mo = re.match(r'property=(\S+)\s+proof=(\S+)\s+obligation=(\S+)(?:\s+site=(\S+))?\s*::\s*(.*)$', line)
            if mo:
                known.append({'property': mo.group(1), 'proof': mo.group(2), 'obligation': mo.group(3), 'site': mo.group(4), 'what': mo.group(5)})
    return known, fixed


def check_cpd_types():
    """Supporting fact: field types of the env cp_data_t equal those of the real struct."""
    real = slicer.slice_struct(REPO, 'src/uncrustify_types.h', 'cp_data_t').text
    stub = open(os.path.join(VERIF, 'env/cpd.h')).read()
    stub = stub[re.search(r'^struct cp_data_t', stub, re.M).start():]
    bad = []
    norm = lambda t: re.sub(r'\s+', ' ', t.replace('VERIF_E_TOKEN_T', 'E_Token').replace('VERIF_UNC_STAGE_T', 'unc_stage_e')).strip()
    for mo in re.finditer(r'^\s*([\w:<> ]+?[\s\*]+)(\w+)(\[[^\]]*\])?\s*;\s*//@f', stub, re.M):
        ty, name = norm(mo.group(1)), mo.group(2)
        rm = re.search(r'^\s*([\w:<> ]+?[\s\*]+)' + name + r'(\[[^\]]*\])?\s*(=[^;]*)?;', real, re.M)
        if not rm:
            bad.append('%s: not in real cp_data_t' % name)
            continue
        rty = norm(rm.group(1))
        if rty.replace(' ', '') != ty.replace(' ', ''):
            bad.append('%s: stub %s vs real %s' % (name, ty, rty))
    return bad


def prepare(workroot, need_options=False):
    gdir = os.path.join(workroot, 'gen')
    hdrs = [os.path.join(VERIF, 'env', h) for h in ENV_HEADERS]
    extra = [os.path.join(VERIF, 'env', h) for h in os.listdir(os.path.join(VERIF, 'env'))
             if h.endswith('.h') and h not in ENV_HEADERS and '//@struct' in open(os.path.join(VERIF, 'env', h)).read()]
    gen.gen_offsets(hdrs + sorted(extra), gdir)
    if need_options:
        opts = gen.gen_options(REPO, gdir)
        gen.gen_space(REPO, gdir, opts)
        gen.gen_option_enum(REPO, gdir)
    gen.gen_consts(REPO, gdir)


def expand_macros(expr, workroot, extra_headers=(), defines=()):
    """Expand the offset/ghost macros of contracts/common.h inside a loop-contract string."""
    import subprocess
    src = '#include "common.h"\n' + ''.join('#include "%s"\n' % h for h in extra_headers) + 'EXPANSION_MARKER\n' + expr + '\n'
    p = subprocess.run(['cpp', '-P'] + ['-D' + d for d in defines] + ['-I', os.path.join(VERIF, 'contracts'), '-I', os.path.join(VERIF, 'contracts', 'shared'), '-I', os.path.join(workroot, 'gen'), '-'],
                       input=src, stdout=subprocess.PIPE, stderr=subprocess.PIPE, text=True)
    if p.returncode != 0:
        raise prover.Undecided('macro expansion failed: ' + p.stderr[-500:])
    out = p.stdout.split('EXPANSION_MARKER', 1)[1]
    return ' '.join(out.split())


def write_replay(pid, proof, res, fail, note):
    d = os.path.join(os.environ.get('VERIF_REPLAY_DIR') or os.path.join(VERIF, 'replay'), pid)
    os.makedirs(d, exist_ok=True)
    name = re.sub(r'[^\w.]+', '_', '%s.%s' % (proof.name, fail['obligation']))
    path = os.path.join(d, name + '.json')
    doc = {'property': pid, 'proof': proof.name, 'failed_obligation': fail['obligation'], 'description': fail['description'],
           'location_in_slice': fail['location'], 'functions_under_contract': proof.functions,
           'slices': res['slices'], 'verifier_inputs': fail['inputs'], 'verifier_trace_tail': fail['trace_tail'],
           'verifier_cmd': res.get('checker_cmd'), 'native_replay': note}
    with open(path, 'w') as f:
        json.dump(doc, f, indent=1, default=str)
    return path


def main():
    args = sys.argv[1:]
    if len(args) < 2:
        print(__doc__)
        return 2
    pid, tier = args[0], args[1]
    only = None
    keep = '--keep' in args
    jobs = 16
    if '--only' in args:
        only = args[args.index('--only') + 1].split(',')
    if '--jobs' in args:
        jobs = int(args[args.index('--jobs') + 1])
    t0 = time.time()
    seed = int(os.environ.get('VERIF_SEED', '0') or 0)
    mod = load_proofs(pid)
    os.makedirs('/var/tmp', exist_ok=True)
    workroot = tempfile.mkdtemp(prefix='unc-verif.%s.' % pid, dir='/var/tmp')
    evidence_path = os.path.join(os.environ.get('VERIF_EVIDENCE_DIR') or os.path.join(VERIF, 'evidence'), pid + '.json')
    undecided, violations, known_hits = [], [], []
    results = []
    try:
        try:
            prepare(workroot, getattr(mod, 'NEED_OPTIONS', False))
            bad = check_cpd_types()
            if bad:
                raise prover.Undecided('env cp_data_t differs from /repo: ' + '; '.join(bad))
            facts = mod.static_facts(REPO) if hasattr(mod, 'static_facts') else []
            for name, ok, detail in facts:
                if not ok:
                    raise prover.Undecided('supporting static fact no longer holds: %s: %s' % (name, detail))
        except (prover.Undecided, slicer.SliceError) as e:
            print('UNDECIDED property=%s reason=%s' % (pid, e))
            write_evidence(evidence_path, pid, tier, seed, mod, [], [], t0, undecided=[str(e)], facts=[])
            return 2
        proofs = list(mod.proofs(tier, workroot)) if callable(getattr(mod, 'proofs', None)) else list(mod.PROOFS)
        if tier == 'quick':
            proofs = [p for p in proofs if not getattr(p, 'thorough_only', False)]
        if only:
            proofs = [p for p in proofs if p.name in only]
        for p in proofs:
            for l in p.loops:
                for k in ('inv', 'assigns', 'decreases'):
                    if l.get(k):
                        l[k] = expand_macros(l[k], workroot, getattr(p, 'macro_headers', ()) or getattr(mod, 'MACRO_HEADERS', ()), p.defines)
        known, fixed = load_known()
        known = [k for k in known if k['property'] == pid]

        def job(p):
            return p, prover.run_proof(p, workroot, keep=keep)
        with concurrent.futures.ThreadPoolExecutor(max_workers=jobs) as ex:
            for p, res in ex.map(job, proofs):
                results.append((p, res))
                line = '%-40s %-10s obligations=%d discharged=%d instr+solve=%.1fs %s' % (
                    p.name, res['verdict'].upper(), res['obligations'], res['discharged'], res['wall_s'], res['reason'][:300])
                print(line, flush=True)

        # mutation self-test (thorough): each stored mutant of a slice must make a named obligation FAIL
        mutant_results = []
        if tier == 'thorough':
            mjobs = []
            for p in proofs:
                for (label, pat, rep, expect_re) in p.mutants:
                    mjobs.append((p, label, pat, rep, expect_re))

            def mjob(a):
                p, label, pat, rep, expect_re = a
                r = prover.run_proof(p, workroot, mutate=(pat, rep))
                # any failed obligation that is not a listed known finding detects the mutant; expect_re documents the one intended
                fresh = []
                for f in r['failures']:
                    site = ''
                    if getattr(p, 'site', None):
                        try:
                            site = p.site(f) or ''
                        except Exception:
                            site = ''
                    if not [k for k in known if k['proof'] == p.name and re.search(k['obligation'], f['obligation'] + ' ' + (f['description'] or ''))
                            and (not k.get('site') or re.search(k['site'], site))]:
                        fresh.append(f)
                hit = r['verdict'] == 'violation' and bool(fresh)
                return p.name, label, r['verdict'], hit, [f['obligation'] for f in fresh][:4], r['reason'][:200]
            with concurrent.futures.ThreadPoolExecutor(max_workers=jobs) as ex:
                for name, label, verdict, hit, obs, reason in ex.map(mjob, mjobs):
                    mutant_results.append({'proof': name, 'mutant': label, 'verdict': verdict, 'killed_by_expected_obligation': hit, 'failed': obs})
                    print('  mutant %-30s of %-30s -> %s %s %s' % (label, name, verdict, 'KILLED' if hit else 'NOT-KILLED', obs or reason), flush=True)
                    if not hit:
                        undecided.append('self-test: mutant %s of %s not detected (%s)' % (label, name, verdict))

        for p, res in results:
            if res['verdict'] == 'undecided':
                undecided.append('%s: %s' % (p.name, res['reason']))
            elif res['verdict'] == 'violation':
                for f in res['failures']:
                    site = ''
                    if getattr(p, 'site', None):
                        try:
                            site = p.site(f) or ''
                        except Exception as e:
                            site = 'site-error:%r' % (e,)
                    f['site'] = site
                    k = [k for k in known if k['proof'] == p.name and re.search(k['obligation'], f['obligation'] + ' ' + (f['description'] or ''))
                         and (not k.get('site') or re.search(k['site'], site))]
                    if k:
                        known_hits.append((k[0], p, f))
                    else:
                        violations.append((p, res, f))
        # report
        for k, p, f in known_hits:
            pass
        seen = set()
        for k, p, f in known_hits:
            key = (k['proof'], k['obligation'])
            if key in seen:
                continue
            seen.add(key)
            print('KNOWN-FINDING: property=%s %s' % (pid, k['what']))
        vlines = []
        for p, res, f in violations:
            note = None
            found = False
            rp = p.replay or getattr(mod, 'REPLAY', None)
            if rp:
                try:
                    found, note = rp(REPO, f, workroot)
                except Exception as e:  # replay machinery must never mask the violation
                    note = 'replay raised %r' % (e,)
            else:
                note = 'no native replay route for this obligation; verifier output attached'
            path = write_replay(pid, p, res, f, {'reproduced_on_real_code': bool(found), 'detail': note})
            vl = 'VIOLATION property=%s replay=%s%s' % (pid, path, '' if found else ' no-failing-input-found')
            vlines.append(vl)
            print('  failed obligation: %s :: %s @ %s (proof %s) %s' % (f['obligation'], f['description'], f['location'], p.name, f.get('site', '')))
            print(vl, flush=True)
        write_evidence(evidence_path, pid, tier, seed, mod, results, known_hits, t0, undecided=undecided,
                       facts=facts, violations=len(violations), mutants=mutant_results)
        if violations:
            return 1
        if undecided:
            for u in undecided:
                print('UNDECIDED property=%s reason=%s' % (pid, u[:600]))
            return 2
        print('OK property=%s proofs=%d obligations=%d discharged=%d known-finding-obligations=%d' % (
            pid, len(results), sum(r['obligations'] for _, r in results), sum(r['discharged'] for _, r in results), len(known_hits)))
        return 0
    finally:
        if not keep:
            shutil.rmtree(workroot, ignore_errors=True)
        else:
            print('kept', workroot)


def write_evidence(path, pid, tier, seed, mod, results, known_hits, t0, undecided=(), facts=(), violations=0, mutants=()):
    n_known = len(known_hits)
    proved = [(p, r) for p, r in results if p.kind == 'proof']
    bounded = [(p, r) for p, r in results if p.kind != 'proof']
    # obligations that fail as a *listed known finding* are reported separately and are not part of the proof claim
    obligations = sum(r['obligations'] for p, r in proved) - n_known
    discharged = sum(r['discharged'] for p, r in proved)
    fns = {}
    for p, r in results:
        for s in r['slices']:
            fns['%s:%s' % (s['file'], s['name'])] = s
    assumed = sorted(set(a for p, r in results for a in p.assumed))
    samples = []
    for p, r in results:
        samples += ['%s :: %s' % (p.name, s) for s in r.get('sample_obligations', [])[:3]]
    cmds = [r.get('checker_cmd') for p, r in results if r.get('checker_cmd')]
    doc = {
        'property_id': pid, 'tier': tier, 'seed': seed, 'level': 'proof',
        'coverage': {
            'obligations': obligations, 'discharged': discharged,
            'checker_cmd': cmds[0] if cmds else 'goto-cc; goto-instrument --dfcc main --enforce-contract f/f_contract ...; cbmc',
            'trusted_base': ['cbmc 6.11.0 (goto-cc C++ front end, goto-instrument --dfcc, built-in SAT)', '/verif/env stubs', 'desugaring rules D1-D8 of tools/slicer.py'],
            'samples': samples[:40],
            'explanation': getattr(mod, 'EXPLANATION', ''),
            'proofs': len(proved), 'bounded_standins': len(bounded), 'known_finding_obligations_excluded': n_known,
            'solver_seconds_total': round(sum(r['solver_s'] for p, r in results), 1),
        },
        'functions_under_contract': sorted(fns.values(), key=lambda s: (s['file'], s['name'])),
        'per_proof': [{'proof': p.name, 'kind': p.kind, 'verdict': r['verdict'], 'reason': r['reason'][:500], 'functions': p.functions,
                       'enforce': p.enforce, 'replaced_by_contract': p.replace, 'assumed_contracts': p.assumed,
                       'obligations': r['obligations'], 'discharged': r['discharged'], 'loop_contracts': r['loop_contracts'],
                       'unwind': p.unwind, 'unwindset': p.unwindset, 'bound': p.bound_note, 'backend': r['backend'],
                       'solver_s': r['solver_s'], 'wall_s': r.get('wall_s'), 'canaries_reached': r.get('canaries_reached'),
                       'note': p.note} for p, r in results],
        'bounded': [{'proof': p.name, 'bound': p.bound_note, 'verdict': r['verdict'], 'obligations': r['obligations'],
                     'note': 'bounded stand-in: NOT counted in coverage.obligations/discharged'} for p, r in bounded],
        'assumed_contracts': assumed,
        'kernel_obligations_K': getattr(mod, 'K', []),
        'glue_assumptions_G': getattr(mod, 'G', []),
        'static_supporting_facts': [{'fact': n, 'holds': ok, 'detail': d} for n, ok, d in facts],
        'known_findings': sorted(set(k['what'] for k, p, f in known_hits)),
        'mutation_self_test': list(mutants),
        'undecided': list(undecided),
        'assumptions': STANDING_ASSUMPTIONS + ['G: ' + g for g in getattr(mod, 'G', [])] + ['assumed contract (not proved): ' + a for a in assumed],
        'wall_s': round(time.time() - t0, 1),
        'violations': violations,
    }
    os.makedirs(os.path.dirname(path), exist_ok=True)
    with open(path, 'w') as f:
        json.dump(doc, f, indent=1)


if __name__ == '__main__':
    sys.exit(main())
