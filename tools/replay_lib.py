#!/usr/bin/env python3
"""Native replay of violated obligations on the real code (DESIGN.md 2.6).

When a proof fails, the check calls the proof's replay function with the failed obligation. The functions below
rebuild the real `uncrustify` binary from /repo's *current working tree* into a scratch directory (once per check
run) and drive it through end-to-end scenarios that exercise the mechanism the obligation belongs to. If a scenario
shows the property's observable broken, the replay file records that input (failing input found); otherwise the
violation is still reported with the verifier's trace and the VIOLATION line ends with no-failing-input-found.
"""
import hashlib
import os
import re
import shutil
import subprocess
import tempfile

_built = {}


def build_binary(repo, workroot):
    """cmake build of the working tree into <workroot>/native (cached for this run). Returns path or None."""
    key = (repo, workroot)
    if key in _built:
        return _built[key]
    bdir = os.path.join(workroot, 'native')
    os.makedirs(bdir, exist_ok=True)
    p = subprocess.run(['cmake', '-G', 'Ninja', '-S', repo, '-B', bdir, '-DCMAKE_BUILD_TYPE=Release'], stdout=subprocess.PIPE, stderr=subprocess.STDOUT, text=True)
    if p.returncode == 0:
        p = subprocess.run(['cmake', '--build', bdir, '-j', '16'], stdout=subprocess.PIPE, stderr=subprocess.STDOUT, text=True)
    exe = os.path.join(bdir, 'uncrustify')
    _built[key] = exe if p.returncode == 0 and os.path.exists(exe) else None
    return _built[key]


def run(exe, args, cwd=None, env=None, stdin=None, timeout=120):
    p = subprocess.run([exe] + args, cwd=cwd, env=env, input=stdin, stdout=subprocess.PIPE, stderr=subprocess.PIPE, timeout=timeout)
    return p.returncode, p.stdout, p.stderr


def _tmp(workroot):
    return tempfile.mkdtemp(prefix='replay.', dir=workroot)


def _cfg(d, text, name='c.cfg'):
    path = os.path.join(d, name)
    with open(path, 'w') as f:
        f.write(text)
    return path


SRC = b'int   main( int argc,char**argv ){\nif(argc>1){return 1;}\n  return 0;}\n'


# ---------------------------------------------------------------------------------------------------------------
# C14 / C13: in-place protocol

def scenario_md5_after_rename(exe, workroot):
    """two --replace runs without an edit in between: the backup must still hold the original, and the md5 file must
    describe the file content"""
    d = _tmp(workroot)
    f = os.path.join(d, 'a.c')
    open(f, 'wb').write(SRC)
    cfg = _cfg(d, 'indent_with_tabs = 0\n')
    run(exe, ['-c', cfg, '--replace', f, '-q'])
    md5f = f + '.unc-backup.md5~'
    now = open(f, 'rb').read()
    rec = open(md5f, 'rb').read().split()[0].decode() if os.path.exists(md5f) else None
    if rec != hashlib.md5(now).hexdigest():
        return True, 'after `uncrustify --replace a.c` the md5 file records %s but the file content has md5 %s' % (rec, hashlib.md5(now).hexdigest())
    run(exe, ['-c', cfg, '--replace', f, '-q'])
    bk = open(f + '.unc-backup~', 'rb').read()
    if bk != SRC:
        return True, 'after two --replace runs without an edit the backup no longer holds the original bytes'
    return False, 'md5 file matches the file; backup holds the original after two runs'


_SHIM = r'''
#define _GNU_SOURCE
#include <stdio.h>
#include <dlfcn.h>
#include <string.h>
#include <unistd.h>
#include <stdlib.h>
/* fault injection: fclose() of a stream whose file name ends in ".uncrustify" truncates the file (lost flush) and fails */
int fclose(FILE *f)
{
   static int (*real)(FILE *) = 0;
   if (!real) { real = (int (*)(FILE *))dlsym(RTLD_NEXT, "fclose"); }
   char link[64], path[4096];
   snprintf(link, sizeof(link), "/proc/self/fd/%d", fileno(f));
   ssize_t n = readlink(link, path, sizeof(path) - 1);
   if (n > 11) { path[n] = 0; if (strcmp(path + n - 11, ".uncrustify") == 0 && getenv("VERIF_FAIL_CLOSE")) { fflush(f); if (ftruncate(fileno(f), 5) != 0) { } real(f); return EOF; } }
   /* the same for the backup file: the flush at close fails (disk full / quota / EIO), nothing of the buffered data reaches the file */
   if (n > 12) { path[n] = 0; if (strcmp(path + n - 12, ".unc-backup~") == 0 && getenv("VERIF_FAIL_CLOSE_BACKUP")) { fflush(f); if (ftruncate(fileno(f), 0) != 0) { } real(f); return EOF; } }
   return real(f);
}
/* fault injection: the VERIF_FAIL_FREAD-th fread(buf, 1, 4096, f) (the chunked reader of backup_create_md5_file) fails with a read
 * error: nothing read, error indicator set */
size_t fread(void *ptr, size_t size, size_t nmemb, FILE *f)
{
   static size_t (*real)(void *, size_t, size_t, FILE *) = 0;
   static int seen = 0;
   if (!real) { real = (size_t (*)(void *, size_t, size_t, FILE *))dlsym(RTLD_NEXT, "fread"); }
   const char *k = getenv("VERIF_FAIL_FREAD");
   if (k && size == 1 && nmemb == 4096 && ++seen == atoi(k)) { f->_flags |= 0x20 /* glibc _IO_ERR_SEEN: what a failed read(2) leaves behind */; return 0; }
   return real(ptr, size, nmemb, f);
}
'''


def scenario_failed_close(exe, workroot):
    """fault injection at fclose of the temporary file: the run must exit non-zero and leave the original bytes"""
    d = _tmp(workroot)
    shim_c = os.path.join(d, 'shim.c')
    open(shim_c, 'w').write(_SHIM)
    so = os.path.join(d, 'shim.so')
    p = subprocess.run(['gcc', '-shared', '-fPIC', '-o', so, shim_c, '-ldl'], stdout=subprocess.PIPE, stderr=subprocess.STDOUT, text=True)
    if p.returncode != 0:
        return False, 'could not build the fault-injection shim: ' + p.stdout[-300:]
    f = os.path.join(d, 'a.c')
    open(f, 'wb').write(SRC)
    cfg = _cfg(d, 'indent_with_tabs = 0\n')
    env = dict(os.environ, LD_PRELOAD=so, VERIF_FAIL_CLOSE='1')
    rc, out, err = run(exe, ['-c', cfg, '--no-backup', f, '-q'], env=env)
    now = open(f, 'rb').read()
    if now != SRC or rc == 0:
        return True, 'fclose() of a.c.uncrustify fails after a lost flush: exit status %d, target %s (len %d)' % (rc, 'still original' if now == SRC else 'REPLACED BY THE TRUNCATED FILE', len(now))
    return False, 'failed close: exit status %d, target still holds the original bytes' % rc


def scenario_md5_read_fault(exe, workroot):
    """C14: a read error while the formatted file is digested for the md5 file must not leave an md5 that describes something else
    (the next run would take the file for a user edit and overwrite the backup with uncrustify's own output)"""
    d = _tmp(workroot)
    shim_c = os.path.join(d, 'shim.c')
    open(shim_c, 'w').write(_SHIM)
    so = os.path.join(d, 'shim.so')
    p = subprocess.run(['gcc', '-shared', '-fPIC', '-o', so, shim_c, '-ldl'], stdout=subprocess.PIPE, stderr=subprocess.STDOUT, text=True)
    if p.returncode != 0:
        return False, 'could not build the fault-injection shim: ' + p.stdout[-300:]
    f = os.path.join(d, 'a.c')
    big = b''.join(b'int   v%d  =  %d ;\n' % (i, i) for i in range(1500))      # formatted output > 2 chunks of 4096 bytes
    open(f, 'wb').write(big)
    cfg = _cfg(d, 'indent_with_tabs = 0\n')
    rc, out, err = run(exe, ['-c', cfg, '--replace', f, '-q'], env=dict(os.environ, LD_PRELOAD=so, VERIF_FAIL_FREAD='2'))
    md5f = f + '.unc-backup.md5~'
    now = open(f, 'rb').read()
    rec = open(md5f, 'rb').read().split()[0].decode() if os.path.exists(md5f) and open(md5f, 'rb').read().split() else None
    if rec is not None and rec != hashlib.md5(now).hexdigest():
        rc2, _, _ = run(exe, ['-c', cfg, '--replace', f, '-q'])
        bk = open(f + '.unc-backup~', 'rb').read()
        return True, ('read error on the 2nd chunk while digesting a.c: exit status %d, md5 file records %s but the file has md5 %s; after the next --replace run the backup %s'
                      % (rc, rec, hashlib.md5(now).hexdigest(), 'still holds the original' if bk == big else 'HOLDS UNCRUSTIFY\'S OWN OUTPUT, the original is lost'))
    return False, 'read fault while digesting: exit status %d, md5 file %s' % (rc, 'absent' if rec is None else 'matches the file')


def scenario_backup_close_fault(exe, workroot):
    """C13: the flush of the backup file fails at fclose(): the run must not go on to replace the file"""
    d = _tmp(workroot)
    shim_c = os.path.join(d, 'shim.c')
    open(shim_c, 'w').write(_SHIM)
    so = os.path.join(d, 'shim.so')
    p = subprocess.run(['gcc', '-shared', '-fPIC', '-o', so, shim_c, '-ldl'], stdout=subprocess.PIPE, stderr=subprocess.STDOUT, text=True)
    if p.returncode != 0:
        return False, 'could not build the fault-injection shim: ' + p.stdout[-300:]
    f = os.path.join(d, 'a.c')
    open(f, 'wb').write(SRC)
    cfg = _cfg(d, 'indent_with_tabs = 0\n')
    rc, out, err = run(exe, ['-c', cfg, '--replace', f, '-q'], env=dict(os.environ, LD_PRELOAD=so, VERIF_FAIL_CLOSE_BACKUP='1'))
    now = open(f, 'rb').read()
    bk = open(f + '.unc-backup~', 'rb').read() if os.path.exists(f + '.unc-backup~') else None
    if now != SRC and bk != SRC:
        return True, 'fclose() of a.c.unc-backup~ fails (lost flush): exit status %d, a.c REPLACED while the backup holds %s bytes of the %d original bytes' % (rc, 'no' if not bk else len(bk), len(SRC))
    if rc == 0 and bk != SRC:
        return True, 'fclose() of the backup fails but the exit status is 0'
    return False, 'failed close of the backup: exit status %d, a.c %s' % (rc, 'untouched' if now == SRC else 'replaced, backup complete')


def scenario_corrupt_md5_file(exe, workroot):
    """C13/C14: whatever FILE.unc-backup.md5~ contains, a file that is rewritten gets its backup"""
    d = _tmp(workroot)
    for junk in (b'a' * 120 + b'\n', b'0123456789abcdef' * 3 + b'  a.c\n', b'\n', b'zz\n'):
        f = os.path.join(d, 'a.c')
        open(f, 'wb').write(SRC)
        open(f + '.unc-backup.md5~', 'wb').write(junk)
        if os.path.exists(f + '.unc-backup~'):
            os.unlink(f + '.unc-backup~')
        cfg = _cfg(d, 'indent_with_tabs = 0\n')
        rc, out, err = run(exe, ['-c', cfg, '--replace', f, '-q'])
        now = open(f, 'rb').read()
        bk = open(f + '.unc-backup~', 'rb').read() if os.path.exists(f + '.unc-backup~') else None
        if now != SRC and bk != SRC:
            return True, 'md5 file holding %r...: exit status %d, a.c rewritten but the backup %s' % (junk[:20], rc, 'does not exist' if bk is None else 'differs from the original')
    return False, 'corrupt md5 files: the backup is written every time'


def scenario_failed_backup(exe, workroot):
    """backup cannot be written (read-only directory is not portable as root): use a backup path that is a directory"""
    d = _tmp(workroot)
    f = os.path.join(d, 'a.c')
    open(f, 'wb').write(SRC)
    os.mkdir(f + '.unc-backup~')          # fopen(backup, "wb") fails with EISDIR
    cfg = _cfg(d, 'indent_with_tabs = 0\n')
    rc, out, err = run(exe, ['-c', cfg, '--replace', f, '-q'])
    now = open(f, 'rb').read()
    if now != SRC or rc == 0:
        return True, 'backup file cannot be created: exit status %d, target %s' % (rc, 'still original' if now == SRC else 'REWRITTEN WITHOUT A BACKUP')
    return False, 'failed backup: exit %d, target untouched' % rc


# ---------------------------------------------------------------------------------------------------------------
# C12

def scenario_check_truth(exe, workroot):
    d = _tmp(workroot)
    cfg = _cfg(d, 'indent_with_tabs = 0\n')
    rc, formatted, _ = run(exe, ['-c', cfg, '-l', 'C', '-q'], stdin=SRC)
    if rc != 0 or not formatted:
        return False, 'could not format the sample'
    cases = [('formatted', formatted, 0), ('last byte differs', formatted[:-1] + b' ', 1), ('one byte longer', formatted + b'\n', 1),
             ('first byte differs', b' ' + formatted[1:], 1), ('middle byte differs', formatted[:len(formatted) // 2] + b'\t' + formatted[len(formatted) // 2 + 1:], 1)]
    for name, content, want_fail in cases:
        f = os.path.join(d, 'x.c')
        open(f, 'wb').write(content)
        before = sorted(os.listdir(d))
        rc, out, err = run(exe, ['-c', cfg, '--check', f])
        after = sorted(os.listdir(d))
        # the formatted version of a perturbed file may equal the perturbed file itself: decide by formatting it
        rc2, f2, _ = run(exe, ['-c', cfg, '-l', 'C', '-q'], stdin=content)
        really_same = (f2 == content)
        if (rc == 0) != really_same:
            return True, '--check on "%s": exit status %d but formatting %s the file' % (name, rc, 'reproduces' if really_same else 'changes')
        if (b'PASS' in out) != really_same or ((b'FAIL' in err or b'FAIL' in out) == really_same):
            return True, '--check on "%s": PASS/FAIL report inconsistent with the comparison (stdout=%r stderr=%r)' % (name, out[:60], err[:60])
        if before != after or open(f, 'rb').read() != content:
            return True, '--check created or modified files: %s -> %s' % (before, after)
    # --if-changed must not write when nothing changes
    f = os.path.join(d, 'y.c')
    open(f, 'wb').write(formatted)
    os.utime(f, (1000000000, 1000000000))
    run(exe, ['-c', cfg, '--if-changed', '--no-backup', f, '-q'])
    if os.stat(f).st_mtime != 1000000000 or sorted(os.listdir(d)) != sorted(before + ['y.c']):
        return True, '--if-changed rewrote or created files although the formatted bytes equal the input'
    return False, '--check / --if-changed consistent on 5 perturbations'


# ---------------------------------------------------------------------------------------------------------------
# C16 / C20 / C15 / C04 / C11 / C08 / C09 / C17 / C07

def scenario_too_big(exe, workroot, option=None):
    import sys
    sys.path.insert(0, os.path.dirname(os.path.abspath(__file__)))
    d = _tmp(workroot)
    names = [option] if option else open(os.path.join(workroot, 'gen', 'nl_count_options.txt')).read().split()
    for n in names:
        cfg = _cfg(d, 'nl_max = 2\n%s = 3\n' % n)
        rc, out, err = run(exe, ['-c', cfg, '-l', 'C', '-q'], stdin=b'int a;\n')
        if rc != 78:
            return True, 'config "nl_max = 2; %s = 3" is accepted (exit status %d instead of EX_CONFIG)' % (n, rc)
    return False, '%d inconsistent configurations all refused with EX_CONFIG' % len(names)


def scenario_bad_numbers(exe, workroot):
    """C16: numeric option lines that must be diagnosed and must leave the option untouched (compared with the dump of an empty config)."""
    d = _tmp(workroot)
    base = run(exe, ['-c', _cfg(d, '\n', 'empty.cfg'), '--update-config'])[1].decode(errors='replace')

    def val(dump, opt):
        l = [x for x in dump.splitlines() if x.split('=')[0].strip() == opt]
        return l[0].split('=', 1)[1].split('#')[0].strip() if l else None
    cases = [('mod_sort_oc_property_class_weight', '4294967298'), ('mod_sort_oc_property_getter_weight', '99999999999999999999'), ('debug_timeout', '-4294967295'),
             ('indent_columns', '4294967298'), ('code_width', '4294967336'), ('nl_max', '-indent_columns'), ('align_var_def_span', '-indent_columns'),
             ('input_tab_size', '""'), ('indent_cmt_with_tabs', '""'), ('output_tab_size', '33'), ('indent_columns', '12abc')]
    for opt, v in cases:
        cfg = _cfg(d, '%s = %s\n' % (opt, v))
        rc, out, err = run(exe, ['-c', cfg, '--update-config'])
        e = err.decode(errors='replace')
        if val(out.decode(errors='replace'), opt) != val(base, opt):
            return True, 'config line "%s = %s" changes the option to %s (default %s)' % (opt, v, val(out.decode(errors='replace'), opt), val(base, opt))
        if opt not in e:
            return True, 'config line "%s = %s" is not diagnosed on stderr' % (opt, v)
        if v == '""' and not re.search(r"got ''", e):
            return True, 'config line "%s = %s": the diagnostic prints bytes from behind the end of the (empty) value: %r' % (opt, v, e[-120:])
    return False, '%d bad numeric lines all diagnosed and without effect' % len(cases)


def scenario_bad_using(exe, workroot):
    """C16: 'using' lines whose version is not MAJOR.MINOR[.PATCH]: diagnosed, the process ends normally (no abort), later lines still take effect."""
    d = _tmp(workroot)
    for v in ['a.b', '0.b', '0.78.x', '99999999999999999999.1', '1', '1.2.3.4', '.5', '-1.2']:
        cfg = _cfg(d, 'using %s\nindent_columns = 3\n' % v)
        rc, out, err = run(exe, ['-c', cfg, '--update-config'])
        e = err.decode(errors='replace')
        if rc < 0 or rc >= 128 or 'terminate called' in e:
            return True, "config line 'using %s' ends the process abnormally (status %d): %s" % (v, rc, e.strip()[-160:])
        if 'using requires a version number' not in e:
            return True, "config line 'using %s' is not diagnosed" % v
        if not re.search(r'^indent_columns\s*=\s*3\b', out.decode(errors='replace'), re.M):
            return True, "the line after 'using %s' had no effect" % v
    return False, 'malformed using lines all diagnosed, process ends normally'


ENUM_SAMPLES = {'sp_arith': ['ignore', 'add', 'remove', 'force'], 'newlines': ['lf', 'crlf', 'cr', 'auto'],
                'pos_arith': ['ignore', 'break', 'force', 'lead', 'trail', 'join', 'lead_break', 'lead_force', 'trail_break', 'trail_force'],
                'sp_cmt_cpp_doxygen': ['true', 'false']}


def scenario_enum_roundtrip(exe, workroot):
    d = _tmp(workroot)
    for opt, vals in ENUM_SAMPLES.items():
        for v in vals:
            cfg = _cfg(d, '%s = %s\n' % (opt, v))
            rc, out, err = run(exe, ['-c', cfg, '--update-config'])
            line = [l for l in out.decode(errors='replace').splitlines() if l.split('=')[0].strip() == opt]
            got = line[0].split('=', 1)[1].split('#')[0].strip() if line else None
            if rc != 0 or got != v:
                return True, 'config "%s = %s" is saved by --update-config as %r (exit %d)' % (opt, v, got, rc)
            cfg2 = _cfg(d, out.decode(errors='replace'), 'c2.cfg')
            rc2, out2, _ = run(exe, ['-c', cfg2, '--update-config'])
            if out2 != out:
                return True, 'saved config for "%s = %s" is not reproduced by a second --update-config' % (opt, v)
    return False, 'all sampled enumerated values round-trip through --update-config'


def _tokens(b):
    import re
    text = re.sub(rb'/\*.*?\*/', b' ', b, flags=re.S)
    text = re.sub(rb'//[^\n]*', b' ', text)
    return re.findall(rb'[A-Za-z_]\w*|\d+|"(?:[^"\\]|\\.)*"|\S', text)


GATING_SRC = (b'#include <a.h>\n#include <a.h>\n#include <b.h>\nint f(unsigned int a, long int b) {\n  while (1) { break; };;\n  if (a) g();\n  if (b) { h(); }\n'
              b'  for (;;) { }\n  return;\n}\nvoid k(void) { return; }\n')


def scenario_gating_default(exe, workroot):
    """with every mod_ option at its default the token stream of a file full of 'modifiable' constructs is unchanged"""
    d = _tmp(workroot)
    cfg = _cfg(d, 'indent_with_tabs = 0\n')
    rc, out, err = run(exe, ['-c', cfg, '-l', 'C', '-q'], stdin=GATING_SRC)
    if rc != 0:
        return False, 'sample did not format'
    if _tokens(out) != _tokens(GATING_SRC):
        return True, 'default configuration changed the token stream of the sample (braces/semicolons/int/includes/loop header/return): %r' % out[:400]
    return False, 'token stream unchanged under the default configuration'


def scenario_vbrace_comment(exe, workroot):
    """C04/C03: mod_full_brace_if=add must not write the new brace into a // comment"""
    d = _tmp(workroot)
    cfg = _cfg(d, 'mod_full_brace_if = add\n')
    for src in (b'void f(int x)\n{\n   if (x) // c1\n      /* c2 */ foo();\n}\n', b'void f(int x)\n{\n   if (x)\n#define A 1 // c\n      foo();\n}\n'):
        rc, out, err = run(exe, ['-c', cfg, '-l', 'C', '-q'], stdin=src)
        if rc != 0:
            continue
        for line in out.decode(errors='replace').splitlines():
            if '//' in line and ('{' in line.split('//', 1)[1] or '}' in line.split('//', 1)[1]):
                return True, 'mod_full_brace_if=add wrote a brace into a // comment: %r' % line
        if out.count(b'{') != out.count(b'}'):
            return True, 'unbalanced braces after mod_full_brace_if=add: %r' % out
    return False, 'added braces stay out of // comments'


def scenario_raw_string_delimiter(exe, workroot):
    """C03: a raw string literal whose content holds a look-alike of its closing delimiter keeps every byte"""
    d = _tmp(workroot)
    cfg = _cfg(d, 'sp_arith = force\n')
    lit = b'R"ab( p )ac" ( x  -  y )ab"'
    src = b'const char *s = ' + lit + b'; // "\nint z = 1  +  2;\n'
    rc, out, err = run(exe, ['-c', cfg, '-l', 'CPP', '-q'], stdin=src)
    if rc == 0 and lit not in out:
        return True, 'the raw string literal %r was changed: %r' % (lit, out.split(b'\n')[0])
    return False, 'raw string literal unchanged'


def scenario_comment_opener(exe, workroot):
    """C02: removing the blanks around '/' must not create a comment opener"""
    d = _tmp(workroot)
    cfg = _cfg(d, 'sp_arith = remove\nsp_deref = remove\n')
    for src in (b'int f(int a, int *p)\n{\n   return a / *p;\n}\n', b'int g(int a, int b)\n{\n   return a / /* c */ b;\n}\n'):
        rc, out, err = run(exe, ['-c', cfg, '-l', 'C', '-q'], stdin=src)
        if rc == 0 and (b'a/*p' in out or b'a//*' in out):
            return True, "sp_arith=remove sp_deref=remove joins '/' with the next token into a comment opener: %r" % out.split(b'\n')[2]
    return False, "'/' stays apart from a following '*' or '/'"


def scenario_custom_keywords_roundtrip(exe, workroot):
    """C15: custom types, set keywords and macro-* words survive --update-config + reload"""
    d = _tmp(workroot)
    cfg = _cfg(d, 'type MYTYPE\nmacro-open BEGIN_X\nmacro-close END_X\nmacro-else ELSE_X\nset FOR foreach\n')
    rc, out, err = run(exe, ['-c', cfg, '--update-config'])
    cfg2 = _cfg(d, out.decode(errors='replace'), 'c2.cfg')
    rc2, out2, err2 = run(exe, ['-c', cfg2, '--update-config'])
    e2 = err2.decode(errors='replace')
    if 'unknown option' in e2:
        return True, 'the config written by --update-config is not accepted when loaded again: %s' % e2.strip()[-160:]
    for w in (b'MYTYPE', b'BEGIN_X', b'END_X', b'ELSE_X', b'foreach'):
        if w not in out2:
            return True, 'the custom keyword %r is lost after --update-config + reload' % w
    if out != out2:
        return True, '--update-config is not idempotent for custom keywords'
    return False, 'custom keywords round-trip'


def scenario_string_value_roundtrip(exe, workroot):
    """C15: string option values holding backslashes / quotes survive --update-config + reload"""
    d = _tmp(workroot)
    cfg = _cfg(d, 'include_category_0 = "a\\\\.h"\ninclude_category_1 = "b\\"c"\n')
    rc, out, err = run(exe, ['-c', cfg, '--update-config'])
    cfg2 = _cfg(d, out.decode(errors='replace'), 'c2.cfg')
    rc2, out2, err2 = run(exe, ['-c', cfg2, '--update-config'])

    def lines(o):
        return [l for l in o.decode(errors='replace').splitlines() if l.startswith('include_category_0') or l.startswith('include_category_1')]
    if lines(out) != lines(out2):
        return True, 'string values change when the written config is loaded again: %r -> %r' % (lines(out), lines(out2))
    return False, 'string values with backslash / quote round-trip'


def scenario_deep_angles(exe, workroot):
    """C06: thousands of nested '<' must not crash the template check"""
    d = _tmp(workroot)
    cfg = _cfg(d, '')
    src = ('int x = ' + ' < '.join(['a'] * 3000) + ';\n').encode()
    rc, out, err = run(exe, ['-c', cfg, '-l', 'CPP', '-q'], stdin=src)
    if rc < 0 or rc >= 128:
        return True, "3000 nested '<' end the process abnormally (status %d)" % rc
    return False, "deeply nested '<' handled (exit %d)" % rc


def scenario_loop_without_body(exe, workroot):
    """C06: mod_infinite_loop on a loop keyword that is the last token of a #define must terminate"""
    d = _tmp(workroot)
    cfg = _cfg(d, 'mod_infinite_loop = 1\n')
    for src in (b'#define X do\nint a;\n', b'#define Y while (1)\nint b;\n'):
        try:
            rc, out, err = run(exe, ['-c', cfg, '-l', 'C', '-q'], stdin=src, timeout=20)
        except Exception as e:
            return True, 'mod_infinite_loop=1 does not terminate on %r (%s)' % (src, type(e).__name__)
        if rc < 0 or rc >= 124:
            return True, 'mod_infinite_loop=1 on %r: status %d' % (src, rc)
    return False, 'mod_infinite_loop terminates on loop keywords without a body'


def scenario_operator_type_words(exe, workroot):
    """C02: the words of a conversion operator's type stay separate tokens"""
    d = _tmp(workroot)
    cfg = _cfg(d, 'sp_after_type = remove\n')
    src = b'struct S { operator const char *() const; operator unsigned int() const; };\n'
    rc, out, err = run(exe, ['-c', cfg, '-l', 'CPP', '-q'], stdin=src)
    if rc == 0 and (b'constchar' in out or b'unsignedint' in out):
        return True, 'sp_after_type=remove joins the words of a conversion operator type: %r' % out.strip()
    return False, 'operator type words stay apart'


def scenario_lang_leak(exe, workroot):
    d = _tmp(workroot)
    a, b = os.path.join(d, 'A.c'), os.path.join(d, 'B.c')
    open(a, 'w').write('char *s = @"x";\n')
    open(b, 'w').write('NS_OPTIONS(unsigned, Bar) { B = 1 };\n')
    cfg = _cfg(d, '')
    o1, o2 = os.path.join(d, 'o1'), os.path.join(d, 'o2')
    run(exe, ['-q', '-l', 'C', '-c', cfg, '--prefix', 'o1', 'A.c', 'B.c'], cwd=d)
    run(exe, ['-q', '-l', 'C', '-c', cfg, '--prefix', 'o2', 'B.c'], cwd=d)
    x, y = open(os.path.join(o1, 'B.c'), 'rb').read(), open(os.path.join(o2, 'B.c'), 'rb').read()
    if x != y:
        return True, 'B.c formatted after A.c (contains @"x") differs from B.c formatted alone under -l C: %r vs %r' % (x, y)
    return False, 'B.c is formatted identically alone and after A.c'


NL_SRC = 'int a;\n/* c1\n   c2 */\n#define M(x) \\\n   (x)\nchar *s = "q";\n// line\nint b;\n'


def scenario_line_endings(exe, workroot):
    d = _tmp(workroot)
    for nl_opt, term in (('lf', b'\n'), ('crlf', b'\r\n'), ('cr', b'\r')):
        cfg = _cfg(d, 'newlines = %s\n' % nl_opt)
        ref = None
        for conv in ('\n', '\r\n', '\r'):
            src = NL_SRC.replace('\n', conv).encode()
            rc, out, err = run(exe, ['-c', cfg, '-l', 'C', '-q'], stdin=src)
            if rc != 0:
                return True, 'input with %r terminators and newlines=%s: exit status %d' % (conv, nl_opt, rc)
            rest = out.replace(term, b'')
            if b'\n' in rest or b'\r' in rest:
                return True, 'newlines=%s, input terminators %r: output contains a CR or LF that is not part of %r: %r' % (nl_opt, conv, term, out[:200])
            if ref is None:
                ref = out
            elif out != ref:
                return True, 'newlines=%s: output depends on the input terminators (%r)' % (nl_opt, conv)
    # auto: most frequent terminator wins
    cfg = _cfg(d, 'newlines = auto\n')
    rc, out, _ = run(exe, ['-c', cfg, '-l', 'C', '-q'], stdin=b'int a;\r\nint b;\r\nint c;\n')
    if out.count(b'\r\n') != 3:
        return True, 'newlines=auto with 2 CRLF and 1 LF in the input did not choose CRLF: %r' % out
    rc, out, _ = run(exe, ['-c', cfg, '-l', 'C', '-q'], stdin=b'int a;\r\nint b;\nint c;\n')
    if b'\r' in out:
        return True, 'newlines=auto with 1 CRLF and 2 LF did not choose LF: %r' % out
    return False, 'terminators consistent for lf/crlf/cr x 3 input conventions; auto picks the majority'


def scenario_encoding(exe, workroot):
    d = _tmp(workroot)
    cfg = _cfg(d, '')
    cps = [0x41, 0x7f, 0x80, 0x7ff, 0x800, 0xfffd, 0xd7ff, 0xe000, 0xffff, 0x10000, 0x10ffff, 0x1f600, 0xfeff]
    body = 'int a; // ' + ''.join(chr(c) for c in cps) + '\nchar *s = "' + ''.join(chr(c) for c in cps[2:]) + '";\n'
    variants = [('utf-8', b'', 'utf-8'), ('utf-8 + BOM', b'\xef\xbb\xbf', 'utf-8'), ('utf-16le + BOM', b'\xff\xfe', 'utf-16-le'), ('utf-16be + BOM', b'\xfe\xff', 'utf-16-be')]
    for name, bom, codec in variants:
        src = bom + body.encode(codec)
        rc, out, err = run(exe, ['-c', cfg, '-l', 'C', '-q'], stdin=src)
        if rc != 0:
            return True, '%s input refused (exit %d)' % (name, rc)
        if not out.startswith(bom) or (bom == b'' and out.startswith(b'\xef\xbb\xbf')):
            return True, '%s: BOM not preserved: output starts with %r' % (name, out[:4])
        try:
            dec = out[len(bom):].decode(codec)
        except Exception as e:
            return True, '%s: output is not valid %s: %s' % (name, codec, e)
        for c in cps:
            if dec.count(chr(c)) != body.count(chr(c)):
                return True, '%s: code point U+%04X occurs %d times in the output, %d times in the input' % (name, c, dec.count(chr(c)), body.count(chr(c)))
    # invalid UTF-8 is passed through byte-wise
    raw = b'int a; // \xff\xfe\x80 \xc3\x28\n'
    rc, out, _ = run(exe, ['-c', cfg, '-l', 'C', '-q'], stdin=raw)
    if rc == 0 and out != raw:
        return True, 'invalid UTF-8 input was altered: %r -> %r' % (raw, out)
    return False, '13 code points x 4 encodings reproduced; BOM preserved; invalid bytes passed through'


def scenario_whitespace_hygiene(exe, workroot):
    d = _tmp(workroot)
    src = b'int   a;   \nvoid f(void)\t{ \n\tint\t b = 1 ;\t\n  if (b)  {\tg();  }\n}   \n\n\n'
    for iwt in (0, 1, 2):
        cfg = _cfg(d, 'indent_with_tabs = %d\nindent_columns = 4\noutput_tab_size = 8\nnl_end_of_file = force\nnl_end_of_file_min = 1\n' % iwt)
        rc, out, _ = run(exe, ['-c', cfg, '-l', 'C', '-q'], stdin=src)
        if rc != 0:
            return False, 'sample did not format'
        for ln in out.split(b'\n'):
            if ln.endswith(b' ') or ln.endswith(b'\t'):
                return True, 'indent_with_tabs=%d: output line ends in a blank: %r' % (iwt, ln)
            lead = ln[:len(ln) - len(ln.lstrip(b' \t'))]
            if iwt == 0 and b'\t' in lead:
                return True, 'indent_with_tabs=0: tab in the indentation: %r' % ln
            if iwt != 0 and b' \t' in lead:
                return True, 'indent_with_tabs=%d: a space precedes a tab in the indentation: %r' % (iwt, ln)
        if not out.endswith(b'\n') or out.endswith(b'\n\n'):
            return True, 'nl_end_of_file=force/min=1: file does not end with exactly one newline: %r' % out[-10:]
    return False, 'no trailing blanks, indentation characters and end-of-file newline as configured'


def scenario_ignored_region(exe, workroot):
    d = _tmp(workroot)
    region = b'  weird (  text\t\there ;;;   \n\t{ unbalanced [\n    x = @@ \xc3\xa9 ;\n'
    src = b'int   a;\n/* *INDENT-OFF* */\n' + region + b'/* *INDENT-ON* */\nint   b;\n'
    cfg = _cfg(d, 'indent_with_tabs = 0\nmod_remove_extra_semicolon = true\n')
    rc, out, _ = run(exe, ['-c', cfg, '-l', 'C', '-q'], stdin=src)
    if rc != 0:
        return False, 'sample did not format'
    for ln in region.split(b'\n'):
        if ln.strip() and ln not in out.split(b'\n'):
            return True, 'line of the disabled region was altered: %r not in the output %r' % (ln, out)
    return False, 'disabled region copied through'


def scenario_blank_lines(exe, workroot):
    d = _tmp(workroot)
    src = b'\n\n\nint a;\n\n\n\n\nint b;\n\n\n\n\n\n\nvoid f(void)\n{\n\n\n\n  int c;\n\n\n\n}\n\n\n\n'
    for n in (1, 2, 3):
        for eof in ('ignore', 'add', 'remove', 'force'):
            cfg = _cfg(d, 'nl_max = %d\nnl_end_of_file = %s\nnl_end_of_file_min = 1\nnl_start_of_file = remove\n' % (n, eof))
            rc, out, _ = run(exe, ['-c', cfg, '-l', 'C', '-q'], stdin=src)
            if rc != 0:
                return False, 'sample did not format'
            core = out.rstrip(b'\n')
            if b'\n' * (n + 1) in core:
                return True, 'nl_max=%d: output contains a run of more than %d line breaks: %r' % (n, n, out)
            if out.startswith(b'\n'):
                return True, 'nl_start_of_file=remove: output starts with a newline'
            tail = len(out) - len(out.rstrip(b'\n'))
            if eof == 'force' and tail != 1:
                return True, 'nl_end_of_file=force, min=1 (nl_max=%d): file ends with %d newlines' % (n, tail)
            if eof == 'remove' and tail != 0:
                return True, 'nl_end_of_file=remove: file ends with %d newlines' % tail
            if eof == 'add' and tail < 1:
                return True, 'nl_end_of_file=add, min=1: file ends with %d newlines' % tail
    return False, 'nl_max and start/end-of-file policy respected on the sample'


def scenario_sp_bool_site(exe, workroot):
    d = _tmp(workroot)
    cfg = _cfg(d, 'sp_bool = remove\npos_bool = lead\n')
    rc, out, _ = run(exe, ['-c', cfg, '-l', 'C', '-q'], stdin=b'void f() {\nif (a &&\n    b) { x(); }\n}\n')
    if b'&& b' in out:
        return True, 'sp_bool=remove, pos_bool=lead: "&& b" (a space under rule sp_bool): %r' % out
    return False, 'no space'


def scenario_spacing_option(exe, workroot, option):
    """R-log: run a small corpus with the option at remove and at force, collect the gaps that the space log attributes
    to it, and check them against the value"""
    import re
    corpus = (b'int f(int a, int b) { int c = a+b*2; if (a&&b||c) { c = (a<b)?a:b; } for (c=0;c<3;c++) { g(c,a); } return c; }\n'
              b'struct S { int x:3; }; typedef int (*fp)(int); void h(void) { int *p=&(a[1]); fp q=f; switch (a) { case 1: break; } }\n')
    d = _tmp(workroot)
    for val, want in (('remove', 0), ('force', 1)):
        cfg = _cfg(d, '%s = %s\n' % (option, val))
        rc, out, err = run(exe, ['-c', cfg, '-l', 'C', '-q', '-L', '66'], stdin=corpus)
        log = err.decode(errors='replace')
        # "... Text() is 'x', ... <===> ... Text() is 'y', ... : rule sp_x[line N]"
        for mo in re.finditer(r"Text\(\) is '([^']*)'.*?<===>\s*\n.*?Text\(\) is '([^']*)'.*?: rule (\w+)\[", log):
            a, b, rule = mo.group(1), mo.group(2), mo.group(3)
            if rule != option or not a or not b:
                continue
            text = out.decode(errors='replace')
            i = text.find(a + (' ' * 0) + b) if want else text.find(a + ' ' + b)
            if want == 0 and (a + ' ' + b) in text and (a + b) not in text and a[-1].isalnum() != b[0].isalnum():
                return True, '%s=remove: "%s %s" is written with a space although the log attributes the gap to %s' % (option, a, b, option)
            if want == 1 and (a + b) in text and (a + ' ' + b) not in text:
                return True, '%s=force: "%s%s" is written without a space although the log attributes the gap to %s' % (option, a, b, option)
    return False, 'no contradiction found for %s on the built-in corpus' % option


def first_hit(exe, workroot, scenarios):
    notes = []
    for sc in scenarios:
        try:
            hit, note = sc(exe, workroot)
        except Exception as e:
            hit, note = False, '%s raised %r' % (getattr(sc, '__name__', 'scenario'), e)
        notes.append('%s: %s' % (getattr(sc, '__name__', 'scenario'), note))
        if hit:
            return True, notes
    return False, notes


def make_replay(*scenarios):
    """returns a replay(repo, failure, workroot) function running the given end-to-end scenarios on the rebuilt binary"""
    def replay(repo, failure, workroot):
        exe = build_binary(repo, workroot)
        if not exe:
            return False, 'the working tree does not build natively: no native replay'
        hit, notes = first_hit(exe, workroot, scenarios)
        return hit, {'binary': 'rebuilt from %s working tree' % repo, 'scenarios': notes}
    return replay


if __name__ == '__main__':
    import sys
    exe = sys.argv[1] if len(sys.argv) > 1 else '/repo/_build/uncrustify'
    w = tempfile.mkdtemp(prefix='replay-selftest.', dir='/var/tmp')
    os.makedirs(os.path.join(w, 'gen'))
    sys.path.insert(0, os.path.dirname(os.path.abspath(__file__)))
    import gen
    gen.gen_options(os.environ.get('VERIF_REPO', '/repo'), os.path.join(w, 'gen'))
    for sc in (scenario_corrupt_md5_file, scenario_backup_close_fault, scenario_md5_read_fault, scenario_bad_numbers, scenario_md5_after_rename, scenario_failed_close, scenario_failed_backup, scenario_check_truth, scenario_too_big, scenario_enum_roundtrip,
               scenario_gating_default, scenario_lang_leak, scenario_line_endings, scenario_encoding, scenario_whitespace_hygiene, scenario_ignored_region,
               scenario_blank_lines, scenario_sp_bool_site, lambda e, w_: scenario_spacing_option(e, w_, 'sp_arith')):
        try:
            print(getattr(sc, '__name__', 'lambda'), sc(exe, w))
        except Exception as e:
            print(getattr(sc, '__name__', 'lambda'), 'EXC', repr(e))
    shutil.rmtree(w, ignore_errors=True)
