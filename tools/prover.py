#!/usr/bin/env python3
"""Proof runner: slice -> goto-cc -> goto-instrument (DFCC contracts) -> cbmc -> classified result.

Exit/verdict vocabulary (see DESIGN.md 2.4):
  discharged  every generated obligation SUCCESS, named obligations present, vacuity canaries reachable
  violation   some obligation FAILURE (with cbmc's trace)
  undecided   slice/compile/instrument error, timeout, missing named obligation, unwinding assertion
"""
import json
import os
import re
import resource
import shutil
import subprocess
import sys
import tempfile
import time

sys.path.insert(0, os.path.dirname(os.path.abspath(__file__)))
import slicer  # noqa: E402

VERIF = os.path.dirname(os.path.dirname(os.path.abspath(__file__)))
REPO = os.environ.get('VERIF_REPO', '/repo')

DEFAULT_CBMC_FLAGS = ['--bounds-check', '--pointer-check', '--pointer-overflow-check',
                      '--signed-overflow-check', '--div-by-zero-check', '--conversion-check',
                      '--undefined-shift-check', '--unwinding-assertions']


class Undecided(Exception):
    pass


class Proof:
    """One proof = one cbmc run enforcing one function contract (or a lemma harness over contracts)."""

    def __init__(self, name, impl, spec=None, harness=None, enforce=None, enforce_rec=False, replace=(),
                 loops=(), rules=None, expect=(), canaries=1, unwind=None, unwindset=None, kind='proof',
                 bound_note=None, cbmc_flags=None, drop_flags=(), timeout=600, mem_gb=24, defines=(),
                 functions=(), mutants=(), object_bits=8, solver='--sat-solver cadical', note='', extern_c=True,
                 no_contract=False, plain=False, assumed=(), replay=None, partial_loops=False, dead_ok=(), frame_is_property=False, slice_formula=False, nondet_static=False, unwind_loops=(), split=1, fallback_unwind=None):
        self.fallback_unwind = fallback_unwind        # if the loop contracts no longer match the loops of the code: unwind every loop to this (complete) bound instead
        self.split = split                            # >1: the obligations are partitioned into this many groups, one cbmc run per group (in parallel)
        self.unwind_loops = list(unwind_loops)        # [(function, ordinal of the loop in source order, bound)] -> --unwindset (ids resolved per run)
        self.nondet_static = nondet_static            # plain VC proofs: objects with static lifetime start with arbitrary values (cbmc --nondet-static)
        self.slice_formula = slice_formula            # cbmc --slice-formula (cone-of-influence reduction of the equation; sound)
        self.frame_is_property = frame_is_property   # True: the assigns clause itself states a claim of the property ("touches nothing else")
        self.site = None                     # optional callback failure -> site string (for known-finding matching)
        self.dead_ok = list(dead_ok)         # canaries that are expected to be unreachable under this contract
        self.name, self.impl, self.spec, self.harness = name, impl, spec, harness or ('h_' + name)
        self.enforce, self.enforce_rec, self.replace, self.loops = enforce, enforce_rec, list(replace), list(loops)
        self.rules = rules or {}
        self.expect, self.canaries = list(expect), canaries
        self.unwind, self.unwindset, self.kind, self.bound_note = unwind, unwindset, kind, bound_note
        self.cbmc_flags = cbmc_flags
        self.drop_flags = drop_flags
        self.timeout, self.mem_gb, self.defines = timeout, mem_gb, list(defines)
        self.functions = list(functions)      # human list of functions under contract in this proof
        self.mutants = list(mutants)          # [(label, regex, replacement, expected-failing-obligation-regex)]
        self.object_bits, self.solver, self.note = object_bits, solver, note
        self.extern_c = extern_c
        self.plain = plain                    # direct VC harness: no goto-instrument pass at all
        self.no_contract = no_contract        # lemma harness: no --enforce-contract (only replace)
        self.assumed = list(assumed)          # contracts used via replace that are NOT proved anywhere
        self.replay = replay
        self.partial_loops = partial_loops


_slice_re = re.compile(r'^[ \t]*//@slice\s+(\S+)\s+(fn|struct|frag)\s+(\S+)(.*)$', re.M)


def expand_template(tmpl_text, rules, slices_out, mutate=None, workroot=None, defines=()):
    """Expand //@slice directives. rules: {slice-name: [(rule,arg),...]}.
    mutate: optional (regex, replacement) applied to every *sliced* text (self-test mutants)."""
    def rep(mo):
        rel, kind, name, rest = mo.group(1), mo.group(2), mo.group(3), mo.group(4).strip()
        if rel.startswith('@GEN/'):
            # a file generated on this run from /repo by the repository's own generator script (see tools/gen.py)
            rel = os.path.join(workroot, 'gen', rel[5:])
        opts = dict(kv.split('=', 1) for kv in rest.split() if '=' in kv and not kv.startswith('/'))
        key = opts.get('key', name)
        if 'ifdef' in opts and opts['ifdef'] not in [d.split('=')[0] for d in defines]:
            # a slice that only the proofs defining <NAME> need (the text around it is guarded by #ifdef <NAME> in the template)
            return '// ---- slice %s %s not needed by this proof (ifdef=%s) ----' % (kind, name, opts['ifdef'])
        rl = rules.get(key, ())
        if kind == 'fn':
            nth = int(opts['nth']) if 'nth' in opts else None
            sl = slicer.slice_function(REPO, rel, name, nth, rl)
        elif kind == 'struct':
            sl = slicer.slice_struct(REPO, rel, name, rl)
        else:
            pats = re.findall(r'/((?:[^/\\]|\\.)*)/', rest)
            if len(pats) != 2:
                raise slicer.SliceError('frag needs /start/ /end/')
            sl = slicer.slice_fragment(REPO, rel, name, pats[0], pats[1], rl)
        if mutate is not None:
            new, c = re.subn(mutate[0], mutate[1], sl.text)
            if c:
                sl.text = new
                mutate[2].append((name, c))
        slices_out.append(sl)
        return '// ---- begin slice %s %s (%s:%d) ----\n%s\n// ---- end slice %s ----' % (
            kind, name, rel, sl.line, sl.text, name)
    return _slice_re.sub(rep, tmpl_text)


def _limits(mem_gb):
    def f():
        b = int(mem_gb * (1 << 30))
        resource.setrlimit(resource.RLIMIT_AS, (b, b))
        os.setsid()
    return f


def run(cmd, cwd, timeout, mem_gb=24, log=None):
    """Run a tool in its own process group under a wall-clock and address-space limit; on timeout the whole
    group is killed (cbmc may have spawned a solver)."""
    import signal
    t0 = time.time()
    p = subprocess.Popen(cmd, cwd=cwd, stdout=subprocess.PIPE, stderr=subprocess.PIPE, preexec_fn=_limits(mem_gb),
                         text=True, errors='replace')
    try:
        out, err = p.communicate(timeout=timeout)
        rc = p.returncode
    except subprocess.TimeoutExpired:
        try:
            os.killpg(p.pid, signal.SIGKILL)
        except Exception:
            p.kill()
        try:
            out, err = p.communicate(timeout=10)
        except Exception:
            out, err = '', ''
        rc, err = -999, 'TIMEOUT after %ss' % timeout
    dt = time.time() - t0
    if log is not None:
        log.append({'cmd': ' '.join(cmd), 'rc': rc, 'secs': round(dt, 2)})
    return rc, out, err, dt


def run_split(ccmd, cwd, proof, log):
    """Partition the obligations of the instrumented program into proof.split groups and check each group in its own cbmc
    process (cbmc --property id ... checks exactly the named obligations); the union of the groups is the full set, listed
    by cbmc --show-properties with the same flags.  Returns a merged --json-ui document."""
    import concurrent.futures
    t0 = time.time()
    base = [a for a in ccmd if a != '--trace']
    rc, out, err, _ = run(base[:-1] + ['--show-properties', '--json-ui'] if base[-1] == '--json-ui' else base + ['--show-properties'], cwd, 600, proof.mem_gb, log=log)
    ids = []
    try:
        for e in json.loads(out):
            if isinstance(e, dict) and 'properties' in e:
                ids = [p['name'] for p in e['properties']]
    except Exception:
        pass
    if not ids:
        return rc if rc else 1, out, 'cannot list the obligations: ' + err, time.time() - t0
    groups = [ids[g::proof.split] for g in range(proof.split)]
    groups = [g for g in groups if g]

    def one(g):
        args = list(ccmd)
        for i in g:
            args += ['--property', i]
        return run(args, cwd, proof.timeout, proof.mem_gb, log=log)
    merged, msgs, worst = [], [], 0
    with concurrent.futures.ThreadPoolExecutor(max_workers=len(groups)) as ex:
        for (rc, out, err, dt) in ex.map(one, groups):
            if rc == -999:
                return rc, out, err, time.time() - t0
            results, m, status = parse_cbmc_json(out)
            if results is None or (not results and rc not in (0, 10)):
                return rc, out, err, time.time() - t0
            merged += results
            msgs += m
            worst = max(worst, rc)
    doc = [{'messageText': t} for t in msgs] + [{'result': merged}, {'cProverStatus': 'failure' if worst else 'success'}]
    return worst, json.dumps(doc), '', time.time() - t0


def symbol_table(gb, cwd):
    rc, out, err, _ = run(['goto-instrument', '--show-symbol-table', '--json-ui', gb], cwd, 300)
    # json-ui prints a list of message objects; one has symbolTable
    try:
        data = json.loads(out)
    except Exception:
        raise Undecided('cannot read symbol table')
    for e in data:
        if isinstance(e, dict) and 'symbolTable' in e:
            return e['symbolTable']
    raise Undecided('no symbol table in output')


def show_loops(gb, cwd):
    rc, out, err, _ = run(['goto-instrument', '--show-loops', gb], cwd, 300)
    loops = {}
    for mo in re.finditer(r'Loop (\S+)\.(\d+):\n\s+file (\S+) line (\d+) function (\S+)', out):
        loops.setdefault(mo.group(1), []).append((int(mo.group(2)), int(mo.group(4))))
    return loops


def resolve_loops(proof, gb, cwd, impl_name):
    """Build the --loop-contracts-file. Each loop spec: dict(fn=<symbol name>, id=<ordinal>, inv=, assigns=,
    decreases=, vars=[names])  -- vars are resolved to symbol ids by base name + function prefix,
    picking (if several) the declaration closest above the loop head line."""
    if not proof.loops:
        return None, 0
    st = symbol_table(gb, cwd)
    lp = show_loops(gb, cwd)
    fns = {}
    nloops = 0
    for spec in proof.loops:
        fn = spec['fn']
        if fn not in lp:
            raise Undecided('loop contract for %s but function has no loops (have: %s)' % (fn, sorted(lp)[:20]))
        # spec['id'] is the ordinal of the loop in *source order* (by head line); CBMC numbers loops by
        # back-edge position, so map through the line numbers reported by --show-loops.
        by_line = sorted(lp[fn], key=lambda t: (t[1], t[0]))
        if spec['id'] >= len(by_line):
            raise Undecided('loop #%d of %s does not exist (%d loops)' % (spec['id'], fn, len(by_line)))
        cbmc_id, head_line = by_line[spec['id']]
        smap = []
        for v in spec.get('vars', []):
            cands = []
            for sid, s in st.items():
                if s.get('baseName') == v and (sid.startswith(fn + '::')) and not s.get('isType'):
                    ln = int(s.get('location', {}).get('line', 0) or 0)
                    cands.append((sid, ln))
            if not cands:
                raise Undecided('loop contract of %s #%d names variable %s which does not exist' % (fn, spec['id'], v))
            if len(cands) > 1:
                above = [c for c in cands if c[1] <= head_line]
                cands = [max(above, key=lambda c: c[1])] if above else [min(cands, key=lambda c: c[1])]
            if ',' in cands[0][0] or ';' in cands[0][0]:
                raise Undecided('symbol id %s unusable in symbol_map' % cands[0][0])
            smap.append('%s,%s' % (v, cands[0][0]))
        ent = {'loop_id': str(cbmc_id), 'assigns': spec.get('assigns', ''), 'invariants': spec['inv'],
               'decreases': spec.get('decreases', '')}
        if not ent['decreases']:
            del ent['decreases']
        if smap:
            ent['symbol_map'] = ';'.join(smap)
        fns.setdefault('^' + re.escape(fn) + '$', []).append(ent)
        nloops += 1
    if not proof.partial_loops:
        for fn in set(s['fn'] for s in proof.loops):
            have = len(lp[fn])
            want = len([s for s in proof.loops if s['fn'] == fn])
            if have != want:
                raise Undecided('%s has %d loops but %d loop contracts' % (fn, have, want))
    doc = {'sources': [impl_name], 'functions': [{k: v} for k, v in fns.items()], 'output': 'stdout'}
    path = os.path.join(cwd, 'loops.json')
    with open(path, 'w') as f:
        json.dump(doc, f, indent=1)
    return path, nloops


def parse_cbmc_json(out):
    try:
        data = json.loads(out)
    except Exception:
        # truncated output (timeout): try to salvage
        return None, [], ''
    results, msgs, status = [], [], ''
    for e in data:
        if not isinstance(e, dict):
            continue
        if 'result' in e:
            results = e['result']
        elif 'messageText' in e:
            msgs.append(e['messageText'])
        elif 'cProverStatus' in e:
            status = e['cProverStatus']
    return results, msgs, status


def trace_inputs(trace):
    """Collect last assignment to each harness-visible lhs (for replay)."""
    vals = {}
    order = []
    for st in trace or []:
        if st.get('stepType') == 'assignment' and not st.get('hidden'):
            lhs = st.get('lhs')
            v = st.get('value', {})
            if lhs is None:
                continue
            val = v.get('data', v.get('name'))
            vals[lhs] = val
            order.append((lhs, val, st.get('sourceLocation', {}).get('function')))
    return vals, order


def run_proof(proof, workroot, mutate=None, keep=False, quiet=False):
    """Returns dict: verdict in {discharged, violation, undecided}, obligations, failures[], etc."""
    t_start = time.time()
    cwd = tempfile.mkdtemp(prefix=proof.name + '.', dir=workroot)
    log = []
    res = {'proof': proof.name, 'kind': proof.kind, 'verdict': 'undecided', 'reason': '', 'obligations': 0,
           'discharged': 0, 'failures': [], 'slices': [], 'cmds': log, 'solver_s': 0.0,
           'loop_contracts': 0, 'functions': proof.functions, 'backend': 'cbmc built-in SAT back end: ' + (proof.solver or 'minisat2'),
           'bound': proof.bound_note, 'assumed_contracts': proof.assumed, 'enforce': proof.enforce,
           'replace': proof.replace, 'workdir': cwd}
    try:
        slices = []
        mut = None
        if mutate is not None:
            mut = (mutate[0], mutate[1], [])
        with open(os.path.join(VERIF, proof.impl)) as f:
            tmpl = f.read()
        try:
            body = expand_template(tmpl, proof.rules, slices, mut, workroot, proof.defines)
        except slicer.SliceError as e:
            raise Undecided('slice: %s' % e)
        if mutate is not None and not mut[2]:
            raise Undecided('mutant pattern did not match any slice')
        res['slices'] = [s.info() for s in slices]
        impl_name = 'impl.cpp'
        with open(os.path.join(cwd, impl_name), 'w') as f:
            f.write(body)
            f.write('\nextern "C" void %s(void);\nint main() { %s(); return 0; }\n' % (proof.harness, proof.harness))
        incs = ['-I', os.path.join(VERIF, 'env'), '-I', os.path.join(VERIF, 'contracts'), '-I', os.path.join(VERIF, 'contracts', 'shared'), '-I', os.path.join(VERIF, os.path.dirname(proof.impl)),
                '-I', cwd, '-I', os.path.join(workroot, 'gen'), '-I', os.path.join(REPO, 'src')]
        defs = ['-DVERIF_CBMC=1'] + ['-D' + d for d in proof.defines]
        rc, out, err, _ = run(['goto-cc', '-std=c++11'] + incs + defs + [impl_name, '-o', 'impl.gb'], cwd, 600, log=log)
        if rc != 0:
            raise Undecided('goto-cc (C++ front end) failed on the slice: ' + (err + out)[-1500:])
        gb = 'impl.gb'
        if proof.spec:
            rc, out, err, _ = run(['goto-cc'] + incs + defs + [os.path.join(VERIF, proof.spec), '-o', 'spec.gb'], cwd, 300, log=log)
            if rc != 0:
                raise Undecided('goto-cc failed on contract file: ' + (err + out)[-1500:])
            rc, out, err, _ = run(['goto-cc', 'impl.gb', 'spec.gb', '-o', 'all.gb'], cwd, 300, log=log)
            if rc != 0:
                raise Undecided('link failed: ' + (err + out)[-1500:])
            gb = 'all.gb'
        fb_unwind = None
        try:
            lfile, nloops = (None, 0) if proof.plain else resolve_loops(proof, gb, cwd, impl_name)
        except Undecided as e:
            if proof.fallback_unwind is None:
                raise
            # the loops of the code are not the loops the contracts were written for (a refactored loop): the bound-based route
            lfile, nloops, fb_unwind = None, 0, proof.fallback_unwind
            res['loop_contract_fallback'] = 'loop contracts not applicable (%s): every loop unwound %d times with unwinding assertions' % (e, fb_unwind)
        res['loop_contracts'] = nloops
        cmd = ['goto-instrument', '--dfcc', 'main']
        if proof.enforce and not proof.no_contract:
            cmd += ['--enforce-contract-rec' if proof.enforce_rec else '--enforce-contract', proof.enforce]
        for r in proof.replace:
            cmd += ['--replace-call-with-contract', r]
        if lfile:
            cmd += ['--apply-loop-contracts', '--loop-contracts-file', 'loops.json']
        cmd += [gb, 'inst.gb']
        if proof.plain:
            cmd = ['cp', gb, 'inst.gb']
            if proof.nondet_static and proof.nondet_static is not True:
                # direct VC: only the named static-lifetime objects start with arbitrary values (regex on the symbol name)
                cmd = ['goto-instrument', '--nondet-static-matching', proof.nondet_static, gb, 'inst.gb']
        rc, out, err, dt = run(cmd, cwd, proof.timeout, proof.mem_gb, log=log)
        if rc != 0:
            raise Undecided('goto-instrument failed: ' + (err + out)[-2500:])
        flags = list(proof.cbmc_flags if proof.cbmc_flags is not None else DEFAULT_CBMC_FLAGS)
        flags = [f for f in flags if f not in proof.drop_flags]
        if proof.unwind is not None or fb_unwind is not None:
            flags += ['--unwind', str(fb_unwind if fb_unwind is not None else proof.unwind)]
        uw = [proof.unwindset] if proof.unwindset else []
        if proof.unwind_loops:
            lp = show_loops('inst.gb', cwd)
            for fn, ordinal, bound in proof.unwind_loops:
                cands = [k for k in lp if k == fn or k == fn + '_wrapped_for_contract_checking']
                if not cands:
                    raise Undecided('unwind bound given for %s but it has no loops' % fn)
                by_line = sorted(lp[cands[0]], key=lambda t: (t[1], t[0]))
                if ordinal >= len(by_line):
                    raise Undecided('loop #%d of %s does not exist (%d loops)' % (ordinal, fn, len(by_line)))
                uw.append('%s.%d:%d' % (cands[0], by_line[ordinal][0], bound))
            if len(set(fn for fn, _, _ in proof.unwind_loops)) == 1 and len(proof.unwind_loops) != len(lp[cands[0]]):
                raise Undecided('%s has %d loops but %d unwind bounds' % (fn, len(lp[cands[0]]), len(proof.unwind_loops)))
        if uw:
            flags += ['--unwindset', ','.join(uw)]
        if proof.solver:
            flags += proof.solver.split()
        if proof.plain:
            flags += ['--drop-unused-functions']
        if proof.slice_formula:
            flags += ['--slice-formula']
        if proof.nondet_static is True:
            flags += ['--nondet-static']
        for ob in [proof.object_bits] + [b for b in (10, 12, 14) if b > (proof.object_bits or 8)]:
            # the DFCC object sets scale with 2^object-bits, so the smallest sufficient value is used
            ccmd = ['cbmc', 'inst.gb'] + flags + (['--object-bits', str(ob)] if ob else []) + ['--json-ui', '--trace']
            if proof.split > 1:
                rc, out, err, dt = run_split(ccmd, cwd, proof, log)
            else:
                rc, out, err, dt = run(ccmd, cwd, proof.timeout, proof.mem_gb, log=log)
            if 'too many addressed objects' not in out:
                break
        res['solver_s'] = round(dt, 2)
        res['checker_cmd'] = ' '.join(cmd) + ' && ' + ' '.join(ccmd) + (' [obligations partitioned into %d groups, one run per group: --property <ids>]' % proof.split if proof.split > 1 else '')
        if rc == -999:
            raise Undecided('cbmc timeout after %ss' % proof.timeout)
        results, msgs, status = parse_cbmc_json(out)
        if results is None or (not results and rc not in (0, 10)):
            raise Undecided('cbmc error rc=%s: %s' % (rc, (err + out)[-1500:]))
        alltext = '\n'.join(msgs)
        if re.search(r'ignoring (forall|exists)', alltext):
            raise Undecided('SAT back end ignored a quantifier')
        canaries, fails, unwind_fail, unknown = [], [], [], []
        n_ob = n_ok = 0
        present = []
        for r in results:
            desc = r.get('description', '')
            pid = r.get('property', '')
            present.append(pid + ' ' + desc)
            if 'VACUITY_CANARY' in desc:
                canaries.append(r)
                continue
            n_ob += 1
            if r['status'] == 'SUCCESS':
                n_ok += 1
            elif 'unwinding assertion' in desc:
                unwind_fail.append(r)
            elif r['status'] == 'FAILURE':
                fails.append(r)
            else:
                unknown.append(r)
        res['obligations'], res['discharged'] = n_ob, n_ok
        res['present'] = len(present)
        # named obligations must exist
        missing = [e for e in proof.expect if not any(re.search(e, p) for p in present) and not (fb_unwind is not None and 'loop_' in e)]
        if nloops:
            steps = len([p for p in present if 'loop_invariant_step' in p or 'Check invariant after step' in p or 'preserved' in p])
            res['loop_invariant_step_obligations'] = steps
            if steps < nloops:
                missing.append('loop_invariant_step x%d (found %d)' % (nloops, steps))
        sample = []
        for r in results:
            if r.get('sourceLocation', {}).get('propertyClass') in ('postcondition', 'precondition', 'assertion', 'loop_invariant_step', 'loop_decreases', 'assigns'):
                sample.append('%s: %s [%s]' % (r.get('property'), r.get('description', '')[:120], r['status']))
        res['sample_obligations'] = sample[:12]
        # A failed *frame* obligation (assigns clause / DFCC write-set check) means the function now writes state its contract
        # does not list.  Unless the frame itself is a claim of the property, that is "the contract must be re-pointed"
        # (undecided), not a violation: an added harmless write must not raise an alarm.
        def is_frame(r):
            loc = r.get('sourceLocation', {})
            return (loc.get('propertyClass') == 'assigns' or '.assigns.' in r.get('property', '')
                    or 'write_set_check' in r.get('property', '') or 'write_set_check' in (loc.get('function') or ''))
        frame_fails = [r for r in fails if is_frame(r)]
        res['frame_failures'] = ['%s: %s' % (r.get('property'), r.get('description')) for r in frame_fails][:10]
        if not proof.frame_is_property:
            fails = [r for r in fails if not is_frame(r)]
            if frame_fails and not fails:
                raise Undecided('frame changed: the function writes state outside the assigns clause of its contract (%s); the contract has to be '
                                'revisited before the property can be decided' % '; '.join(res['frame_failures'][:3]))
        if fails:
            res['verdict'] = 'violation'
            for r in fails:
                vals, order = trace_inputs(r.get('trace'))
                loc = r.get('sourceLocation', {})
                res['failures'].append({'obligation': r.get('property'), 'description': r.get('description'),
                                        'location': '%s:%s (%s)' % (loc.get('file'), loc.get('line'), loc.get('function')),
                                        'inputs': {k: v for k, v in vals.items() if not k.startswith('__') and '$' not in k and '#' not in k and len(k) < 60},
                                        'trace_tail': [(a, b) for a, b, c in order[-40:]]})
            return res
        if unknown:
            raise Undecided('%d obligations not decided by the back end (status %s), e.g. %s' % (len(unknown), unknown[0]['status'], unknown[0].get('property')))
        if unwind_fail:
            raise Undecided('unwinding assertion failed (bound too small): ' + unwind_fail[0].get('property', ''))
        if missing:
            raise Undecided('named obligations missing: ' + '; '.join(missing))
        if n_ob == 0:
            raise Undecided('zero obligations generated')
        if len(canaries) < proof.canaries:
            raise Undecided('vacuity canaries missing: %d < %d' % (len(canaries), proof.canaries))
        dead = [c for c in canaries if c['status'] != 'FAILURE' and not any(re.search(d, c.get('description', '')) for d in proof.dead_ok)]
        canaries = [c for c in canaries if c['status'] == 'FAILURE']
        if dead:
            raise Undecided('vacuous: canary not reachable: ' + '; '.join(c.get('description', '') for c in dead))
        res['canaries_reached'] = len(canaries)
        res['verdict'] = 'discharged'
        return res
    except Undecided as e:
        res['verdict'] = 'undecided'
        res['reason'] = str(e)
        return res
    finally:
        res['wall_s'] = round(time.time() - t_start, 2)
        if not keep:
            shutil.rmtree(cwd, ignore_errors=True)
