#!/usr/bin/env python3
"""Development tool (not a registered check): confirm a seeded breaking change and run the checks against it.

  seed_eval.py confirm <worktree> <seed-dir>        apply patch in the scratch worktree, build, ctest, demo (must fail),
                                                    revert, build, demo (must pass); writes <seed-dir>/confirm.json
  seed_eval.py check   <worktree> <seed-dir> <pid>[,<pid>...]
                                                    apply patch in the scratch worktree and run check.py <pid> quick against it
                                                    (VERIF_REPO=<worktree>, evidence/replay redirected), revert; writes
                                                    <seed-dir>/check_<pid>.json
The final confirmation against /repo itself (git -C /repo apply; check; git -C /repo checkout -- .) is `seed_eval.py repo <seed-dir> <pid>`.
"""
import json
import os
import re
import subprocess
import sys
import time

VERIF = os.path.dirname(os.path.dirname(os.path.abspath(__file__)))


def sh(cmd, cwd=None, timeout=3600, env=None):
    p = subprocess.run(cmd, shell=True, cwd=cwd, stdout=subprocess.PIPE, stderr=subprocess.STDOUT, text=True, timeout=timeout, env=env)
    return p.returncode, p.stdout


def build(wt):
    if not os.path.exists(os.path.join(wt, '_build', 'build.ninja')):
        rc, out = sh('cmake -G Ninja -B _build -DCMAKE_BUILD_TYPE=Release', cwd=wt)
        if rc:
            return rc, out
    return sh('cmake --build _build -j8', cwd=wt)


def confirm(wt, sd):
    res = {'worktree': wt, 'when': time.strftime('%Y-%m-%d %H:%M:%S')}
    patch = os.path.join(sd, 'patch.diff')
    demo = os.path.join(sd, 'demo.sh')
    sh('git checkout -- .', cwd=wt)
    rc, out = sh('git apply --check %s && git apply %s' % (patch, patch), cwd=wt)
    res['applies'] = rc == 0
    if rc:
        res['error'] = out[-500:]
        return res
    try:
        rc, out = build(wt)
        res['builds_with_patch'] = rc == 0
        if rc:
            res['error'] = out[-800:]
            return res
        rc, out = sh('ctest --test-dir _build -j8 --timeout 900', cwd=wt)
        mo = re.search(r'(\d+)% tests passed, (\d+) tests failed out of (\d+)', out)
        res['ctest_with_patch'] = mo.group(0) if mo else out[-300:]
        res['suite_passes_with_patch'] = bool(mo and mo.group(2) == '0')
        rc, out = sh('bash %s %s/_build/uncrustify' % (demo, wt), cwd=sd, timeout=300)
        res['demo_with_patch_rc'] = rc
        res['demo_with_patch_tail'] = out[-600:]
    finally:
        sh('git checkout -- .', cwd=wt)
    rc, out = build(wt)
    rc, out = sh('bash %s %s/_build/uncrustify' % (demo, wt), cwd=sd, timeout=300)
    res['demo_without_patch_rc'] = rc
    res['confirmed'] = bool(res.get('suite_passes_with_patch') and res['demo_with_patch_rc'] != 0 and res['demo_without_patch_rc'] == 0)
    return res


def run_check(repo, pid, tag):
    env = dict(os.environ)
    ev = '/var/tmp/seed_ev_%s' % tag
    os.makedirs(ev, exist_ok=True)
    env.update({'VERIF_REPO': repo, 'VERIF_EVIDENCE_DIR': ev, 'VERIF_REPLAY_DIR': ev + '/replay'})
    t0 = time.time()
    rc, out = sh('python3 %s/check.py %s quick' % (VERIF, pid), cwd=VERIF, env=env, timeout=7200)
    lines = [l for l in out.splitlines() if re.search(r'VIOLATION|UNDECIDED|failed obligation|KNOWN-FINDING|^OK ', l)]
    return {'property': pid, 'exit': rc, 'secs': round(time.time() - t0), 'lines': lines[:30],
            'verdict': 'caught' if rc == 1 else ('missed' if rc == 0 else 'undecided')}


def check(wt, sd, pids, in_repo=False):
    patch = os.path.join(sd, 'patch.diff')
    sh('git checkout -- .', cwd=wt)
    rc, out = sh('git apply %s' % patch, cwd=wt)
    if rc:
        print('patch does not apply', out)
        return 2
    try:
        for pid in pids:
            r = run_check(wt, pid, os.path.basename(os.path.dirname(sd.rstrip('/'))) + '_' + os.path.basename(sd.rstrip('/')) + '_' + pid)
            r['against'] = wt
            with open(os.path.join(sd, 'check_%s.json' % pid), 'w') as f:
                json.dump(r, f, indent=1)
            print(sd, pid, r['verdict'], r['exit'], r['secs'], 's')
            for l in r['lines']:
                print('    ', l[:300])
    finally:
        sh('git checkout -- .', cwd=wt)
    return 0


if __name__ == '__main__':
    mode = sys.argv[1]
    if mode == 'confirm':
        r = confirm(sys.argv[2], sys.argv[3])
        with open(os.path.join(sys.argv[3], 'confirm.json'), 'w') as f:
            json.dump(r, f, indent=1)
        print(sys.argv[3], 'CONFIRMED' if r.get('confirmed') else 'NOT-CONFIRMED', json.dumps({k: v for k, v in r.items() if 'tail' not in k})[:600])
    elif mode == 'check':
        sys.exit(check(sys.argv[2], sys.argv[3], sys.argv[4].split(',')))
    elif mode == 'repo':
        sys.exit(check('/repo', sys.argv[2], sys.argv[3].split(','), in_repo=True))
