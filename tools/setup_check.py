#!/usr/bin/env python3
"""MANIFEST.setup_cmd: nothing to build (the framework is Python + the pre-installed CBMC tools); verify the tools exist."""
import shutil
import sys
missing = [t for t in ('cbmc', 'goto-cc', 'goto-instrument', 'cpp') if not shutil.which(t)]
if missing:
    print('missing tools:', missing)
    sys.exit(1)
print('ok')
