#!/usr/bin/env python3
"""Prints a replay file (failed obligation, verifier inputs, native replay result)."""
import json
import sys
d = json.load(open(sys.argv[1]))
print(json.dumps({k: d[k] for k in ('property', 'proof', 'failed_obligation', 'description', 'location_in_slice', 'native_replay')}, indent=1))
print('verifier inputs:', json.dumps(d.get('verifier_inputs'), indent=1)[:4000])
