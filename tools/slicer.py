#!/usr/bin/env python3
"""Verbatim slicing of function / struct definitions out of /repo's working tree.

The slicer never rewrites code except through the named desugaring rules (D1..D9) below, each of
which must fire at least once when requested and is recorded (rule, count, original line) so that
the evidence file can state exactly what differs between the text that runs and the text verified.

Errors (definition not found, ambiguous, rule did not fire) raise SliceError -> exit status 2
(undecided), never a violation.
"""
import hashlib
import os
import re


class SliceError(Exception):
    pass


def mask(text):
    """Return text of the same length with comments, string and char literals blanked
    (newlines kept) so that brace matching and regexes see code only."""
    out = list(text)
    i, n = 0, len(text)
    while i < n:
        c = text[i]
        if c == '/' and i + 1 < n and text[i + 1] == '/':
            j = i
            while j < n and text[j] != '\n':
                # line continuation inside // comment
                if text[j] == '\\' and j + 1 < n and text[j + 1] == '\n':
                    out[j] = ' '
                    j += 2
                    continue
                out[j] = ' '
                j += 1
            i = j
        elif c == '/' and i + 1 < n and text[i + 1] == '*':
            j = text.find('*/', i + 2)
            j = n if j < 0 else j + 2
            for k in range(i, j):
                if text[k] != '\n':
                    out[k] = ' '
            i = j
        elif c == 'R' and text.startswith('R"', i) and (i == 0 or not (text[i - 1].isalnum() or text[i - 1] == '_')):
            m = re.match(r'R"([^()\\ ]{0,16})\(', text[i:])
            if not m:
                i += 1
                continue
            end = text.find(')' + m.group(1) + '"', i)
            j = n if end < 0 else end + len(m.group(1)) + 2
            for k in range(i + 1, j - 1):
                if text[k] != '\n':
                    out[k] = ' '
            i = j
        elif c == '"' or c == "'":
            # a ' between digits is a C++14 digit separator
            if c == "'" and i > 0 and text[i - 1].isalnum() and i + 1 < n and text[i + 1].isalnum() \
               and re.search(r'[0-9][0-9a-fA-F\']*$', text[max(0, i - 20):i]):
                i += 1
                continue
            j = i + 1
            while j < n and text[j] != c:
                if text[j] == '\\':
                    j += 1
                if j < n and text[j] == '\n':
                    break
                j += 1
            for k in range(i + 1, min(j, n)):
                if text[k] != '\n':
                    out[k] = ' '
            i = j + 1
        else:
            i += 1
    # blank preprocessor directives (with their continuation lines) so that they are neither matched nor
    # taken for part of a declaration
    res = ''.join(out)
    lines = res.split('\n')
    k = 0
    while k < len(lines):
        if lines[k].lstrip().startswith('#'):
            while True:
                cont = lines[k].rstrip().endswith('\\')
                lines[k] = ' ' * len(lines[k])
                if not cont or k + 1 >= len(lines):
                    break
                k += 1
        k += 1
    return '\n'.join(lines)


def match_close(m, i, open_c, close_c):
    """m: masked text, i: index of open_c. Returns index of matching close_c."""
    depth = 0
    n = len(m)
    while i < n:
        ch = m[i]
        if ch == open_c:
            depth += 1
        elif ch == close_c:
            depth -= 1
            if depth == 0:
                return i
        i += 1
    raise SliceError('unbalanced %s%s' % (open_c, close_c))


def _decl_start(m, pos):
    """Walk back from pos to the start of the declaration: just after the previous ';', '}' or '{'
    at the same nesting, or after a preprocessor line."""
    i = pos - 1
    while i >= 0:
        ch = m[i]
        if ch in ';}{':
            break
        if ch == '\n':
            # is the previous line a preprocessor line?
            ls = m.rfind('\n', 0, i) + 1
            if m[ls:i].lstrip().startswith('#'):
                break
        i -= 1
    i += 1
    while i < pos and m[i] in ' \t\r\n':
        i += 1
    return i


class Slice:
    def __init__(self, path, name, kind, text, line, rules=None):
        self.path, self.name, self.kind, self.text, self.line = path, name, kind, text, line
        self.orig = text
        self.rules = rules or []   # list of (rule, count)

    def sha(self):
        return hashlib.sha256(self.orig.encode()).hexdigest()[:16]

    def info(self):
        return {'file': self.path, 'name': self.name, 'kind': self.kind, 'line': self.line,
                'lines': self.orig.count('\n') + 1, 'sha256_16': self.sha(),
                'desugar_rules_fired': [{'rule': r, 'count': c} for r, c in self.rules]}


def find_function(text, name, nth=None, masked=None):
    """Return (start, end) of the definition of function `name` (may be qualified A::b)."""
    m = masked if masked is not None else mask(text)
    pat = re.compile(r'(?<![\w:~])' + re.escape(name).replace(r'\:\:', r'\s*::\s*') + r'\s*\(')
    found = []
    for mo in pat.finditer(m):
        lp = mo.end() - 1
        try:
            rp = match_close(m, lp, '(', ')')
        except SliceError:
            continue
        j = rp + 1
        # trailing qualifiers
        while True:
            mm = re.match(r'\s*(const|noexcept|override|final)\b', m[j:])
            if not mm:
                break
            j += mm.end()
        mm = re.match(r'\s*', m[j:])
        j += mm.end()
        if j < len(m) and m[j] == ':' and m[j:j + 2] != '::':
            # constructor initializer list: skip to the body's '{' (initializers use parens or braces)
            k = j + 1
            while k < len(m):
                if m[k] == '(':
                    k = match_close(m, k, '(', ')') + 1
                    continue
                if m[k] == '{':
                    # brace-init or body? body if previous non-space is ')' or '}' or identifier+space..
                    prev = m[:k].rstrip()[-1]
                    if prev in ')}':
                        break
                    k = match_close(m, k, '{', '}') + 1
                    continue
                k += 1
            j = k
        if j >= len(m) or m[j] != '{':
            continue
        # must not be inside a function body: require the decl start to be preceded by ; } { or BOF
        ds = _decl_start(m, mo.start())
        head = m[ds:mo.start()]
        if re.search(r'\b(return|if|while|for|switch|else|case|new|delete)\b', head) or '=' in head or '(' in head:
            continue
        end = match_close(m, j, '{', '}') + 1
        found.append((ds, end))
    if not found:
        raise SliceError('definition of function %s not found' % name)
    if nth is None:
        if len(found) != 1:
            raise SliceError('definition of function %s ambiguous (%d found); give nth' % (name, len(found)))
        return found[0]
    if nth >= len(found):
        raise SliceError('function %s: nth=%d but only %d found' % (name, nth, len(found)))
    return found[nth]


def find_struct(text, name, masked=None):
    m = masked if masked is not None else mask(text)
    pat = re.compile(r'\b(struct|class|enum\s+class|enum|union)\s+' + re.escape(name) + r'\b[^;{()]*\{')
    found = []
    for mo in pat.finditer(m):
        lb = mo.end() - 1
        rb = match_close(m, lb, '{', '}')
        mm = re.match(r'\s*;', m[rb + 1:])
        if not mm:
            continue
        ds = mo.start()
        # include a preceding template<...> line
        pre = m[:ds].rstrip()
        if pre.endswith('>'):
            t = pre.rfind('template')
            if t >= 0 and ';' not in m[t:ds] and '}' not in m[t:ds]:
                ds = t
        found.append((ds, rb + 1 + mm.end()))
    if len(found) != 1:
        raise SliceError('definition of struct/class %s: %d found' % (name, len(found)))
    return found[0]


def find_between(text, start_pat, end_pat, masked=None):
    """A fragment: from the first line matching start_pat up to and including the first later line
    matching end_pat. Both patterns must match exactly once / at least once after start."""
    lines = text.split('\n')
    if '\\n' in start_pat:
        # a start pattern spanning several lines (the first line alone is ambiguous): matched against the whole text
        s = [text.count('\n', 0, mo.start()) for mo in re.finditer(start_pat, text, re.M)]
    else:
        s = [i for i, l in enumerate(lines) if re.search(start_pat, l)]
    if len(s) != 1:
        raise SliceError('fragment start /%s/ matched %d lines' % (start_pat, len(s)))
    e = [i for i, l in enumerate(lines) if i >= s[0] and re.search(end_pat, l)]
    if not e:
        raise SliceError('fragment end /%s/ not found' % end_pat)
    a = sum(len(l) + 1 for l in lines[:s[0]])
    b = sum(len(l) + 1 for l in lines[:e[0] + 1])
    return a, b


# ---------------------------------------------------------------------------------------------
# desugaring rules. Each takes (text, arg) and returns (new_text, count).

def _d1_range_for(text, arg):
    """D1: for (T v : c) {  ->  for (size_t __iK = 0; __iK < N(c); __iK++) { T v = c[__iK];
    arg: dict mapping container expr -> 'array' for C arrays (sizeof-based N); default .size().
         key '__auto__' optionally maps 'auto' element declarations to a concrete type."""
    arg = arg or {}
    m = mask(text)
    out, last, cnt = [], 0, 0
    for mo in re.finditer(r'\bfor\s*\(', m):
        lp = mo.end() - 1
        rp = match_close(m, lp, '(', ')')
        inner = text[lp + 1:rp]
        minner = m[lp + 1:rp]
        if ';' in minner:
            continue
        cm = re.search(r'(?<!:):(?!:)', minner)
        if not cm:
            continue
        decl = inner[:cm.start()].strip()
        cont = inner[cm.end():].strip()
        mm = re.match(r'\s*\{', m[rp + 1:])
        if not mm:
            raise SliceError('D1: range-for without braces: ' + inner)
        if re.search(r'\bauto\b', decl):
            sub = arg.get('__auto__', {}).get(cont)
            if not sub:
                raise SliceError('D1: auto in range-for over %s needs an element type' % cont)
            decl = re.sub(r'\bauto\b', sub, decl)
        iv = '__i%d' % cnt
        if arg.get(cont) == 'array':
            nexpr = '(sizeof(%s) / sizeof((%s)[0]))' % (cont, cont)
        else:
            nexpr = '(%s).size()' % cont
        rep = 'for (size_t %s = 0; %s < %s; %s++) { %s = (%s)[%s];' % (iv, iv, nexpr, iv, decl, cont, iv)
        out.append(text[last:mo.start()])
        out.append(rep)
        last = rp + 1 + mm.end()
        cnt += 1
    out.append(text[last:])
    return ''.join(out), cnt


def _d2_brace_temp(text, arg):
    """D2: `return{};` -> `return T();`  (arg = T)  and  `T{ e }` temporaries -> `T( e )` for the type
    names listed in arg['types']."""
    cnt = 0
    if isinstance(arg, dict) and arg.get('return'):
        text, c = re.subn(r'\breturn\s*\{\s*\}\s*;', 'return %s();' % arg['return'], text)
        cnt += c
    for t in (arg or {}).get('types', []):
        m = mask(text)
        out, last = [], 0
        for mo in re.finditer(r'(?<![\w.])' + re.escape(t) + r'\s*\{', m):
            lb = mo.end() - 1
            rb = match_close(m, lb, '{', '}')
            out.append(text[last:lb])
            out.append('(' + text[lb + 1:rb] + ')')
            last = rb + 1
            cnt += 1
        out.append(text[last:])
        text = ''.join(out)
    return text, cnt


def _d3_cond_decl(text, arg):
    """D3: if (T v = e) {...}  ->  { T v = e; if (v) {...} }   (the else branch, if any, stays
    attached because the closing brace is added after the complete if/else statement)."""
    m = mask(text)
    out, last, cnt = [], 0, 0
    for mo in re.finditer(r'\bif\s*\(', m):
        lp = mo.end() - 1
        rp = match_close(m, lp, '(', ')')
        inner = text[lp + 1:rp]
        dm = re.match(r'\s*((?:const\s+)?[\w:<>]+(?:\s*[\*&])?)\s+(\w+)\s*=(?!=)', m[lp + 1:rp])
        if not dm or dm.group(1) in ('return',):
            continue
        # find end of whole if/else chain
        k = rp + 1
        while True:
            mm = re.match(r'\s*\{', m[k:])
            if not mm:
                raise SliceError('D3: if without braces')
            k = match_close(m, k + mm.end() - 1, '{', '}') + 1
            me = re.match(r'\s*else\b', m[k:])
            if not me:
                break
            k += me.end()
            mi = re.match(r'\s*if\s*\(', m[k:])
            if mi:
                k = match_close(m, k + mi.end() - 1, '(', ')') + 1
        if mo.start() < last:
            continue
        out.append(text[last:mo.start()])
        out.append('{ %s; if (%s)' % (inner.strip(), dm.group(2)))
        out.append(text[rp + 1:k])
        out.append(' }')
        last = k
        cnt += 1
    out.append(text[last:])
    return ''.join(out), cnt


def _d5_drop_words(text, arg):
    """D5: drop `override`, `final`, `[[...]]`, NODISCARD (attribute words the front end rejects)."""
    words = arg or ['override']
    cnt = 0
    for w in words:
        if w == '[[':
            text, c = re.subn(r'\[\[[^\]]*\]\]', '', text)
        else:
            text, c = re.subn(r'\b' + re.escape(w) + r'\b', '', text)
        cnt += c
    return text, cnt


def _d6_const_ref_member(text, arg):
    """D6: `const T &member;` data members -> `T &member;` and the same in constructor parameters
    that initialise them. arg: list of (type, member-or-param name)."""
    cnt = 0
    for t, nm in arg:
        text, c = re.subn(r'\bconst\s+' + re.escape(t) + r'\s*&\s*' + re.escape(nm) + r'\b', '%s &%s' % (t, nm), text)
        cnt += c
    return text, cnt


def _d7_drop_lcurrent(text, arg):
    """D7: drop `constexpr static auto LCURRENT = X;` (log severity constants feeding LOG_FMT only)."""
    return re.subn(r'^[ \t]*constexpr\s+static\s+auto\s+LCURRENT\s*=\s*\w+\s*;[ \t]*\n', '', text, flags=re.M)


def _d8_subst(text, arg):
    """D8: literal token substitution list [(regex, replacement, why)], each must fire. Used for
    `auto` -> declared type and for template parameter monomorphisation (D4)."""
    cnt = 0
    for ent in arg:
        pat, rep = ent[0], ent[1]
        optional = len(ent) > 3 and ent[3]       # (regex, replacement, why, True): nothing to rewrite if the text does not contain it
        text, c = re.subn(pat, rep, text)
        if c == 0 and not optional:
            raise SliceError('D8 substitution /%s/ did not fire' % pat)
        cnt += c
    return text, max(cnt, 1) if arg and all(len(e) > 3 and e[3] for e in arg) else cnt


def _d9_drop_template_header(text, arg):
    """D4 helper: drop `template<typename T>` header line (after D8 substituted T)."""
    return re.subn(r'template\s*<[^>]*>\s*', '', text, count=1)


D9_RENAMES = [(r'(?:std::)?vector<\s*UINT8\s*>', 'vector_UINT8'), (r'(?:std::)?deque<\s*UINT8\s*>', 'deque_UINT8'),
              (r'(?:std::)?deque<\s*int\s*>', 'deque_int'), (r'\bOption<\s*unsigned\s*>', 'Option_unsigned')]


def d9_type_rename(sl):
    """D9 (always on): rename container template-ids to C-spellable struct names (see env/containers.h)."""
    cnt = 0
    for pat, rep in D9_RENAMES:
        sl.text, c = re.subn(pat, rep, sl.text)
        cnt += c
    if cnt:
        sl.rules.append(('D9', cnt))
    return sl


def _d10_log_rule(text, arg):
    """D10: log_rule("<name>") -> log_rule_id(RULE_<name>) when <name> is one of the option names in arg
    (set), log_rule_id(RULE_NONE) for every other argument. The macro log_rule() of src/log_rules.h only
    feeds the space log / tracking output; the rewrite replaces the string by its generated id so that the
    contract can relate the rule logged to the option consulted."""
    names = arg
    cnt = [0]

    def rep(mo):
        cnt[0] += 1
        a = mo.group(1).strip()
        lm = re.match(r'^"(\w+)"$', a)
        if lm and lm.group(1) in names:
            return 'log_rule_id(RULE_%s)' % lm.group(1)
        return 'log_rule_id(RULE_NONE /* %s */)' % a.replace('*/', '* /')
    text = re.sub(r'\blog_rule\(((?:[^()"]|"(?:[^"\\]|\\.)*")*)\)', rep, text)
    return text, cnt[0]


RULES = {'D10': _d10_log_rule, 'D1': _d1_range_for, 'D2': _d2_brace_temp, 'D3': _d3_cond_decl, 'D5': _d5_drop_words,
         'D6': _d6_const_ref_member, 'D7': _d7_drop_lcurrent, 'D8': _d8_subst, 'D4': _d9_drop_template_header}


def apply_rules(sl, rules):
    for r, arg in rules:
        optional = r.endswith('?')        # 'D1?': apply where the pattern occurs, nothing to rewrite otherwise
        r = r.rstrip('?')
        new, c = RULES[r](sl.text, arg)
        if c == 0 and optional:
            continue
        if c == 0:
            raise SliceError('%s: desugaring %s requested but its pattern does not occur' % (sl.name, r))
        sl.text = new
        sl.rules.append((r, c))
    return d9_type_rename(sl)


_cache = {}


def load(repo, rel):
    key = (repo, rel)
    if key not in _cache:
        with open(rel if os.path.isabs(rel) else '%s/%s' % (repo, rel), encoding='utf-8', errors='surrogateescape') as f:
            t = f.read()
        _cache[key] = (t, mask(t))
    return _cache[key]


def slice_function(repo, rel, name, nth=None, rules=()):
    t, m = load(repo, rel)
    a, b = find_function(t, name, nth, m)
    sl = Slice(rel, name, 'function', t[a:b], t.count('\n', 0, a) + 1)
    return apply_rules(sl, rules)


def slice_struct(repo, rel, name, rules=()):
    t, m = load(repo, rel)
    a, b = find_struct(t, name, m)
    sl = Slice(rel, name, 'struct', t[a:b], t.count('\n', 0, a) + 1)
    return apply_rules(sl, rules)


def slice_fragment(repo, rel, name, start_pat, end_pat, rules=()):
    t, m = load(repo, rel)
    a, b = find_between(t, start_pat, end_pat, m)
    sl = Slice(rel, name, 'fragment', t[a:b], t.count('\n', 0, a) + 1)
    return apply_rules(sl, rules)


def function_body_range(text):
    """For a sliced function text return (index of body '{', index of matching '}')."""
    m = mask(text)
    # the first '{' at paren depth 0 after the parameter list
    i = m.find('(')
    rp = match_close(m, i, '(', ')')
    j = m.find('{', rp)
    return j, match_close(m, j, '{', '}')


if __name__ == '__main__':
    import sys
    repo, rel, name = sys.argv[1:4]
    try:
        print(slice_function(repo, rel, name).text)
    except SliceError:
        print(slice_struct(repo, rel, name).text)
