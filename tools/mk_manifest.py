#!/usr/bin/env python3
"""Regenerates /verif/MANIFEST.json from the table below (kept in one place so that claims, level notes and the
not_applicable list stay consistent)."""
import json
import os

VERIF = os.path.dirname(os.path.dirname(os.path.abspath(__file__)))
TECH = 'contract-based deductive verification: CBMC 6.11 function contracts + loop contracts (goto-instrument --dfcc) on functions sliced verbatim from /repo each run'
TRUST = ('trusted: /verif/env stubs (containers, cp_data_t, sinks), desugaring rules of tools/slicer.py, CBMC C++ front end + DFCC + SAT back end; '
         'assumed: the glue assumptions G and assumed contracts listed in the evidence file')

CLAIMS = {
    'C02': ('Kernel proof of the mechanisms that keep the token stream intact: the chunk-list primitives (ChunkListManager: every operation preserves the doubly-linked-list '
            'invariant and changes the sequence only as specified), the tokenizer white-space primitives (only white space is ever discarded, whole terminators consumed). '
            'The passes between tokenizer and output are glue assumptions.', '4 C02'),
    'C03': ('Kernel proof, literal half only: add_text()/add_char() emit the characters of a literal chunk unchanged (no tab expansion when is_literal). The comment writers are out of reach of the C++ front end and NOT covered.', '4 C03'),
    'C04': ('Kernel proof of the option gating of the code-modifying passes.', '4 C04'),
    'C06': ('Kernel proof of memory safety, absence of signed overflow and termination (decreases clauses) for the decoders of unicode.cpp and the tokenizer white-space primitives, for inputs of any length; progress contracts (true => cursor advanced, false => restored).', '4 C06'),
    'C07': ('Kernel proof: ignored text is written raw by add_text(is_ignored) (frame excludes all column/space state) and the blank-line path of the capture consumes only blanks/terminators with an exact count.', '4 C07'),
    'C08': ('Kernel proof: add_char() is the single line-break writer (no raw CR/LF reaches write_char; lone CR and CR LF give one break), the terminator census, the choice of cpd.newline and whole-terminator consumption in the tokenizer.', '4 C08'),
    'C09': ('Kernel proof: the UTF-8/UTF-16 codec, BOM/encoding detection policy and per-encoding writers of src/unicode.cpp against contracts from RFC 3629/2279 and Unicode D91, for all code points and byte vectors of any length.', '4 C09'),
    'C11': ('Kernel proof: uncrustify_end() re-establishes the start-of-file value of every per-file field of cpd.', '4 C11'),
    'C12': ('Kernel proof: bout_content_matches() returns true exactly for byte-equal buffers; write_byte() capture branch; do_source_file() performs no file-system write under --check and none under --if-changed when unchanged.', '4 C12'),
    'C13': ('Kernel proof (safety half): call-order typestate of do_source_file() over all outcomes of every libc call: target never opened for writing, rename only after a successful close, failures exit non-zero. Crash points are not expressible.', '4 C13'),
    'C14': ('Kernel proof (per-run protocol): backup_copy_file() on a ghost file system and the ordering md5-after-rename in do_source_file(). Histories are argued by a one-step invariant, not machine checked.', '4 C14'),
    'C15': ('Kernel proof: generated to_string/convert_string are inverse for every enum value; string-value quoting round trip is a bounded stand-in.', '4 C15'),
    'C16': ('Kernel proof: range validation of bounded options, assign-only-on-success of the readers, nl_max cross check.', '4 C16'),
    'C17': ('Kernel proof: add_char() buffers blanks and flushes them only in front of a character; tab-after-space guard with the right option; add_text == sequence of add_char.', '4 C17'),
    'C19': ('Kernel proof: do_space() returns the configured value of exactly the option it logs, for all token neighbourhoods and all option values at once.', '4 C19'),
    'C20': ('Kernel proof: blank_line_max/blank_line_set caps, newlines_eat_start_end policy, nl_max cross check.', '4 C20'),
}

NOT_APPLICABLE = {
    'C01': 'needs a compiler as oracle over whole programs; no function contract can state object-code equivalence; its contract-reachable mechanisms are claimed under C02/C04',
    'C05': '2-run hyperproperty (format(format(x)) == format(x)) of the whole pipeline; contracts relate pre/post state of one call',
    'C10': 'equality of outputs across 10 delivery modes / environments is a relational property of main() and the OS, outside function contracts',
    'C18': 'input/output specification of the 4600-line indent_text() over a ParsingFrame stack; beyond any tractable loop invariant and beyond CBMC\'s C++ front end',
}


def main():
    have = sorted(d for d in os.listdir(os.path.join(VERIF, 'contracts')) if d.startswith('C') and os.path.exists(os.path.join(VERIF, 'contracts', d, 'proofs.py')))
    checks = []
    for pid in have:
        text, ref = CLAIMS[pid]
        checks.append({
            'property_id': pid, 'quick_cmd': 'python3 check.py %s quick' % pid, 'thorough_cmd': 'python3 check.py %s thorough' % pid,
            'evidence_file': '/verif/evidence/%s.json' % pid, 'engine': 'cbmc-contracts',
            'replay_cmd_template': 'python3 tools/replay.py {path}',
            'level_claimed': {'category': 'proof', 'text': text + ' The property as a whole additionally rests on the glue assumptions G listed in the evidence file; a pass of this check does not establish the end-to-end statement.', 'design_ref': 'DESIGN.md ' + ref},
            'level_note': TRUST, 'technique': TECH})
    na = dict(NOT_APPLICABLE)
    for pid in CLAIMS:
        if pid not in have:
            na[pid] = 'planned (DESIGN.md section 4) but no check is registered yet: not claimed'
    doc = {
        'version': 1,
        'setup_cmd': 'python3 tools/setup_check.py',
        'hooks': {'guard': 'UNCRUSTIFY_VERIF',
                  'enable': 'none needed: checks slice the unmodified sources of /repo\'s working tree; no hook code exists in /repo',
                  'baseline_off_cmd': 'cmake --build /repo/_build -j16 && ctest --test-dir /repo/_build -j8 --timeout 900',
                  'source_commits': [], 'add_only': True},
        'engines': [{'name': 'cbmc-contracts', 'path': '/verif/check.py', 'serves_properties': have,
                     'kind_free_text': 'verbatim slices of /repo C++ functions + CBMC 6.11 code contracts (goto-instrument --dfcc --enforce-contract / --replace-call-with-contract / --apply-loop-contracts), cadical SAT back end'}],
        'checks': checks,
        'not_applicable': [{'property_id': k, 'reason': v} for k, v in sorted(na.items())],
        'notes': 'exit 2 = undecided (slice/front-end/timeout), never reported as VIOLATION; thorough = quick + mutation self-test of every kernel',
    }
    with open(os.path.join(VERIF, 'MANIFEST.json'), 'w') as f:
        json.dump(doc, f, indent=1)
    print('claimed:', have)


if __name__ == '__main__':
    main()
