#!/usr/bin/env python3
"""Regenerates /verif/MANIFEST.json from the table below (kept in one place so that claims, level notes and the
not_applicable list stay consistent)."""
import json
import os

VERIF = os.path.dirname(os.path.dirname(os.path.abspath(__file__)))
TRUST = ('trusted: /verif/env stubs (containers, cp_data_t, sinks), desugaring rules of tools/slicer.py, CBMC C++ front end + DFCC + SAT back end; '
         'assumed: the glue assumptions G and assumed contracts listed in the evidence file')

TECH = ('contract-based deductive verification: CBMC 6.11 function contracts + loop contracts (goto-instrument --dfcc --enforce-contract / --replace-call-with-contract / '
        '--apply-loop-contracts) on functions sliced verbatim from /repo on every run; a few large functions (do_space, the loop bodies of do_blank_lines / space_text, the list '
        'primitives, the enum round-trip lemmas) are checked as direct verification conditions (assume requires / call the real function / assert ensures, loops unwound to a '
        'stated complete bound with unwinding assertions)')

CLAIMS = {
    'C02': ('Kernel proof of the mechanisms that keep the token stream intact: the chunk-list primitives (ChunkListManager: every operation preserves the doubly-linked-list '
            'invariant and changes the sequence only as specified), the tokenizer white-space primitives (only white space is ever discarded, whole terminators consumed), the '
            'token-fusion guard (space_text core: PCF_FORCE_SPACE for back-to-back words / fusing punctuators; ensure_force_space / space_needed honour it), output_to_column '
            '(columns never move left) and the dispatch of output_text (every chunk text written once, after moving to its column). The passes between tokenizer and output are glue assumptions. Round 4: do_space never answers REMOVE between a brace-less else/do and the following word; the safety check of space_text also covers a / before * or / (comment opener); the operator-type collection of tokenize_cleanup keeps two words apart.', '4 C02, 9'),
    'C03': ('Kernel proof, literal half only: add_text()/add_char() emit the characters of a literal chunk unchanged (no tab expansion when is_literal) and output_text hands every chunk text to add_text '
            'exactly once with is_literal == Is(CT_STRING). The comment writers are out of reach of the C++ front end and NOT covered. Round 4: cmt_trim_whitespace (the line trimmer every comment line passes through), the strip fragment of tokenize() and tag_compare (raw-string delimiters) are under contract.', '4 C03, 9'),
    'C04': ('Kernel proof of the option gating of the code-modifying passes in uncrustify_file(). Round 4: the option gates of do_braces / do_parens*, convert_brace and insert_vbrace (an added brace never lands behind a // comment).', '4 C04'),
    'C06': ('Kernel proof of memory safety, absence of signed overflow and termination (decreases clauses) for the decoders of unicode.cpp and the tokenizer white-space primitives, for inputs of any length; '
            'progress contracts (true => cursor advanced, false => restored); output once and last in uncrustify_file(). Round 4: the bracket stack of check_template (no access outside tokens[max_token_count], for every nesting depth) and termination of find_start_brace.', '4 C06'),
    'C07': ('Kernel proof: while processing is off parse_next() asks parse_ignored first; ignored text is written raw by add_text(is_ignored) (no column/space state touched) and by nothing else '
            '(output_text dispatch); the blank-line path of the capture consumes only blanks/terminators with an exact count; cpd.unc_off is cleared after every file. Round 4: which comment opens / closes a region (tail of parse_comment); CT_IGNORED text is never stripped by tokenize().', '4 C07, 9'),
    'C08': ('Kernel proof: add_char() is the single line-break writer (no raw CR/LF reaches write_char; lone CR and CR LF give one break), output_text emits line breaks only through it, the terminator census, '
            'the choice of cpd.newline, whole-terminator consumption in the tokenizer, census reset per file. Round 4: the newline eaters of disabled regions do not vote in the census.', '4 C08, 9'),
    'C09': ('Kernel proof: the UTF-8/UTF-16 codec, BOM/encoding detection policy and per-encoding writers of src/unicode.cpp against contracts from RFC 3629/2279 and Unicode D91, for all code points and byte vectors of any length.', '4 C09'),
    'C11': ('Kernel proof: uncrustify_end() re-establishes the start-of-file value of every per-file field of cpd (frame included); do_source_file() restores a forced language and rebuilds the keyword table for every file.', '4 C11, 9'),
    'C12': ('Kernel proof: bout_content_matches() returns true exactly for byte-equal buffers; write_byte() capture branch; do_source_file() performs no file-system write under --check and none under --if-changed when unchanged; '
            'the capture buffer is emptied after every file.', '4 C12'),
    'C13': ('Kernel proof (safety half): call-order typestate of do_source_file() over all outcomes of every libc call: target never opened for writing, rename only after a successful close with no write error, failures exit non-zero; '
            'backup_copy_file() returns EX_OK only with a complete backup. Crash points are not expressible. Round 4: the backup is made before the rename; load_mem_file returns 0 only with the whole file in memory.', '4 C13'),
    'C14': ('Kernel proof (per-run protocol): backup_copy_file() on a ghost file system; in do_source_file() the md5 is recorded only after the target is final and only when this run ensured the backup. Histories are argued by a one-step invariant, not machine checked. Round 4: backup_create_md5_file (digest of the whole file or nothing) and load_mem_file.', '4 C14, 9'),
    'C15': ('Kernel proof: generated to_string/convert_string are inverse for every enum value; the writer of string option values, read back by a model of the split_args reader, yields the value (any length); every custom keyword is written as a line the loader (contract of process_option_line) maps back to the same keyword and token. file_ext mappings, numeric values and the reader split_args itself are NOT covered.', '4 C15, 9'),
    'C16': ('Kernel proof: BoundedOption::validate accepts exactly [min,max]; read_number<signed/unsigned> and Option<bool>::read assign only on success, store exactly the number written (no truncation), stay inside the value text '
            '(memory safety for every text) and diagnose every rejection; too_big_for_nl_max covers every documented count option. Round 4: the whole line dispatcher process_option_line (a diagnosed line has no other effect, for any command word and any number of arguments), read_enum (references only to options of the same type), read_version_part.', '4 C16, 9'),
    'C17': ('Kernel proof: add_char() buffers blanks and flushes them only in front of a character; tab-after-space guard with the right option; add_text == sequence of add_char; output_to_column / cmt_output_indent '
            '(tabs only when allowed, never after a blank); output_text passes allow_tabs == false whenever the effective indent_with_tabs / pp_indent_with_tabs is 0; end-of-file policy under C20. Round 4: chunk texts leave the tokenizer without trailing blanks (strip fragment) and cmt_trim_whitespace hands on no trailing blank.', '4 C17, 9'),
    'C19': ('Kernel proof: do_space() returns the configured value of exactly the option it logs, for all token neighbourhoods and all option values at once; space_needed / space_text core / output_text (sp_before_nl_cont) '
            'turn the four values into columns as the property says. One recorded known finding (sp_bool with pos_bool).', '4 C19, 9'),
    'C20': ('Kernel proof: blank_line_max/blank_line_set caps, one iteration of do_blank_lines (at most nl_max line breaks when no count option asks for more), can_increase_nl (eat_blanks_* next to braces), '
            'newlines_eat_start_end policy, nl_max cross check. Round 4: newlines_remove_disallowed only lowers counts to 1 where can_increase_nl() forbids blank lines and leaves the first chunk of the file alone.', '4 C20, 9'),
}

NOT_APPLICABLE = {
    'C01': 'needs a compiler as oracle over whole programs; no function contract can state object-code equivalence; its contract-reachable mechanisms are claimed under C02/C04',
    'C05': '2-run hyperproperty (format(format(x)) == format(x)) of the whole pipeline; contracts relate pre/post state of one call',
    'C10': 'equality of outputs across 10 delivery modes / environments is a relational property of main() and the OS, outside function contracts',
    'C18': 'input/output specification of the 4600-line indent_text() over a ParsingFrame stack; beyond any tractable loop invariant and beyond CBMC\'s C++ front end',
}


def main():
    have = sorted(d for d in os.listdir(os.path.join(VERIF, 'contracts')) if d.startswith('C') and os.path.exists(os.path.join(VERIF, 'contracts', d, 'proofs.py')))
    checks = []
    for pid in have:
        text, ref = CLAIMS[pid]
        checks.append({
            'property_id': pid, 'quick_cmd': 'python3 check.py %s quick' % pid, 'thorough_cmd': 'python3 check.py %s thorough' % pid,
            'evidence_file': '/verif/evidence/%s.json' % pid, 'engine': 'cbmc-contracts',
            'replay_cmd_template': 'python3 tools/replay.py {path}',
            'level_claimed': {'category': 'proof', 'text': text + ' The property as a whole additionally rests on the glue assumptions G listed in the evidence file; a pass of this check does not establish the end-to-end statement.', 'design_ref': 'DESIGN.md ' + ref},
            'level_note': TRUST, 'technique': TECH})
    na = dict(NOT_APPLICABLE)
    for pid in CLAIMS:
        if pid not in have:
            na[pid] = 'planned (DESIGN.md section 4) but no check is registered yet: not claimed'
    doc = {
        'version': 1,
        'setup_cmd': 'python3 tools/setup_check.py',
        'hooks': {'guard': 'UNCRUSTIFY_VERIF',
                  'enable': 'none needed: checks slice the unmodified sources of /repo\'s working tree; no hook code exists in /repo',
                  'baseline_off_cmd': 'cmake --build /repo/_build -j16 && ctest --test-dir /repo/_build -j8 --timeout 900',
                  'source_commits': [], 'add_only': True},
        # repairs of genuine defects (unguarded 'fix:' commits in /repo, see known_findings.txt): 924acbc, bad5764, 501cb7c, fc1e7bc, 4298818
        'engines': [{'name': 'cbmc-contracts', 'path': '/verif/check.py', 'serves_properties': have,
                     'kind_free_text': 'verbatim slices of /repo C++ functions + CBMC 6.11 code contracts (goto-instrument --dfcc --enforce-contract / --replace-call-with-contract / --apply-loop-contracts), cadical SAT back end'}],
        'checks': checks,
        'not_applicable': [{'property_id': k, 'reason': v} for k, v in sorted(na.items())],
        'notes': 'exit 2 = undecided (slice/front-end/timeout/frame changed), never reported as VIOLATION; thorough = quick + thorough-only proofs (DFCC form of do_space) + mutation self-test of every kernel',
    }
    with open(os.path.join(VERIF, 'MANIFEST.json'), 'w') as f:
        json.dump(doc, f, indent=1)
    print('claimed:', have)


if __name__ == '__main__':
    main()
