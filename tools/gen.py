#!/usr/bin/env python3
"""Generated headers (rebuilt on every run into <work>/gen):

 offsets_cpp.h / offsets_c.h   field-offset constants for the env stub structs and for sliced structs, so
                               that contracts written in C can address C++ struct fields (C and C++ struct
                               types cannot be shared in CBMC: members are named S::m on the C++ side).
 options_gen.h / options_c.h   the option registry of /repo/src/options.h as symbolic scalars.
 repo_consts.h                 enum / flag constants read from /repo headers.
"""
import os
import re
import sys

sys.path.insert(0, os.path.dirname(os.path.abspath(__file__)))
import slicer  # noqa: E402

CTYPE = {'bool': '_Bool', 'size_t': 'unsigned long', 'int': 'int', 'UINT8': 'unsigned char',
         'UINT16': 'unsigned short', 'UINT32': 'unsigned int', 'UINT64': 'unsigned long', 'unsigned': 'unsigned int',
         'char': 'char', 'unsigned int': 'unsigned int', 'unsigned char': 'unsigned char', 'long': 'long',
         'E_Token': 'unsigned int', 'char_encoding_e': 'unsigned int', 'unc_stage_e': 'unsigned int',
         'iarf_e': 'int', 'UINT8 *': 'unsigned char *', 'int *': 'int *', 'T *': None}


def parse_stub_structs(text):
    """Yield (alias, cpptype, [(ctype, field)]) for each struct marked //@struct in a stub header."""
    out = []
    lines = text.split('\n')
    i = 0
    while i < len(lines):
        mo = re.search(r'^\s*(?:struct|class)\s+(\w+).*//@struct(.*)$', lines[i])
        if mo:
            name = mo.group(1)
            inst = mo.group(2).strip()
            fields = []
            j = i + 1
            depth = 0
            while j < len(lines):
                l = lines[j]
                fm = re.match(r'^\s*([\w:<> ]+?[\s\*&]+)(\w+)(\[[^\]]*\])?\s*(=[^;]*)?;\s*//@f(&?)\s*(.*)$', l)
                if fm:
                    ty = fm.group(1).strip()
                    ty = re.sub(r'\s*\*', ' *', ty)
                    fields.append((ty, fm.group(2), fm.group(6).strip(), bool(fm.group(3)) or fm.group(5) == '&'))
                depth += l.count('{') - l.count('}')
                if re.match(r'^\};', l):
                    break
                j += 1
            out.append((name, inst, fields))
            i = j
        i += 1
    return out


def gen_offsets(headers, outdir, extra=()):
    """headers: stub header paths. extra: [(alias, cpptype, [(ctype, field)])] for sliced structs."""
    cpp = ['// generated: field offsets of stub / sliced structs (evaluated by the C++ front end itself)',
           'extern "C" {']
    c = ['// generated', '#ifndef OFFSETS_C_H', '#define OFFSETS_C_H']
    seen = set()
    for h in headers:
        with open(h) as f:
            text = f.read()
        gm = re.search(r'#ifndef\s+(\w+)', text)
        guard = gm.group(1) if gm else None
        if guard:
            cpp.append('#ifdef %s' % guard)   # only for the stub headers this translation unit includes
        for name, inst, fields in parse_stub_structs(text):
            # inst: "alias=cpptype:T=ctype; alias2=..."  for templates, or empty
            insts = []
            if inst:
                for part in inst.split(';'):
                    part = part.strip()
                    if not part:
                        continue
                    al, rest = part.split('=', 1)
                    cppty, _, tsub = rest.partition('|')
                    insts.append((al.strip(), cppty.strip(), tsub.strip()))
            else:
                insts.append((name, name, ''))
            for al, cppty, tsub in insts:
                if al in seen:
                    continue
                seen.add(al)
                c.append('struct %s;' % al)
                for ty, fld, cty, isarr in fields:
                    ct = re.sub(r'\s*ifdef=\w+', '', cty or '') or CTYPE.get(ty)
                    if ty == 'T *':
                        ct = (tsub + ' *') if tsub else None
                    if ty == 'T':
                        ct = tsub or None
                    if ct is None:
                        ct = ty  # hope it is a C type
                    fg = re.search(r'ifdef=(\w+)', cty or '')
                    if fg:
                        cty = re.sub(r'\s*ifdef=\w+', '', cty)
                        ct = cty or ct
                        cpp.append('#ifdef %s' % fg.group(1))
                    cpp.append('extern const unsigned long OFF_%s_%s = (unsigned long)&(((%s*)0)->%s);' % (al, fld, cppty, fld))
                    if fg:
                        cpp.append('#endif')
                    c.append('extern const unsigned long OFF_%s_%s;' % (al, fld))
                    if isarr:
                        c.append('#define %s_%s(p) ((%s*)((char*)(p) + OFF_%s_%s))' % (al, fld, ct, al, fld))
                    else:
                        c.append('#define %s_%s(p) (*(%s*)((char*)(p) + OFF_%s_%s))' % (al, fld, ct, al, fld))
                cpp.append('extern const unsigned long SIZEOF_%s = sizeof(%s);' % (al, cppty))
                c.append('extern const unsigned long SIZEOF_%s;' % al)
        if guard:
            cpp.append('#endif')
    cpp.append('}')
    c.append('#endif')
    os.makedirs(outdir, exist_ok=True)
    with open(os.path.join(outdir, 'offsets_cpp.h'), 'w') as f:
        f.write('\n'.join(cpp) + '\n')
    with open(os.path.join(outdir, 'offsets_c.h'), 'w') as f:
        f.write('\n'.join(c) + '\n')


# ------------------------------------------------------------------------------------------------
# options registry

def parse_options(repo):
    """Parse /repo/src/options.h: returns list of dicts(name,type,min,max,default,doc)."""
    with open(os.path.join(repo, 'src/options.h')) as f:
        text = f.read()
    opts = []
    # declarations look like:  extern Option<iarf_e>\nsp_arith; // = default
    #                          extern BoundedOption<unsigned, 0, 16>\nindent_columns; // = 8
    pat = re.compile(r'((?:^[ \t]*//[^\n]*\n)+)?^extern\s+(Bounded)?Option<\s*([\w ]+?)\s*(?:,\s*(-?\w+)\s*,\s*(-?\w+)\s*)?>\s*\n?\s*(\w+)\s*;[ \t]*(//[^\n]*)?', re.M)
    for mo in pat.finditer(text):
        doc = mo.group(1) or ''
        d = {'name': mo.group(6), 'type': mo.group(3).strip(), 'bounded': bool(mo.group(2)),
             'min': mo.group(4), 'max': mo.group(5), 'doc': re.sub(r'^\s*//\s?', '', doc, flags=re.M).strip(),
             'default': None}
        tail = mo.group(7) or ''
        dm = re.search(r'=\s*(\S+)', tail)
        if dm:
            d['default'] = dm.group(1)
        opts.append(d)
    return opts


ENUM_RANGE = {'iarf_e': (0, 3), 'line_end_e': (0, 3), 'token_pos_e': None, 'bool': (0, 1)}


def gen_options(repo, outdir):
    opts = parse_options(repo)
    if len(opts) < 700:
        raise slicer.SliceError('options.h: parsed only %d options' % len(opts))
    cpp = ['// generated from %s/src/options.h: every option as a symbolic scalar' % repo,
           '#ifndef OPTIONS_GEN_H', '#define OPTIONS_GEN_H', 'extern "C" {']
    c = ['// generated', '#ifndef OPTIONS_C_H', '#define OPTIONS_C_H']
    ns = ['namespace options {']
    cty = {'bool': ('bool', '_Bool'), 'iarf_e': ('iarf_e', 'int'), 'line_end_e': ('line_end_e', 'int'),
           'token_pos_e': ('token_pos_e', 'int'), 'unsigned': ('unsigned', 'unsigned int'),
           'signed': ('signed', 'signed int'), 'string': ('const char *', 'const char *')}
    assume = []
    for o in opts:
        t = o['type']
        if t not in cty:
            raise slicer.SliceError('options.h: unknown option type %s' % t)
        cppT, cT = cty[t]
        if t == 'string':
            cpp.append('extern verif_string optv_%s;' % o['name'])
            ns.append('inline const verif_string &%s() { return optv_%s; }' % (o['name'], o['name']))
            continue
        if t in ('iarf_e', 'line_end_e', 'token_pos_e'):
            # stored as int so that the C contract files can name the variable (C and C++ enum types differ)
            cpp.append('int optv_%s;' % o['name'])
            ns.append('inline %s %s() { return (%s)optv_%s; }' % (cppT, o['name'], cppT, o['name']))
        else:
            cpp.append('%s optv_%s;' % (cppT, o['name']))
            ns.append('inline %s %s() { return optv_%s; }' % (cppT, o['name'], o['name']))
        c.append('extern %s optv_%s;' % (cT, o['name']))
        if o['bounded']:
            c.append('#define OPT_RANGE_%s ((long)optv_%s >= (long)(%s) && (long)optv_%s <= (long)(%s))' % (o['name'], o['name'], o['min'], o['name'], o['max']))
        elif t in ('iarf_e', 'line_end_e'):
            c.append('#define OPT_RANGE_%s ((int)optv_%s >= 0 && (int)optv_%s <= 3)' % (o['name'], o['name'], o['name']))
        elif t == 'token_pos_e':
            c.append('#define OPT_RANGE_%s (((int)optv_%s & ~0x3f) == 0)' % (o['name'], o['name']))
        else:
            c.append('#define OPT_RANGE_%s 1' % o['name'])
        if o['bounded']:
            assume.append('__CPROVER_assume((long)optv_%s >= (long)(%s) && (long)optv_%s <= (long)(%s));' % (o['name'], o['min'], o['name'], o['max']))
        elif t == 'iarf_e':
            assume.append('__CPROVER_assume((int)optv_%s >= 0 && (int)optv_%s <= 3);' % (o['name'], o['name']))
        elif t == 'line_end_e':
            assume.append('__CPROVER_assume((int)optv_%s >= 0 && (int)optv_%s <= 3);' % (o['name'], o['name']))
        elif t == 'token_pos_e':
            assume.append('__CPROVER_assume(((int)optv_%s & ~0x3f) == 0);' % o['name'])
    cpp.append('}')
    # value aliases IARF_x / LE_x / TP_x of the generated src/option_enum.h (make_option_enum.py: prefix from the
    # `// <PREFIX>` marker on the enum's first line), regenerated here from src/option.h
    with open(os.path.join(repo, 'src/option.h')) as f:
        oh = f.read()
    for mo in re.finditer(r'enum class (\w+) // <(\w+)>\s*\{(.*?)\};', oh, re.S):
        ename, prefix, body = mo.group(1), mo.group(2), slicer.mask(mo.group(3))
        if ename not in ('iarf_e', 'line_end_e', 'token_pos_e'):
            continue
        for en in re.findall(r'^\s*(\w+)\s*(?:=[^,]*)?,?\s*$', body, re.M):
            # macros, not objects: the front end does not accept a static const enum object as a case label
            cpp.append('#define %s_%s %s::%s' % (prefix, en, ename, en))
    cpp += ns + ['}']
    cpp.append('// the property\'s "in-range configuration" quantifier: every option value is any value of its documented range')
    cpp.append('static inline void verif_havoc_options() {')
    for o in opts:
        if o['type'] == 'string':
            continue
        cppT = cty[o['type']][0]
        if o['type'] in ('iarf_e', 'line_end_e', 'token_pos_e'):
            cpp.append('  optv_%s = nondet_int();' % o['name'])
        elif o['type'] == 'bool':
            cpp.append('  optv_%s = nondet_bool();' % o['name'])
        else:
            cpp.append('  optv_%s = (%s)nondet_%s();' % (o['name'], cppT, 'uint' if o['type'] == 'unsigned' else 'int'))
    cpp += ['  ' + a for a in assume]
    cpp.append('}')
    # C16-K4 / C20-K3: the set B of blank-line *count* options, taken from the documentation in options.h (not from
    # too_big_for_nl_max.cpp): unsigned nl_* options documented as "the number of newlines / blank lines" or
    # "the minimum number of ...", but not the caps ("maximum ...")
    B = [o['name'] for o in opts if o['type'] == 'unsigned' and o['name'].startswith('nl_') and o['name'] != 'nl_max'
         and re.search(r'(number of newlines|number of blank lines|number of consecutive newlines)', o['doc'], re.I)
         and not re.match(r'\s*(\(\w+\)\s*)?The maximum', o['doc']) and not re.search(r'[Mm]ax(imum)? (number|code)', o['doc'].split('.')[0])]
    c.append('#define NL_COUNT_OPTIONS_N %d' % len(B))
    c.append('#define NL_COUNT_ENSURES \\\n' + ' \\\n'.join('__CPROVER_ensures(optv_%s <= optv_nl_max) /* %s */' % (n, n) for n in B))
    c.append('#define NL_COUNT_ALL_OK (' + ' && '.join('optv_%s <= optv_nl_max' % n for n in B) + ')')
    c.append('#define NL_COUNT_ALL_ZERO (' + ' && '.join('optv_%s == 0' % n for n in B) + ')')
    cpp.append('#endif')
    c.append('#endif')
    os.makedirs(outdir, exist_ok=True)
    with open(os.path.join(outdir, 'nl_count_options.txt'), 'w') as f:
        f.write('\n'.join(B) + '\n')
    with open(os.path.join(outdir, 'options_gen.h'), 'w') as f:
        f.write('\n'.join(cpp) + '\n')
    with open(os.path.join(outdir, 'options_c.h'), 'w') as f:
        f.write('\n'.join(c) + '\n')
    return opts


if __name__ == '__main__':
    o = parse_options(sys.argv[1] if len(sys.argv) > 1 else '/repo')
    print(len(o))
    from collections import Counter
    print(Counter(x['type'] for x in o))
    print(o[0], o[100], [x for x in o if x['bounded']][:2])


def gen_consts(repo, outdir):
    """Constants read from /repo headers on every run (so a renumbering is followed, not assumed)."""
    os.makedirs(outdir, exist_ok=True)
    out = ['// generated from /repo headers', '#ifndef REPO_CONSTS_H', '#define REPO_CONSTS_H']
    # char_encoding_e order
    t = slicer.slice_struct(repo, 'src/uncrustify_types.h', 'char_encoding_e').text
    names = re.findall(r'\b(e_\w+)', slicer.mask(t))
    for i, n in enumerate(names):
        out.append('#define REPO_ENC_%s %d' % (n[2:], i))
    out.append('#endif')
    with open(os.path.join(outdir, 'repo_consts.h'), 'w') as f:
        f.write('\n'.join(out) + '\n')


def gen_space(repo, outdir, opts=None):
    """Headers for the do_space proof: PCF_* constants (src/pcf_flags.h), rule ids of every option name,
    and the C function mapping a rule id to the configured value of that option."""
    opts = opts or parse_options(repo)
    with open(os.path.join(repo, 'src/pcf_flags.h')) as f:
        t = f.read()
    cpp = ['// generated from src/pcf_flags.h and src/options.h', '#ifndef SPACE_GEN_H', '#define SPACE_GEN_H']
    n = 0
    for mo in re.finditer(r'^\s*(PCF_\w+)\s*=\s*(pcf_bit\((\d+)\)|0ULL|0x[0-9a-fA-F]+ULL)', t, re.M):
        v = ('(1UL << %s)' % mo.group(3)) if mo.group(3) else mo.group(2).replace('ULL', 'UL')
        cpp.append('static const unsigned long %s = %s;' % (mo.group(1), v))
        n += 1
    if n < 30:
        raise slicer.SliceError('pcf_flags.h: only %d flags parsed' % n)
    iarf = [o['name'] for o in opts if o['type'] == 'iarf_e']
    allnames = [o['name'] for o in opts]
    cpp.append('enum verif_rule_id { RULE_NONE = 0,')
    for i, nme in enumerate(allnames):
        cpp.append('  RULE_%s = %d,' % (nme, i + 1))
    cpp.append('};')
    cpp.append('#endif')
    with open(os.path.join(outdir, 'space_gen.h'), 'w') as f:
        f.write('\n'.join(cpp) + '\n')
    c = ['// generated: rule id -> configured value of the IARF option of that name (-1: not an IARF option)',
         '#ifndef SPACE_C_H', '#define SPACE_C_H', '#include "options_c.h"',
         'int rule_value(int id) {', '  switch (id) {']
    for i, nme in enumerate(allnames):
        if nme in iarf:
            c.append('  case %d: return optv_%s; /* %s */' % (i + 1, nme, nme))
    c += ['  default: return -1;', '  }', '}']
    for i, nme in enumerate(allnames):
        c.append('#define RULE_%s %d' % (nme, i + 1))
    # one attribution clause per IARF option, so that a failing site names its option; MAY_FORCE_ADD / MAY_WEAKEN_REMOVE
    # are defined by the contract file (the exceptions the property allows).
    # Rules with a recorded known deviation (contracts/C19/known_dev_rules.txt): their general clause is expected to fail
    # and is checked by the sibling proof do_space_reach (macro ATTRIBUTION_ENSURES_KNOWN); in the main proof
    # (ATTRIBUTION_ENSURES_MAIN) they get the strict clause = the same claim restricted to states outside the recorded
    # deviation (KNOWN_DEV(id), defined by the contract file), so that a *different* violation of such a rule still fails.
    kpath = os.path.join(os.path.dirname(os.path.dirname(os.path.abspath(__file__))), 'contracts', 'C19', 'known_dev_rules.txt')
    known = [l.strip() for l in open(kpath) if l.strip() and not l.startswith('#')] if os.path.exists(kpath) else []

    def general(i, nme):
        return ('__CPROVER_ensures(g_rule_id == %d ==> (__CPROVER_return_value == optv_%s'
                ' || (MAY_FORCE_ADD(%d) && __CPROVER_return_value == (optv_%s | 1))'
                ' || (MAY_WEAKEN_REMOVE(%d) && optv_%s == 2 && __CPROVER_return_value == 0))) /* %s */' % (i + 1, nme, i + 1, nme, i + 1, nme, nme))
    main, kn, sites_main, sites_known = [], [], [], []
    for i, nme in enumerate(allnames):
        if nme in iarf and nme not in known:
            main.append(general(i, nme))
            sites_main.append('rule=%s clause=general' % nme)
    for i, nme in enumerate(allnames):
        if nme in iarf and nme in known:
            main.append('__CPROVER_ensures((g_rule_id == %d && !KNOWN_DEV(%d)) ==> __CPROVER_return_value == optv_%s) /* strict: %s */' % (i + 1, i + 1, nme, nme))
            sites_main.append('rule=%s clause=strict' % nme)
            kn.append(general(i, nme))
            sites_known.append('rule=%s clause=general' % nme)
    c.append('#define ATTRIBUTION_ENSURES_MAIN \\\n' + ' \\\n'.join(main))
    c.append('#define ATTRIBUTION_ENSURES_KNOWN \\\n' + ' \\\n'.join(kn))
    import json
    with open(os.path.join(outdir, 'space_sites.json'), 'w') as f:
        json.dump({'main': sites_main, 'known': sites_known}, f)
    c.append('#define ALL_IARF_IN_RANGE (' + ' && '.join('OPT_RANGE_%s' % nme for nme in iarf) + ')')
    c.append('#endif')
    with open(os.path.join(outdir, 'space_c.h'), 'w') as f:
        f.write('\n'.join(c) + '\n')
    return allnames


def gen_option_enum(repo, outdir):
    """option_enum.cpp exactly as the build generates it (CMake py_gen: scripts/make_option_enum.py OUT option.h option_enum.cpp.in)."""
    import subprocess
    out = os.path.join(outdir, 'option_enum.cpp')
    p = subprocess.run([sys.executable, os.path.join(repo, 'scripts/make_option_enum.py'), out, os.path.join(repo, 'src/option.h'),
                        os.path.join(repo, 'src/option_enum.cpp.in')], stdout=subprocess.PIPE, stderr=subprocess.PIPE, text=True)
    if p.returncode != 0 or not os.path.exists(out):
        raise slicer.SliceError('make_option_enum.py failed: ' + p.stderr[-400:])
    return out
