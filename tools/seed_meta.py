#!/usr/bin/env python3
"""Development tool: (re)write seeded/<id>/meta.json and seeded/RESULTS.md from confirm.json / check_*.json (written by seed_eval.py)."""
import glob
import json
import os

VERIF = os.path.dirname(os.path.dirname(os.path.abspath(__file__)))
# what each independently written change touches and what it needs in order to manifest (from the authors' README.md)
INFO = {
    'C02_1': ('src/space.cpp space_text(): sp_permit_cpp11_shift exception compares text ">" instead of CT_ANGLE_CLOSE in the PCF_FORCE_SPACE guard', 'C++ with sp_permit_cpp11_shift=true, sp_after_angle=remove and a template-id directly followed by a ">" comparison: "> >" fuses into ">>"'),
    'C02_2': ('src/newlines/class_colon_pos.cpp: SafeToDeleteNl() evaluated on prev instead of next', 'nl_class_colon=remove with the colon last on its line, followed by a // comment or a #if line: code is swallowed by the comment / directive loses its line'),
    'C03_1': ('src/tokenizer/tokenize.cpp tokenize() strip loop: the blank kept after a trailing backslash only inside preprocessor lines', 'a // comment outside a preprocessor line whose text ends in backslash + blank: the next source line is swallowed by the comment'),
    'C03_2': ('src/newlines/class_colon_pos.cpp TP_TRAIL branch: SafeToDeleteNl() replaced by IsSamePreproc()', 'pos_constr_colon/pos_class_colon=trail and a // comment at the end of the line before the colon: the colon moves into the comment'),
    'C04_1': ('src/braces.cpp paren_multiline_before_brace(): level filter dropped from GetPrevType', 'mod_full_brace_if_chain=1 + mod_full_brace_nl_block_rem_mlcond=true and an if/else block that is a single for/while with a multi-line (...): unbalanced braces'),
    'C04_2': ('src/braces.cpp convert_brace(): SafeToDeleteNl() replaced by IsSamePreproc()', 'mod_full_brace_if=remove and "if (a) // comment" followed by a one-line { stmt; }: the statement vanishes into the comment'),
    'C06_1': ('src/align/nl_cont.cpp align_nl_cont(): while loop turned into do/while without the NullChunk test', 'align_nl_cont=1..3 and a file whose last line is the tail of a backslash-continued #define without final newline: endless loop'),
    'C06_2': ('src/newlines/eat_start_end.cpp: Chunk::GetHead()/GetTail() cached at the top of newlines_eat_start_end()', 'input of blank lines only with nl_start_of_file=remove and nl_end_of_file=remove: the single chunk is deleted twice (use after free)'),
    'C07_1': ('src/tokenizer/tokenize.cpp parse_next(): parse_macro block moved ahead of the cpd.unc_off / parse_ignored block', 'disable_processing_nl_cont=true and a disabled-region line that starts with a comment or ends in a backslash continuation'),
    'C07_2': ('src/output.cpp output_text() CT_IGNORED branch: add_text(str, true) became add_text(str, false, true)', 'an unterminated disabled region running to end of file whose last line ends in blanks without a line terminator'),
    'C08_1': ('src/output.cpp calculate_comment_body_indent(): backward scan for the last line matches only LF, not CR', 'CR-only input with a boxed multi-line comment: continuation lines get one extra blank, format(CR(x)) != format(LF(x))'),
    'C08_2': ('memset(cpd.le_counts) moved from uncrustify_end() (src/uncrustify.cpp) to the start of tokenize() (src/tokenizer/tokenize.cpp)', 'newlines=auto plus an inserted header/footer file whose terminator differs from the source: the inserted file decides the terminator'),
    'C09_1': ('src/unicode.cpp decode_utf16(): "ch += 0x10000" became "| 0x10000"', 'UTF-16 input with a character of an even supplementary plane (U+20000...)'),
    'C09_2': ('src/uncrustify.cpp uncrustify_file(): BOM policy switch keyed on fm.enc instead of cpd.enc', 'utf8_force / utf8_byte together with a non-default utf8_bom on input that is not UTF-8'),
    'C11_1': ('src/uncrustify.cpp do_source_file(): init_keywords_for_language() only when the language flags differ from the previous file', 'no -l; a C++ file with an "@" token (ObjC probe sets LANG_OC) immediately followed by a .mm file'),
    'C11_2': ('src/sorting.cpp text_contains_filename_without_ext(): pattern locals made function-local static const', 'mod_sort_include + mod_sort_incl_import_prioritize_filename and two files with different base names in one invocation'),
    'C12_1': ('src/uncrustify.cpp: cpd.bout cleared "where it is consumed" instead of in uncrustify_end()', '--if-changed with several files where an already formatted file precedes another file: the later target gets the earlier bytes prepended'),
    'C12_2': ('src/uncrustify.cpp bout_content_matches(): loop bound fm.data.size() instead of fm.raw.size()', 'multi-byte (UTF-8/BOM/UTF-16) input whose formatting keeps the size and changes only bytes near the end: --check says PASS'),
    'C13_1': ('src/backup.cpp backup_copy_file(): md5 comparison moved into the fopen block and changed to strncmp(..., len_in)', 'an empty / non-hex md5 file (run killed right after creating it) followed by a user edit and a second run: no backup of the edit'),
    'C13_2': ('src/uncrustify.cpp do_source_file(): ferror(pfout) replaced by fflush(pfout)', 'one transient ENOSPC/EIO on a non-final block write of the temporary file (> 4 KiB output): truncated file renamed over the target, exit 0'),
    'C14_1': ('src/uncrustify.cpp do_source_file(): backup_copy_file() moved into the rename branch', 'a no-op --replace run (records the md5 of the user text, no backup) followed by a run with another configuration: the user text exists nowhere'),
    'C14_2': ('src/backup.cpp backup_copy_file(): fwrite(data, 1, size) with success "> 0"', 'a short write of the backup (> 4 KiB input, disk full / size limit): truncated backup accepted, file replaced'),
    'C15_1': ('src/language_names.cpp extension_add(): stores the caller\'s language text instead of the canonical name', 'file_ext with a non-upper-case language name, then --update-config and reload: the mapping is dropped from the written config'),
    'C15_2': ('src/option.cpp load_option_file(): line cut at the first "#" before process_option_line()', 'a string option value containing "#" (disable_processing_cmt = "#FMT-OFF") written by --update-config and reloaded'),
    'C16_1': ('src/option.cpp read_number(): range check on the referenced value before the negation (rebased onto the repaired tree: patch.orig.diff is the author\'s patch)', 'a negated option reference assigned to a bounded option with an asymmetric range: "nl_max = -indent_columns"'),
    'C16_2': ('src/option.h validate(long) narrowed to validate(int)', 'a numeric literal >= 2^32 whose truncation lands inside [min, max]: "indent_columns = 4294967298" gives 2 without diagnostic'),
    'C17_1': ('src/output.cpp output_text(): allow_tabs term "!pc->IsPreproc() && indent_with_tabs == 2" lost the IsPreproc test', 'indent_with_tabs=2 with an explicit pp_indent_with_tabs=0 and an indented preprocessor line'),
    'C17_2': ('src/uncrustify.cpp uncrustify_end(): "cpd.unc_off = false" became "cpd.unc_off_used = false"', 'two files in one invocation where the first ends inside a disabled region: the second is copied verbatim (trailing blanks, tabs)'),
    'C19_1': ('src/space.cpp do_space(): the sp_catch_brace branch returns the hoisted value of sp_sparen_brace', 'catch (...) { with sp_sparen_brace and sp_catch_brace both set and different'),
    'C19_2': ('src/output.cpp output_text() CT_NL_CONT block: cpd.column + max(orig_sp, 1) also for ignore', 'sp_before_nl_cont=ignore and a backslash-newline directly attached to the preceding token'),
    'C20_1': ('src/newlines/blank_line.cpp do_blank_lines(): nl_max cap skipped for newlines flagged PCF_VAR_DEF', 'nl_max > 0 with nl_var_def_blk_end (or _start) > 0 and more than nl_max line breaks after a variable definition block'),
    'C20_2': ('src/newlines/can_increase_nl.cpp: the prev->Is(CT_BRACE_CLOSE)/nl_before_namespace block moved ahead of the next->Is(CT_BRACE_CLOSE) block', 'eat_blanks_* = true with nl_before/after_namespace = 2 and directly nested namespaces: blank lines next to the braces'),
    # ---- round 2 (a second, independent set of sub-agents; sites of round 1 excluded) ----
    'C02_3': ('src/space.cpp do_space(): the CT_VBRACE_OPEN rule widened from prev == SPAREN_CLOSE to prev == SPAREN_CLOSE or ELSE (spaced by sp_after_sparen)', 'sp_after_sparen=remove and a brace-less else whose statement starts with a word on the same line: "else return 1;" becomes "elsereturn 1;"'),
    'C02_4': ('src/newlines/add.cpp newline_add_between(): GetNextNcNnl() became GetNextNcNnlNpp() in the "brace followed by comment" branch', 'an nl_*_brace=add/force option, "{" with a trailing comment on the head line and a preprocessor line directly after: the brace is re-inserted behind the #ifdef line'),
    'C03_3': ('src/output.cpp cmt_trim_whitespace(): the continuation backslash is re-appended only when a blank preceded it', 'a multi-line /* */ comment inside a macro body whose line ends in text + backslash without a blank: the comment loses its continuation, the #define is cut off'),
    'C03_4': ('src/tokenizer/tokenize_cleanup.cpp CT_OPERATOR type-collecting loop: GetNext() became GetNextNcNnl()', 'a comment between "operator <type-word>" and the "(" of a conversion operator: the comment is deleted'),
    'C06_3': ('src/tokenizer/tokenize.cpp parse_cr_string(): the delimiter loop lost its ctx.more() test', 'a file whose last bytes are a raw-string prefix + delimiter without "(": endless append (bad_alloc / timeout)'),
    'C06_4': ('src/tokenizer/tokenize.cpp parse_comment(): the "unexpected end of file" branch removed (a 2-character "/*" comment reaches Str().at(2) in output_comment_c)', 'cmt_trailing_single_line_c_to_cpp=true and a file ending in "/*": uncaught std::out_of_range'),
    'C07_3': ('src/tokenizer/tokenize.cpp parse_comment(): "enable position < disable position" became "enable position < 0"', 'a marker comment that mentions the enable text before the disable text: the region is never opened and its text is formatted'),
    'C07_4': ('src/newlines/remove.cpp newlines_remove_newlines(): newline_iarf(pc, IARF_REMOVE) replaced by newline_del_between() (skips the CT_IGNORED guard)', 'nl_remove_extra_newlines=2 and a disabled region of two or more lines: the lines are joined'),
    'C08_3': ('src/tokenizer/tokenize.cpp parse_newline(): counts the terminators it consumes in cpd.le_counts', 'newlines=auto, mixed terminators and a disabled region whose terminators outnumber the rest of the file: the region decides the output terminator'),
    'C08_4': ('src/output.cpp output_comment_multi(): the verbatim part between the two markers inside one comment written with add_text(text, true)', 'a block comment holding both markers across a line break and an output terminator different from the input: input CR/LF bytes leak'),
    'C12_3': ('src/uncrustify.cpp main(): exit status of --check is the raw failure count', '--check over 256 (or a multiple of 256) failing files: exit status 0'),
    'C12_4': ('src/uncrustify.cpp do_source_file(): the --if-changed buffer written with fputs(text.c_str())', '--if-changed and an output containing a NUL byte: the file is truncated at the NUL'),
    'C13_3': ('src/uncrustify.cpp do_source_file(): backup_copy_file() moved behind the rename', 'in-place run with backups and a failure (or kill) in the backup step: the file is already replaced, the original is nowhere'),
    'C13_4': ('src/uncrustify.cpp load_mem_file(): fread(buf, 1, size) with success "> 0" and fm.raw.resize(got)', 'a short read of the source (I/O error, file shrinking): the prefix is formatted and replaces the file; the backup holds the prefix only'),
    'C14_3': ('src/uncrustify.cpp do_source_file(): the md5 file is refreshed only when the file was replaced', 'run (changes the file), user writes other already formatted text, run (no-op: the md5 now stays stale), user restores the earlier text, run with another configuration: the stale md5 matches, no backup of that text is made'),
    'C14_4': ('src/backup.cpp backup_copy_file(): early return EX_OK for empty data', 'an emptied file: no backup of the (empty) user text is made, the old backup is taken for current'),
    'C16_3': ('src/option.cpp process_option_line(): this_line_number bound by reference (const auto &) instead of copied', 'a config with an include line: every diagnostic after it names the line number of the end of the included file'),
    'C16_4': ('src/option.cpp read_enum(): the type check of a referenced option replaced by convert_string(opt->str())', '"sp_arith = indent_class" (a bool option whose text is a literal of the other enumeration): accepted silently, the option changes'),
    'C17_3': ('src/tokenizer/tokenize.cpp tokenize() strip loop split into a pass for blanks and a pass for tabs (range-for over an initializer list)', 'a #pragma / #region body ending in blank(s) followed by tab(s): the blanks survive at the end of the line'),
    'C17_4': ('src/sorting.cpp remove_blank_lines_between_imports(): loop bound num_chunks - 1 became num_chunks', 'include sorting with mod_sort_incl_import_grouping_enabled, an include block that ends the file and nl_end_of_file_min >= 2: the file ends with one line break'),
    'C19_3': ('src/space.cpp do_space(): the sp_square_fparen branch returns options::sp_inside_square()', 'a call through an array element "handlers[i](x)" with sp_square_fparen set differently from sp_inside_square'),
    'C19_4': ('src/tokenizer/combine.cpp handle_cpp_lambda(): orig_col of the re-split "]" computed as if the brackets were adjacent', 'a lambda "[ ]() {}" under sp_inside_square_empty=ignore: the blank is not kept'),
    'C20_3': ('src/newlines/eat_start_end.cpp: the start-of-file test compares with the hoisted end-of-file minimum', 'nl_start_of_file=add with nl_start_of_file_min >= 2 and a smaller nl_end_of_file_min: the file starts with one line break'),
    'C20_4': ('src/newlines/remove.cpp newlines_remove_disallowed(): loop rewritten so that it also visits the first chunk', 'nl_start_of_file_min >= 2, code_width > 0 and an over-long line that gets split: the leading line breaks collapse to 1'),
}


NOTES = {
    'C16_2': 'confirmed against the tree as it was when the change was written (demo failed with the change); after the repair 4298818 (values must be representable in the option\'s type) the change no longer breaks the property: its own demo passes with the change applied (confirm.json), and the check correctly stays silent',
    'C13_1': 'patch.diff is the author\'s change rebased by hand onto the repaired backup.cpp (repairs e348f26, bd86278 and the md5_str_in overflow fix); patch.orig.diff is the original; re-confirmed on the repaired tree',
    'C14_2': 'patch.diff is the author\'s change rebased by hand onto the repaired backup.cpp; patch.orig.diff is the original; re-confirmed on the repaired tree',
    'C16_1': 'patch.diff is the author\'s change rebased by hand onto the repaired read_number(); patch.orig.diff is the original',
    'C02_3': 'missed when first run; caught after clause C02-K3c was added to the do_space VC (no REMOVE between a brace-less else/do and the following word)',
    'C03_3': 'missed when first run; caught after cmt_trim_whitespace was brought under contract (C03-K4)',
    'C03_1': 'missed in round 1 (strip loop not under contract); caught after the tokenize() strip loop proof was completed (C03-K5)',
    'C07_3': 'missed when first run; caught after the marker decision of parse_comment was brought under contract (C07-K7)',
    'C08_3': 'first run: undecided (frame of parse_newline changed); now a postcondition of parse_newline / parse_off_newlines ("does not vote in the census") fails',
    'C13_3': 'missed when first run (the postcondition only asked for the backup at the end of the run); caught after rename_contract got the precondition "backup made, or backups off"',
    'C13_4': 'missed when first run; caught after load_mem_file was brought under contract (C13-K4)',
    'C16_3': 'missed when first run (dispatcher not under contract); caught by the line-counter clause of process_option_line (C16-K5)',
    'C16_4': 'caught after read_enum<iarf_e> was brought under contract (C16-K6); the first "caught" verdict was an artefact of the unrepaired std::stoi defect',
    'C17_3': 'undecided: the change uses a range-for over an initializer list, which the C++ front end of CBMC rejects (the slice no longer compiles); reported as exit 2, never as held',
    'C12_4': 'undecided: the changed loop no longer matches desugaring rule D1 and uses std::string construction from iterators, outside the front end',
    'C06_3': 'missed when first run; caught after parse_cr_string was brought under contract (C06-K9: the delimiter loop no longer decreases its variant)',
    'C19_4': 'missed when first run; caught after the re-split of the lambda [] was brought under contract (C19-K5: the closing bracket keeps its original column)',
    'C17_4': 'missed when first run; caught after remove_blank_lines_between_imports was brought under contract (C17-K9: the newline after the last import is outside the frame)',
    'C06_1': 'missed in round 1 (loop-contract proof parked as WIP); caught after the walk was checked as a direct VC with the sentinel assertion of the navigation model (C06-K10)',
    'C04_1': 'missed in round 1; caught after paren_multiline_before_brace was brought under contract (C04-K5)',
    'C20_4': 'missed when first run; caught after newlines_remove_disallowed was brought under contract (C20-K6)',
    'C07_4': 'missed when first run; caught after the IARF newline switch and newlines_remove_newlines were brought under contract (C07-K9)',
}


def main():
    rows = []
    for d in sorted(glob.glob(os.path.join(VERIF, 'seeded', 'C??_?'))):
        sid = os.path.basename(d)
        pid = sid[:3]
        conf = json.load(open(os.path.join(d, 'confirm.json'))) if os.path.exists(os.path.join(d, 'confirm.json')) else {}
        checks = {}
        for c in sorted(glob.glob(os.path.join(d, 'check_*.json'))):
            r = json.load(open(c))
            checks[r['property']] = {'verdict': r['verdict'], 'exit': r['exit'], 'secs': r['secs'], 'against': r.get('against'),
                                     'lines': [l for l in r['lines'] if 'VIOLATION' in l or 'UNDECIDED' in l or 'failed obligation' in l][:6]}
        what, needs = INFO.get(sid, ('', ''))
        note = NOTES.get(sid)
        meta = {'id': sid, 'breaks_property': pid, 'change': what, 'needs_to_manifest': needs, 'note': note,
                'author': 'independent sub-agent given only the property text and a scratch worktree',
                'confirmed_by_me': {'how': 'tools/seed_eval.py confirm: git apply in a scratch worktree, cmake --build, ctest (whole suite), demo.sh with the patch (must fail), '
                                           'git checkout, rebuild, demo.sh (must pass)', **{k: conf.get(k) for k in ('when', 'applies', 'builds_with_patch', 'ctest_with_patch', 'demo_with_patch_rc', 'demo_without_patch_rc', 'confirmed')}},
                'checks_run': {'how': 'tools/seed_eval.py check: patch applied to a scratch worktree at /repo HEAD, python3 check.py <id> quick with VERIF_REPO=<worktree>, patch reverted', 'results': checks}}
        with open(os.path.join(d, 'meta.json'), 'w') as f:
            json.dump(meta, f, indent=1)
        v = checks.get(pid, {}).get('verdict', 'not run')
        ob = ''
        for l in checks.get(pid, {}).get('lines', []):
            if 'failed obligation' in l:
                ob = l.split('failed obligation:')[1].split('::')[0].strip()
                break
        if sid == 'C16_2':
            v = 'silent (change neutralised by repair 4298818)'
        rows.append((sid, what, needs, v, ob, 'yes' if conf.get('confirmed') else ('no longer breaking' if sid == 'C16_2' else 'NO')))
    with open(os.path.join(VERIF, 'seeded', 'RESULTS.md'), 'w') as f:
        f.write('# Seeded breaking changes (written by independent sub-agents from the property text only)\n\n'
                'Each change compiles, passes the whole existing test suite, and makes its demo.sh fail (confirmed by me in a scratch worktree; see meta.json).\n'
                '`caught` = `check.py <id> quick` exits 1 with a VIOLATION line; `undecided` = exit 2 (no alarm, no verdict); `missed` = exit 0.\n\n'
                '| seed | change | needs | confirmed | check verdict | first failed obligation |\n|---|---|---|---|---|---|\n')
        for r in rows:
            f.write('| %s | %s | %s | %s | **%s** | %s |\n' % (r[0], r[1], r[2], r[5], r[3], r[4]))
        n = len(rows)
        with open(os.path.join(VERIF, 'seeded', 'table_for_design.md'), 'w') as g:
            g.write('| seed | what the change does | check verdict | obligation that fails first |\n|---|---|---|---|\n')
            for r in rows:
                g.write('| %s | %s | %s | %s |\n' % (r[0], r[1], r[3], r[4]))
        f.write('\n%d seeds: %d caught, %d undecided, %d missed, %d not run.\n' % (
            n, sum(r[3] == 'caught' for r in rows), sum(r[3] == 'undecided' for r in rows), sum(r[3] == 'missed' for r in rows), sum(r[3] == 'not run' for r in rows)))


if __name__ == '__main__':
    main()
